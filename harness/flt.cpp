// Correspondence harness for C13 (floating-point text = the C library's rendering).
// The library's calls to snprintf are observed through a recording wrapper *macro defined here*, before the
// library headers are included (no source hook): the format string the library really passed is part of
// every observation.  The reference rendering is produced by this harness with its own three-line
// construction of the printf format.
#include "common.hpp"
#include <cstdarg>
#include <cmath>
#include <clocale>
#include <cerrno>

namespace vh {
struct SnRec { int calls = 0; std::string fmt; bool varied = false; };
inline SnRec &snrec() { static SnRec r; return r; }
// The conversion libc is asked for is recorded in one canonical spelling: a width or precision passed as `*` plus an int
// argument is written out in digits (a negative precision means "none"), so "%.*f", 3 and "%.3f" are the same request.
inline int rec_snprintf(char *buf, size_t n, const char *fmt, ...) {
    SnRec &r = snrec();
    va_list ap; va_start(ap, fmt);
    va_list ap2; va_copy(ap2, ap);
    std::string canon;
    for (const char *p = fmt; *p; ++p) {
        if (*p != '*') { canon += *p; continue; }
        int v = va_arg(ap2, int);
        if (!canon.empty() && canon.back() == '.' && v < 0) canon.pop_back();
        else canon += std::to_string(v);
    }
    va_end(ap2);
    if (r.calls && r.fmt != canon) r.varied = true;
    r.calls++; r.fmt = canon;
    int k = vsnprintf(buf, n, fmt, ap);
    va_end(ap);
    return k;
}
}
#define snprintf vh::rec_snprintf
#include "st_common.hpp"
#undef snprintf
using namespace vh;

// ------------------------------------------------------------------ values
static double d_of(uint64_t b) { double d; memcpy(&d, &b, 8); return d; }
static float f_of(uint32_t b) { float f; memcpy(&f, &b, 4); return f; }
static uint64_t bits_of(double d) { uint64_t b; memcpy(&b, &d, 8); return b; }
static uint32_t bits_of(float f) { uint32_t b; memcpy(&b, &f, 4); return b; }
static std::string hex64(uint64_t v) { std::string o; put_hex(o, v, 16); return o; }
static std::string hex32(uint32_t v) { std::string o; put_hex(o, v, 8); return o; }

// ------------------------------------------------------------------ reference
// the harness's own construction of "the corresponding conversion"
static std::string ref_format(bool sign, long prec, char letter) {
    std::string f = "%";
    if (sign) f += "+";
    if (prec >= 0) f += "." + std::to_string(prec);
    return f + letter;
}
// libc's complete rendering, however long
static std::string ref_render(const std::string &fmt, double v) {
    char small[2048];
    int n = ::snprintf(small, sizeof small, fmt.c_str(), v);
    if (n < 0) return "";
    if ((size_t)n < sizeof small) return std::string(small, n);
    std::string big(n + 1, '\0');
    ::snprintf(&big[0], n + 1, fmt.c_str(), v);
    big.resize(n);
    return big;
}

struct CollectWriter : ST::format_writer {
    std::string out;
    CollectWriter() : ST::format_writer("") {}
    ST::format_writer &append(const char *data, size_t size) override { out.append(data, size); return *this; }
    ST::format_writer &append_char(char ch, size_t count = 1) override { out.append(count, ch); return *this; }
};

static std::string rec_obs() {
    SnRec &r = snrec();
    std::string o = "rec=" + (r.calls ? hex_bytes(r.fmt) : std::string("none"));
    if (r.varied) o += " !fmt-varied";
    return o;
}

// ------------------------------------------------------------------ exec
// flt.fmt route=text|direct ty=d|f bits= cls=g|f|e|E prec=<int>|none sign= wid= al=d|l|r pad=<code> reff= rend=
// (the field width is "wid": "w" is reserved by the framework for the unit width of hex arguments)
static std::string do_fmt(const Args &a) {
    bool isf = a.get("ty") == "f";
    uint64_t bits = strtoull(a.get("bits").c_str(), nullptr, 16);
    double dv = isf ? (double)f_of((uint32_t)bits) : d_of(bits);
    std::string cls = a.get("cls"); bool sign = a.num("sign") != 0; long w = (long)a.snum("wid");
    bool has_prec = a.get("prec") != "none"; long prec = has_prec ? (long)a.snum("prec") : -1;
    std::string al = a.get("al"); int pad = (int)a.num("pad");
    char letter = cls[0];
    std::string reff = ref_format(sign, prec, letter), rend = ref_render(reff, dv);
    if (hex_bytes(reff) != a.get("reff") || hex_bytes(rend) != a.get("rend")) return "!ref-mismatch";
    if (isf && hex64(bits_of(dv)) != a.get("dbits")) return "!promotion-mismatch";
    snrec() = SnRec();
    return guarded([&]() -> std::string {
        std::string out;
        if (a.get("route") == "direct") {
            ST::format_spec sp;
            sp.minimum_length = (int)w; sp.precision = has_prec ? (int)prec : -1;
            sp.alignment = al == "l" ? ST::align_left : al == "r" ? ST::align_right : ST::align_default;
            sp.float_class = cls == "f" ? ST::float_fixed : cls == "e" ? ST::float_exp : cls == "E" ? ST::float_exp_upper : ST::float_default;
            sp.pad = (char)pad; sp.always_signed = sign;
            CollectWriter cw;
            if (isf) ST::format_type(sp, cw, f_of((uint32_t)bits)); else ST::format_type(sp, cw, d_of(bits));
            out = cw.out;
        } else {
            std::string f = "{";
            if (al == "l") f += "<"; else if (al == "r") f += ">";
            // pad '0' has two spellings: "_0" and the printf-style "0" flag (which also sets numeric_pad, ignored for floats)
            if (pad == '0' && a.num("zf")) f += "0";
            else if (pad) { f += "_"; f += (char)pad; }
            if (sign) f += "+";
            if (w) f += std::to_string(w);
            if (has_prec) f += "." + std::to_string(prec);
            if (cls != "g") f += cls;
            f += "}";
            ST::string s = isf ? ST::format(ST::assume_valid, f.c_str(), f_of((uint32_t)bits)) : ST::format(ST::assume_valid, f.c_str(), d_of(bits));
            std::string sh = shape(s.to_utf8()); if (!sh.empty()) return sh;
            out = str_bytes(s);
        }
        return rec_obs() + " out=" + hex_bytes(out);
    });
}

// flt.from ty=d|f|fd bits= c=<code>|dflt reff= rend=      flt.ss ty=d|f bits= reff= rend=
static std::string do_from(const Args &a, bool stream) {
    std::string ty = a.get("ty"); bool isf = ty == "f";
    uint64_t bits = strtoull(a.get("bits").c_str(), nullptr, 16);
    double dv = isf ? (double)f_of((uint32_t)bits) : d_of(bits);
    bool dflt = stream || a.get("c") == "dflt"; char c = dflt ? 'g' : (char)a.num("c");
    bool valid = c && strchr("efgEFG", c) != nullptr;
    std::string reff = ref_format(false, -1, c), rend = valid ? ref_render(reff, dv) : "";
    if (hex_bytes(reff) != a.get("reff") || hex_bytes(rend) != a.get("rend")) return "!ref-mismatch";
    if (isf && hex64(bits_of(dv)) != a.get("dbits")) return "!promotion-mismatch";
    snrec() = SnRec();
    return guarded([&]() -> std::string {
        std::string out;
        if (stream) {
            // pre=<n>: the stream already holds n bytes (a rendering made in place in the unused tail of the buffer must fit
            // with its terminator: seeded C13-G); the observation is what the insertion appended
            ST::string_stream ss;
            size_t pre = a.get("pre").empty() ? 0 : (size_t)a.num("pre");
            std::string prefix(pre, 'x');
            if (pre) ss.append(prefix.data(), prefix.size());
            if (isf) ss << f_of((uint32_t)bits); else ss << d_of(bits);
            if (ss.size() < pre || std::string(ss.raw_buffer(), pre) != prefix) return "!stream-prefix-changed";
            out.assign(ss.raw_buffer() + pre, ss.size() - pre);
        } else {
            ST::string s;
            if (isf) s = dflt ? ST::string::from_float(f_of((uint32_t)bits)) : ST::string::from_float(f_of((uint32_t)bits), c);
            else if (ty == "fd") s = dflt ? ST::string::from_float(d_of(bits)) : ST::string::from_float(d_of(bits), c);
            else s = dflt ? ST::string::from_double(d_of(bits)) : ST::string::from_double(d_of(bits), c);
            std::string sh = shape(s.to_utf8()); if (!sh.empty()) return sh;
            out = str_bytes(s);
        }
        return rec_obs() + " out=" + hex_bytes(out);
    });
}

// flt.parse in=<hex>
static std::string do_parse(const Args &a) {
    std::string bytes = parse_bytes(a.get("in"));
    return guarded([&]() -> std::string {
        ST::string s = raw_string(bytes);
        // results that already carry the flags of an earlier successful parse: every to_*(result) call must overwrite them
        ST::conversion_result r1, r2; (void)ST::string("1.5").to_double(r1); (void)ST::string("1.5").to_float(r2);
        double d = s.to_double(r1), dn = s.to_double();
        float f = s.to_float(r2), fn = s.to_float();
        char *p = new char[bytes.size() + 1]; memcpy(p, bytes.data(), bytes.size()); p[bytes.size()] = 0;
        char *e1, *e2; double rd = strtod(p, &e1); float rf = strtof(p, &e2);
        std::string o = "ok d=" + hex64(bits_of(d)) + "," + (r1.ok() ? "1" : "0") + (r1.full_match() ? "1" : "0") + "," + hex64(bits_of(dn)) +
                        " f=" + hex32(bits_of(f)) + "," + (r2.ok() ? "1" : "0") + (r2.full_match() ? "1" : "0") + "," + hex32(bits_of(fn)) +
                        " | rd=" + hex64(bits_of(rd)) + "," + std::to_string(e1 - p) + " rf=" + hex32(bits_of(rf)) + "," + std::to_string(e2 - p);
        delete[] p;
        return o;
    });
}

static std::string exec_case(const Args &a) {
    if (a.op == "flt.fmt") return do_fmt(a);
    if (a.op == "flt.from") return do_from(a, false);
    if (a.op == "flt.ss") return do_from(a, true);
    if (a.op == "flt.parse") return do_parse(a);
    return "bad-op";
}

// ------------------------------------------------------------------ generators
struct Val { bool isf; uint64_t bits; };

static std::string val_args(const Val &v) {
    if (v.isf) return "ty=f bits=" + hex32((uint32_t)v.bits) + " dbits=" + hex64(bits_of((double)f_of((uint32_t)v.bits)));
    return "ty=d bits=" + hex64(v.bits);
}
static double val_double(const Val &v) { return v.isf ? (double)f_of((uint32_t)v.bits) : d_of(v.bits); }

static std::string fmt_line(const char *route, const Val &v, char cls, bool has_prec, long prec, bool sign, long w, char al, int pad, bool zero_flag = false) {
    std::string reff = ref_format(sign, has_prec ? prec : -1, cls), rend = ref_render(reff, val_double(v));
    return std::string("flt.fmt route=") + route + " " + val_args(v) + " cls=" + cls + " prec=" + (has_prec ? std::to_string(prec) : "none") +
           " sign=" + (sign ? "1" : "0") + " wid=" + std::to_string(w) + " al=" + al + " pad=" + std::to_string(pad) + (zero_flag ? " zf=1" : "") +
           " reff=" + hex_bytes(reff) + " rend=" + hex_bytes(rend);
}
static std::string from_line(const char *op, const std::string &ty, const Val &v, int c /* -1 = default argument */) {
    char ch = c < 0 ? 'g' : (char)c;
    bool valid = ch && strchr("efgEFG", ch) != nullptr;
    std::string reff = ref_format(false, -1, ch), rend = valid ? ref_render(reff, val_double(v)) : "";
    std::string va = val_args(v);
    if (ty == "fd") va = "ty=fd bits=" + hex64(v.bits);
    return std::string(op) + " " + va + (std::string(op) == "flt.ss" ? "" : (" c=" + (c < 0 ? std::string("dflt") : std::to_string(c)))) +
           " reff=" + hex_bytes(reff) + " rend=" + hex_bytes(rend);
}

static void gen(Emitter &em, const Options &opt) {
    Rng rng(opt.seed);
    bool thorough = opt.tier == "thorough";
    uint64_t k = 0;
    // the line (whose construction calls libc for the reference rendering) is built only for cases of this slice
    auto emit = [&](auto &&mk) { if ((int)(k++ % opt.nslices) == opt.slice) em.emit(mk()); };
#define EMIT(...) emit([&]() -> std::string { return (__VA_ARGS__); })

    // ---- directed values
    std::vector<Val> vals;
    auto addd = [&](double d) { vals.push_back({false, bits_of(d)}); vals.push_back({false, bits_of(-d)}); };
    auto addf = [&](float f) { vals.push_back({true, bits_of(f)}); vals.push_back({true, bits_of(-f)}); };
    for (double d : {0.0, (double)INFINITY, (double)NAN, 4.9406564584124654e-324, 2.2250738585072009e-308, 2.2250738585072014e-308, 1.7976931348623157e308,
                     1.0, 1.5, 3.14159, 16384.0, 0.0234, 0.1, 0.5, 2.5, 9.5, 9.999999, 99999.95, 999999.5, 1e15, 1e16, 1e17, 123456789.125, 0.000123456, 1e-5, 1e-4,
                     9007199254740993.0, 4503599627370496.5, 1e22, 1e23, 5e-324 * 3}) {
        addd(d); addd(std::nextafter(d, 0.0)); addd(std::nextafter(d, (double)INFINITY));
    }
    for (int e = -320; e <= 308; e += (thorough ? 1 : 4)) { double d = std::pow(10.0, e); addd(d); if (thorough || e % 16 == 0) { addd(std::nextafter(d, 0.0)); addd(std::nextafter(d, 1e309)); } }
    for (float f : {0.0f, (float)INFINITY, (float)NAN, 1.4e-45f, 1.17549421e-38f, 1.17549435e-38f, 3.40282347e38f, 1.0f, 1.5f, 3.14159f, 16384.0f, 0.0234f, 0.1f, 16777217.0f, 1e10f, 1e-10f}) {
        addf(f); addf(std::nextafter(f, 0.0f)); addf(std::nextafter(f, (float)INFINITY));
    }
    for (int e = -45; e <= 38; e += (thorough ? 1 : 3)) addf(std::pow(10.0f, (float)e));
    // NaN payload / sign variants
    for (uint64_t b : {0x7ff0000000000001ULL, 0xfff8000000000000ULL, 0x7fffffffffffffffULL, 0xfff0000000000001ULL}) vals.push_back({false, b});
    for (uint32_t b : {0x7f800001u, 0xffc00000u, 0x7fffffffu}) vals.push_back({true, b});

    const char clss[] = {'g', 'f', 'e', 'E'};
    const long precs[] = {-1, 0, 1, 6, 17, 40, 61, 62, 100};
    // ---- defect corpus (section 5, #13) first
    EMIT(fmt_line("text", {false, bits_of(1e100)}, 'f', false, -1, false, 0, 'd', 0));
    EMIT(from_line("flt.from", "d", {false, bits_of(1e100)}, 'f'));
    EMIT(fmt_line("text", {false, bits_of(1.5)}, 'f', true, 62, false, 0, 'd', 0));
    EMIT(fmt_line("text", {false, bits_of(1.5)}, 'e', true, 58, false, 0, 'd', 0));
    EMIT(fmt_line("text", {false, bits_of(1.5)}, 'e', true, 57, false, 0, 'd', 0));
    EMIT(fmt_line("text", {false, bits_of(1.5)}, 'f', true, 61, false, 0, 'd', 0));

    // ---- full cross product on the directed values (quick: thinned deterministically)
    uint64_t idx = 0;
    for (const Val &v : vals)
        for (char cls : clss)
            for (long p : precs)
                for (int sign = 0; sign <= 1; ++sign)
                    for (long w : {0L, 10L, 80L})
                        for (char al : {'d', 'l', 'r'}) {
                            ++idx;
                            if (!thorough && (idx * 2654435761ULL >> 7) % 16 != 0) continue;
                            if (w == 0 && al != 'd' && idx % 3) continue;
                            int pad = (idx % 5 == 0) ? '*' : (idx % 7 == 0) ? '0' : 0;
                            EMIT(fmt_line((idx % 4 == 0) ? "direct" : "text", v, cls, p >= 0, p, sign != 0, w, al, pad, pad == '0' && (idx % 2)));
                        }
    // every value through from_float/from_double (all six letters + default), string_stream
    for (const Val &v : vals) {
        std::string ty = v.isf ? "f" : "d";
        for (int c : {-1, (int)'e', (int)'f', (int)'g', (int)'E', (int)'F', (int)'G'}) EMIT(from_line("flt.from", ty, v, c));
        if (!v.isf) EMIT(from_line("flt.from", "fd", v, 'e'));
        EMIT(from_line("flt.ss", ty, v, -1));
        // ... and into a stream filled so that the rendering ends exactly at, one before and one after each capacity
        { std::string rend = ref_render(ref_format(false, -1, 'g'), val_double(v));
          for (size_t cap : {(size_t)256, (size_t)512, (size_t)1024}) for (int d = -1; d <= 1; ++d)
              if (cap + d >= rend.size()) EMIT(from_line("flt.ss", ty, v, -1) + " pre=" + std::to_string(cap + d - rend.size())); }
    }
    // invalid conversion letters -> bad_format
    for (int c : std::vector<int>{0, 'a', 'A', 'd', 'x', 'h', '%', ' ', 'n', 's', 0x80, 0xff, 'D', 'H'})
        for (const char *ty : {"d", "f", "fd"}) {
            bool isf = std::string(ty) == "f";
            EMIT(from_line("flt.from", ty, Val{isf, isf ? (uint64_t)bits_of(1.5f) : bits_of(1.5)}, c));
        }
    // direct route: odd spec values the text route cannot express (negative precision other than -1, negative width, pad bytes)
    for (const Val &v : {Val{false, bits_of(3.14159)}, Val{false, bits_of(-1e100)}, Val{true, bits_of(2.5f)}})
        for (long p : {-2L, -2147483648L, 2L, 300L, 1000L})
            for (long w : {-5L, 0L, 2147483647L / 100000000L, 70L})
                for (int pad : std::vector<int>{0, '}', '{', 0x80, 0xff})
                    EMIT(fmt_line("direct", v, clss[(p + w + pad) & 3], true, p, (p & 1) != 0, w, (w & 1) ? 'l' : 'd', pad));

    // ---- random bit patterns with a random field spec each
    uint64_t nr = thorough ? 5000000ULL : 200000ULL;
    for (uint64_t i = 0; i < nr; ++i) {
        Val v; v.isf = rng.chance(1, 3); v.bits = v.isf ? (rng.next() >> 32) : rng.next();
        unsigned kind = (unsigned)rng.below(8);
        char cls = clss[rng.below(4)];
        long p = precs[rng.below(9)]; if (rng.chance(1, 6)) p = (long)rng.below(70);
        bool sign = rng.chance(1, 3);
        long w = rng.pick(std::vector<long>{0, 0, 10, 80, 64, 63, 65, 5});
        char al = "dlr"[rng.below(3)];
        int pad = rng.chance(1, 4) ? (int)rng.pick(std::vector<int>{'*', '0', ' ', 'x'}) : 0;
        char fl = "efgEFG"[rng.below(6)];     // every draw happens outside the lazily evaluated line
        if (kind == 0) EMIT(from_line("flt.from", v.isf ? "f" : "d", v, fl));
        else if (kind == 1) EMIT(from_line("flt.ss", v.isf ? "f" : "d", v, -1));
        else EMIT(fmt_line(kind == 2 ? "direct" : "text", v, cls, p >= 0, p, sign, w, al, pad, pad == '0' && (i & 1)));
    }

    // ---- parsing: strings over the C12 alphabet plus e E . inf nan hex floats
    std::string alpha = std::string(" +-019.eExXpinfaN") + '\0';
    int maxlen = thorough ? 5 : 4;
    for (int len = 0; len <= maxlen; ++len) {
        uint64_t tot = 1; for (int i = 0; i < len; ++i) tot *= alpha.size();
        for (uint64_t i = 0; i < tot; ++i) {
            if (len == 5 && (i * 2654435761ULL >> 5) % 4 != 0) continue;   // thorough: a quarter of the 1.9 M length-5 strings
            std::string t(len, ' '); uint64_t x = i;
            for (int j = len - 1; j >= 0; --j) { t[j] = alpha[x % alpha.size()]; x /= alpha.size(); }
            EMIT("flt.parse in=" + hex_bytes(t));
        }
    }
    for (const char *t : {"inf", "-inf", "INF", "infinity", "infinit", "nan", "-nan", "nan(123)", "nan(", "NAN()x", "0x1p-1074", "0x1.fffffffffffffp1023", "0x1p1024",
                          "1e308", "1e309", "-1e309", "1e-324", "4.9e-324", "2.47e-324", "3.4028235e38", "3.4028236e38", "1e39", "1e-46", "0.1", ".5", "5.", ".", "e5", "1e", "1e+", "1e+5x",
                          " \t\n1.5", "1.5 ", "+.5e-3", "1,5", "0x", "0x.", "0x.8", "0xp1", "1.7976931348623157e308", "1.7976931348623159e308", "123456789012345678901234567890",
                          // double rounding: strtof(s) differs from (float)strtod(s)
                          "1.00000005960464477539062500000000000000000000001", "1.0000001788139343261718750000000000001", "-16777217.000000000000001",
                          "7.038531e-26", "3.4028235677973366e38", "1.401298464324817e-45", "0.7006492321624085e-45", "0.70064923216240854e-45"})
        EMIT("flt.parse in=" + hex_bytes(t));
    for (const Val &v : vals) {    // what the library itself prints parses back through the same route as libc
        char buf[64]; ::snprintf(buf, sizeof buf, "%.17g", val_double(v)); EMIT("flt.parse in=" + hex_bytes(buf));
        ::snprintf(buf, sizeof buf, "%a", val_double(v)); EMIT("flt.parse in=" + hex_bytes(buf));
    }
}

int main(int argc, char **argv) {
    setlocale(LC_ALL, "C");
    // the machine is shared: a 4 s stall of a starved worker is not a hang; an explicit --timeout still wins
    std::vector<char *> av{argv[0], (char *)"--timeout", (char *)"30"};
    for (int i = 1; i < argc; ++i) av.push_back(argv[i]);
    return run_main((int)av.size(), av.data(), gen, exec_case);
}
