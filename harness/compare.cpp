// Correspondence harness for C06 (comparison, operators, hashes, case maps).  Signs are printed as - 0 +.
//   scmp a=<hex> b=<hex> n=<N|none>        => cmp=<9|18 signs> ops=<9 bools> hh=<b> hhi=<b>
//   scmpnull a=<hex> n=<N|none>            => cmp=<3|6 signs> ops=<2 bools>
//   bcmp w=<8|16|32|w> a=<hex> b=<hex> n=  => cmp=<3|6 signs> ops=<3 bools>
//   bcmpnull w= a= n=                      => cmp=<1|2 signs>
//   rawcmp w= a=<unit> b=<unit> la= lb= n= => r=<sign>      static (ptr,len) form; lengths are only numbers
//   bigcmp len=<N>                         => cmp=<6 signs> ops=<6 bools>   a real ST::string of len (unwritten) bytes against ""
//   casemap a=<hex>                        => up=<hex> lo=<hex> h=<hex64> hi=<hex64> sh=<b>
//   tri a= b= c=                           => s=<ab ba bc ac> i=<ab ba bc ac>
//   blk.scmp a= alpha= maxlen= | blk.bcmp w= a= alpha= maxlen= | blk.tri a= alpha= maxlen=   => digest
// The order of the signs/booleans is the order of the calls below (mirrored in lean/Driver/Compare.lean).
#include "st_common.hpp"
#include <memory>
using namespace vh;

static char sgc(int x) { return x < 0 ? '-' : x == 0 ? '0' : '+'; }
static char bcx(bool b) { return b ? '1' : '0'; }

// exact-size heap copies: `z` NUL-terminated, `n` without terminator
template <class T> struct Blocks {
    T *z, *n; size_t len;
    explicit Blocks(const std::vector<uint64_t> &v) : len(v.size()) {
        z = new T[len + 1]; n = new T[len];
        for (size_t i = 0; i < len; ++i) { z[i] = (T)v[i]; n[i] = (T)v[i]; }
        z[len] = 0;
    }
    ~Blocks() { delete[] z; delete[] n; }
    Blocks(const Blocks &) = delete;
};

static std::vector<uint64_t> units_of(const std::string &bytes) {
    std::vector<uint64_t> v; for (unsigned char c : bytes) v.push_back(c); return v;
}

// ---------------------------------------------------------------------------------------- ST::string
static std::string do_scmp(const std::string &A, const std::string &B, bool hasN, size_t n) {
    ST::string a = raw_string(A), b = raw_string(B);
    Blocks<char> bb(units_of(B));
    const char *c = bb.z; const char8_t *c8 = (const char8_t *)bb.z;
    const ST::case_sensitivity_t ci = ST::case_insensitive;
    std::string cmp;
    cmp += sgc(a.compare(b)); cmp += sgc(a.compare(c)); cmp += sgc(a.compare(c8));
    cmp += sgc(a.compare(b, ci)); cmp += sgc(a.compare(c, ci)); cmp += sgc(a.compare(c8, ci));
    cmp += sgc(a.compare_i(b)); cmp += sgc(a.compare_i(c)); cmp += sgc(a.compare_i(c8));
    if (hasN) {
        cmp += sgc(a.compare_n(b, n)); cmp += sgc(a.compare_n(c, n)); cmp += sgc(a.compare_n(c8, n));
        cmp += sgc(a.compare_n(b, n, ci)); cmp += sgc(a.compare_n(c, n, ci)); cmp += sgc(a.compare_n(c8, n, ci));
        cmp += sgc(a.compare_ni(b, n)); cmp += sgc(a.compare_ni(c, n)); cmp += sgc(a.compare_ni(c8, n));
    }
    std::string ops;
    ops += bcx(a < b); ops += bcx(a == b); ops += bcx(a != b);
    ops += bcx(a == c); ops += bcx(a != c); ops += bcx(a == c8); ops += bcx(a != c8);
    ops += bcx(ST::less_i()(a, b)); ops += bcx(ST::equal_i()(a, b));
    return "cmp=" + cmp + " ops=" + ops + " hh=" + bcx(ST::hash()(a) == ST::hash()(b)) + " hhi=" + bcx(ST::hash_i()(a) == ST::hash_i()(b));
}

static std::string do_scmpnull(const std::string &A, bool hasN, size_t n) {
    ST::string a = raw_string(A);
    const char *c = nullptr;
    std::string cmp;
    cmp += sgc(a.compare(c)); cmp += sgc(a.compare(c, ST::case_insensitive)); cmp += sgc(a.compare_i(c));
    if (hasN) { cmp += sgc(a.compare_n(c, n)); cmp += sgc(a.compare_n(c, n, ST::case_insensitive)); cmp += sgc(a.compare_ni(c, n)); }
    std::string ops; ops += bcx(a == c); ops += bcx(a != c);
    return "cmp=" + cmp + " ops=" + ops;
}

static std::string do_casemap(const std::string &A) {
    ST::string a = raw_string(A);
    ST::string up = a.to_upper(), lo = a.to_lower();
    if (up.c_str()[up.size()] != 0 || lo.c_str()[lo.size()] != 0) return "!noterm";
    std::string out = "up=" + hex_bytes(str_bytes(up)) + " lo=" + hex_bytes(str_bytes(lo)) + " h=";
    put_hex(out, ST::hash()(a), 16); out += " hi="; put_hex(out, ST::hash_i()(a), 16);
    out += " sh="; out += bcx(std::hash<ST::string>()(a) == ST::hash()(a));
    return out;
}

static std::string do_tri(const std::string &A, const std::string &B, const std::string &C) {
    ST::string a = raw_string(A), b = raw_string(B), c = raw_string(C);
    std::string s, i;
    s += sgc(a.compare(b)); s += sgc(b.compare(a)); s += sgc(b.compare(c)); s += sgc(a.compare(c));
    i += sgc(a.compare_i(b)); i += sgc(b.compare_i(a)); i += sgc(b.compare_i(c)); i += sgc(a.compare_i(c));
    return "s=" + s + " i=" + i;
}

static std::string do_bigcmp(size_t len) {
    try {
        // no fill: against the empty string no unit is ever read, and untouched pages cost nothing
        ST::char_buffer buf; buf.allocate(len);
        ST::string big = ST::string::from_validated(std::move(buf));
        ST::string e;
        const ST::case_sensitivity_t ci = ST::case_insensitive;
        std::string cmp, ops;
        cmp += sgc(big.compare(e)); cmp += sgc(big.compare(e, ci)); cmp += sgc(big.compare_i(e));
        cmp += sgc(e.compare(big)); cmp += sgc(e.compare(big, ci)); cmp += sgc(e.compare_i(big));
        ops += bcx(big == e); ops += bcx(big != e); ops += bcx(big < e); ops += bcx(e < big);
        ops += bcx(ST::less_i()(big, e)); ops += bcx(ST::less_i()(e, big));
        return "cmp=" + cmp + " ops=" + ops;
    } catch (const std::bad_alloc &) { return "skip nomem"; }
}

// ---------------------------------------------------------------------------------------- ST::buffer<T>
template <class T> static std::string do_bcmp(const std::vector<uint64_t> &A, const std::vector<uint64_t> &B, bool hasN, size_t n) {
    Blocks<T> ba(A), bb(B);
    ST::buffer<T> a(ba.n, ba.len), b(bb.n, bb.len);
    std::string cmp;
    cmp += sgc(a.compare(b)); cmp += sgc(a.compare((const T *)bb.z)); cmp += sgc(ST::buffer<T>::compare(ba.n, ba.len, bb.n, bb.len));
    if (hasN) {
        cmp += sgc(a.compare_n(b, n)); cmp += sgc(a.compare_n((const T *)bb.z, n));
        cmp += sgc(ST::buffer<T>::compare(ba.n, ba.len, bb.n, bb.len, n));
    }
    std::string ops; ops += bcx(a == b); ops += bcx(a != b); ops += bcx(a < b);
    return "cmp=" + cmp + " ops=" + ops;
}
template <class T> static std::string do_bcmpnull(const std::vector<uint64_t> &A, bool hasN, size_t n) {
    Blocks<T> ba(A);
    ST::buffer<T> a(ba.n, ba.len);
    const T *c = nullptr;
    std::string cmp; cmp += sgc(a.compare(c)); if (hasN) cmp += sgc(a.compare_n(c, n));
    return "cmp=" + cmp;
}
// an object that was moved from (move construction and move assignment) compared with a fresh empty object and with itself
// through every operator: they must agree with compare() whatever the moved-from object holds (seeded C06-G compared the raw
// in-object arrays, which still hold the old characters after a move)
template <class T> static std::string do_mvcmp(const std::vector<uint64_t> &A) {
    Blocks<T> ba(A);
    std::string out;
    for (int how = 0; how < 2; ++how) {
        ST::buffer<T> x(ba.n, ba.len), e;
        ST::buffer<T> y; if (how == 0) { ST::buffer<T> z(std::move(x)); y = z; } else { y = std::move(x); }
        int c = x.compare(e);
        out += std::string(how ? " a:" : "c:") + "eq=" + (x == e ? "1" : "0") + ",ne=" + (x != e ? "1" : "0") + ",req=" + (e == x ? "1" : "0") +
               ",cmp=" + sgc(c) + ",self=" + ((x == x && !(x != x) && x.compare(x) == 0) ? "1" : "0") + ",size=" + std::to_string(x.size());
    }
    if (sizeof(T) == 1) {
        std::string bytes; for (auto v : A) bytes.push_back((char)v);
        for (int how = 0; how < 2; ++how) {
            ST::string x = ST::string::from_validated(bytes.data(), bytes.size()), e;
            ST::string y; if (how == 0) { ST::string z(std::move(x)); y = z; } else { y = std::move(x); }
            int c = x.compare(e);
            out += std::string(how ? " sa:" : " sc:") + "eq=" + (x == e ? "1" : "0") + ",ne=" + (x != e ? "1" : "0") + ",req=" + (e == x ? "1" : "0") +
                   ",cmp=" + sgc(c) + ",cmpi=" + sgc(x.compare_i(e)) + ",lt=" + ((x < e || e < x) ? "1" : "0") +
                   ",hash=" + (ST::hash()(x) == ST::hash()(e) ? "1" : "0") + ",hashi=" + (ST::hash_i()(x) == ST::hash_i()(e) ? "1" : "0") + ",size=" + std::to_string(x.size());
        }
    }
    return out;
}
// static form with lengths that are only numbers: each operand is ONE readable unit, so the call is made only when
// the number of units compared, min(min(la,n), min(lb,n)), is at most 1
template <class T> static std::string do_raw(const std::vector<uint64_t> &A, const std::vector<uint64_t> &B, size_t la, size_t lb, bool hasN, size_t n) {
    if (A.size() != 1 || B.size() != 1) return "bad-case";
    size_t la2 = hasN ? std::min(la, n) : la, lb2 = hasN ? std::min(lb, n) : lb;
    if (std::min(la2, lb2) > 1) return "bad-case";
    Blocks<T> ba(A), bb(B);
    int r = hasN ? ST::buffer<T>::compare(ba.n, la, bb.n, lb, n) : ST::buffer<T>::compare(ba.n, la, bb.n, lb);
    return std::string("r=") + sgc(r);
}

static int wbits(const std::string &w) { return w == "16" ? 16 : (w == "32" || w == "w") ? 32 : 8; }
#define BY_WIDTH(w, CALL) (w == "16" ? CALL<char16_t> : w == "32" ? CALL<char32_t> : w == "w" ? CALL<wchar_t> : CALL<char>)

// ---------------------------------------------------------------------------------------- blocks
static std::vector<uint64_t> text_of(const std::vector<uint64_t> &alpha, uint64_t i, int len) {
    std::vector<uint64_t> g(len);
    for (int k = len - 1; k >= 0; --k) { g[k] = alpha[i % alpha.size()]; i /= alpha.size(); }
    return g;
}
static std::vector<std::vector<uint64_t>> texts_up_to(const std::vector<uint64_t> &alpha, int maxlen) {
    std::vector<std::vector<uint64_t>> out;
    for (int len = 0; len <= maxlen; ++len) {
        uint64_t tot = 1; for (int i = 0; i < len; ++i) tot *= alpha.size();
        for (uint64_t i = 0; i < tot; ++i) out.push_back(text_of(alpha, i, len));
    }
    return out;
}
static std::string bytes_of(const std::vector<uint64_t> &v) { std::string s; for (auto x : v) s.push_back((char)x); return s; }
static const char *NS[] = {"none", "0", "1", "2", "3", "4", "5", "18446744073709551615"};

static std::string exec_case(const Args &a) {
    const std::string &op = a.op;
    bool hasN = a.has("n") && a.get("n") != "none"; size_t n = hasN ? strtoull(a.get("n").c_str(), nullptr, 10) : 0;
    if (op == "scmp") return do_scmp(parse_bytes(a.get("a")), parse_bytes(a.get("b")), hasN, n);
    if (op == "scmpnull") return do_scmpnull(parse_bytes(a.get("a")), hasN, n);
    if (op == "casemap") return do_casemap(parse_bytes(a.get("a")));
    if (op == "tri") return do_tri(parse_bytes(a.get("a")), parse_bytes(a.get("b")), parse_bytes(a.get("c")));
    if (op == "bigcmp") return do_bigcmp(strtoull(a.get("len").c_str(), nullptr, 10));
    const std::string w = a.get("w");
    if (op == "bcmp") return BY_WIDTH(w, do_bcmp)(parse_units(a.get("a"), wbits(w)), parse_units(a.get("b"), wbits(w)), hasN, n);
    if (op == "bcmpnull") return BY_WIDTH(w, do_bcmpnull)(parse_units(a.get("a"), wbits(w)), hasN, n);
    if (op == "mvcmp") return BY_WIDTH(w, do_mvcmp)(parse_units(a.get("a"), wbits(w)));
    if (op == "rawcmp")
        return BY_WIDTH(w, do_raw)(parse_units(a.get("a"), wbits(w)), parse_units(a.get("b"), wbits(w)),
                                   strtoull(a.get("la").c_str(), nullptr, 10), strtoull(a.get("lb").c_str(), nullptr, 10), hasN, n);
    bool expand = a.has("expand");
    if (op == "blk.scmp") {
        std::string A = parse_bytes(a.get("a")); Fnv f; std::string out = "\x01";
        for (const auto &Bv : texts_up_to(parse_units(a.get("alpha"), 8), (int)a.num("maxlen"))) {
            std::string B = bytes_of(Bv);
            for (const char *ns : NS) {
                bool h = strcmp(ns, "none") != 0; size_t k = h ? strtoull(ns, nullptr, 10) : 0;
                std::string o = do_scmp(A, B, h, k);
                if (expand) out += "scmp a=" + hex_bytes(A) + " b=" + hex_bytes(B) + " n=" + ns + " => " + o + "\n"; else f.str(o);
            }
        }
        for (const char *ns : NS) {
            bool h = strcmp(ns, "none") != 0; size_t k = h ? strtoull(ns, nullptr, 10) : 0;
            std::string o = do_scmpnull(A, h, k);
            if (expand) out += "scmpnull a=" + hex_bytes(A) + " n=" + ns + " => " + o + "\n"; else f.str(o);
        }
        std::string o = do_casemap(A);
        if (expand) out += "casemap a=" + hex_bytes(A) + " => " + o + "\n"; else f.str(o);
        return expand ? out : "digest " + f.hex();
    }
    if (op == "blk.bcmp") {
        int wb = wbits(w);
        std::vector<uint64_t> A = parse_units(a.get("a"), wb); Fnv f; std::string out = "\x01";
        for (const auto &B : texts_up_to(parse_units(a.get("alpha"), wb), (int)a.num("maxlen")))
            for (const char *ns : NS) {
                bool h = strcmp(ns, "none") != 0; size_t k = h ? strtoull(ns, nullptr, 10) : 0;
                std::string o = BY_WIDTH(w, do_bcmp)(A, B, h, k);
                if (expand) out += "bcmp w=" + w + " a=" + hex_u64s(A, wb) + " b=" + hex_u64s(B, wb) + " n=" + ns + " => " + o + "\n"; else f.str(o);
            }
        for (const char *ns : NS) {
            bool h = strcmp(ns, "none") != 0; size_t k = h ? strtoull(ns, nullptr, 10) : 0;
            std::string o = BY_WIDTH(w, do_bcmpnull)(A, h, k);
            if (expand) out += "bcmpnull w=" + w + " a=" + hex_u64s(A, wb) + " n=" + ns + " => " + o + "\n"; else f.str(o);
        }
        return expand ? out : "digest " + f.hex();
    }
    if (op == "blk.tri") {
        std::string A = parse_bytes(a.get("a")); Fnv f; std::string out = "\x01";
        auto texts = texts_up_to(parse_units(a.get("alpha"), 8), (int)a.num("maxlen"));
        for (const auto &Bv : texts) for (const auto &Cv : texts) {
            std::string B = bytes_of(Bv), C = bytes_of(Cv), o = do_tri(A, B, C);
            if (expand) out += "tri a=" + hex_bytes(A) + " b=" + hex_bytes(B) + " c=" + hex_bytes(C) + " => " + o + "\n"; else f.str(o);
        }
        return expand ? out : "digest " + f.hex();
    }
    return "bad-op";
}

// ---------------------------------------------------------------------------------------- generators
static void gen(Emitter &em, const Options &opt) {
    Rng rng(opt.seed);
    bool thorough = opt.tier == "thorough";
    uint64_t blk = 0;
    auto mine = [&]() { return (int)(blk++ % opt.nslices) == opt.slice; };
    // ---- the defect class first: a real string of 2^31 (thorough: and 2^32) bytes against the empty string
    for (uint64_t len : {uint64_t(0), uint64_t(5), uint64_t(1) << 31, uint64_t(1) << 32}) {
        if (len == (uint64_t(1) << 32) && !thorough) continue;
        if (mine()) em.emit("bigcmp len=" + std::to_string(len));
    }
    // ---- moved-from objects of every size class against the empty object
    for (const char *w : {"8", "16", "32", "w"}) for (size_t len : {(size_t)0, (size_t)1, (size_t)2, (size_t)5, (size_t)11, (size_t)12, (size_t)15, (size_t)16, (size_t)40}) {
        std::vector<uint64_t> A; for (size_t i = 0; i < len; ++i) A.push_back(0x41 + (i % 26));
        if (mine()) em.emit(std::string("mvcmp w=") + w + " a=" + hex_u64s(A, wbits(w)));
    }
    // ---- length-only cases through the static (ptr,len) form, all four element types
    const std::vector<uint64_t> LENS = {0, 1, (uint64_t(1) << 31) - 1, uint64_t(1) << 31, (uint64_t(1) << 31) + 1, uint64_t(1) << 32,
                                        (uint64_t(1) << 32) + 1, uint64_t(1) << 63, UINT64_MAX - 1, UINT64_MAX};
    const std::vector<std::string> NSR = {"none", "0", "1", "2147483648", "4294967296", "18446744073709551615"};
    for (const char *w : {"8", "16", "32", "w"}) {
        int wb = wbits(w);
        std::vector<std::pair<uint64_t, uint64_t>> up = {{0x41, 0x41}, {0x41, 0x61}, {0x80, 0x41}, {0, 0}};
        if (wb == 32) up.push_back({0x80000000u, 0x41});
        for (auto pr : up) for (uint64_t la : LENS) for (uint64_t lb : LENS) for (const std::string &ns : NSR) {
            bool h = ns != "none"; uint64_t k = h ? strtoull(ns.c_str(), nullptr, 10) : 0;
            uint64_t la2 = h ? std::min(la, k) : la, lb2 = h ? std::min(lb, k) : lb;
            if (std::min(la2, lb2) > 1) continue;
            if (!mine()) continue;
            em.emit(std::string("rawcmp w=") + w + " a=" + hex_u64s({pr.first}, wb) + " b=" + hex_u64s({pr.second}, wb) +
                    " la=" + std::to_string(la) + " lb=" + std::to_string(lb) + " n=" + ns);
        }
    }
    // ---- exhaustive pairs over the critical byte alphabet through every ST::string overload, all n
    const std::vector<uint64_t> A8 = {0x00, 0x41, 0x61, 0x5A, 0x7A, 0x7F, 0x80, 0xFF};
    const std::vector<uint64_t> A5 = {0x00, 0x41, 0x61, 0x80, 0xFF};
    auto sweep_s = [&](const std::vector<uint64_t> &alpha, int amax, int bmax) {
        for (const auto &A : texts_up_to(alpha, amax)) if (mine())
            em.emit("blk.scmp a=" + hex_u64s(A, 8) + " alpha=" + hex_u64s(alpha, 8) + " maxlen=" + std::to_string(bmax));
    };
    sweep_s(A8, 3, 3);
    if (thorough) sweep_s(A5, 4, 4);
    // fold edges: @ A Z [ ` a z {
    sweep_s({0x40, 0x41, 0x5A, 0x5B, 0x60, 0x61, 0x7A, 0x7B}, 2, 2);
    // ---- triples
    auto sweep_t = [&](const std::vector<uint64_t> &alpha, int maxlen) {
        for (const auto &A : texts_up_to(alpha, maxlen)) if (mine())
            em.emit("blk.tri a=" + hex_u64s(A, 8) + " alpha=" + hex_u64s(alpha, 8) + " maxlen=" + std::to_string(maxlen));
    };
    if (thorough) { sweep_t(A8, 2); sweep_t(A5, 3); } else sweep_t({0x00, 0x41, 0x61, 0x5A, 0x80, 0xFF}, 2);
    // ---- buffers of the four element types
    struct WA { const char *w; std::vector<uint64_t> alpha; };
    const std::vector<WA> was = {
        {"8", A8}, {"16", {0x0000, 0x0041, 0x0061, 0x7FFF, 0x8000, 0xFFFF}},
        {"32", {0, 0x41, 0x61, 0x10FFFF, 0x7FFFFFFF, 0x80000000u, 0xFFFFFFFFu}},
        {"w", {0, 0x41, 0x61, 0x10FFFF, 0x7FFFFFFF, 0x80000000u, 0xFFFFFFFFu}}};
    for (const WA &wa : was) {
        int wb = wbits(wa.w), ml = thorough ? 3 : 2;
        for (const auto &A : texts_up_to(wa.alpha, ml)) if (mine())
            em.emit(std::string("blk.bcmp w=") + wa.w + " a=" + hex_u64s(A, wb) + " alpha=" + hex_u64s(wa.alpha, wb) + " maxlen=" + std::to_string(ml));
    }
    // ---- random long operands: common prefix, then equal / one ends / first difference (case-only or real); n around the difference
    int nrand = thorough ? 40000 : 4000;
    const std::vector<std::string> alphas = {"ab", "aAbB", std::string("aA") + '\0' + '\x80' + '\xFF' + "Zz[@", ""};
    for (int k = 0; k < nrand; ++k) {
        const std::string &al = rng.pick(alphas);
        auto rbyte = [&]() -> char { return al.empty() ? (char)rng.below(256) : al[rng.below(al.size())]; };
        size_t pl = rng.chance(1, 6) ? rng.below(300) : rng.below(40);
        std::string p; for (size_t i = 0; i < pl; ++i) p.push_back(rbyte());
        std::string A = p, B = p;
        if (rng.chance(1, 2)) for (char &c : B) if (rng.chance(1, 3)) { if (c >= 'a' && c <= 'z') c -= 32; else if (c >= 'A' && c <= 'Z') c += 32; }
        unsigned kind = (unsigned)rng.below(5);
        if (kind == 1) A.push_back(rbyte());
        if (kind == 2) B.push_back(rbyte());
        if (kind >= 3) { A.push_back(rbyte()); B.push_back(rbyte()); }
        size_t ta = rng.below(6), tb = rng.below(6);
        for (size_t i = 0; i < ta; ++i) A.push_back(rbyte());
        for (size_t i = 0; i < tb; ++i) B.push_back(rbyte());
        std::vector<uint64_t> ns = {pl, pl + 1, pl ? pl - 1 : 0, 0, A.size(), B.size(), UINT64_MAX, rng.below(pl + 8)};
        uint64_t pick1 = ns[rng.below(ns.size())], pick2 = ns[rng.below(ns.size())];
        std::string C = rng.chance(1, 2) ? p + std::string(1, rbyte()) : B.substr(0, rng.below(B.size() + 1));
        unsigned wsel = (unsigned)rng.below(4);
        if (!mine()) continue;
        em.emit("scmp a=" + hex_bytes(A) + " b=" + hex_bytes(B) + " n=none");
        em.emit("scmp a=" + hex_bytes(A) + " b=" + hex_bytes(B) + " n=" + std::to_string(pick1));
        em.emit("scmp a=" + hex_bytes(B) + " b=" + hex_bytes(A) + " n=" + std::to_string(pick2));
        em.emit("tri a=" + hex_bytes(A) + " b=" + hex_bytes(B) + " c=" + hex_bytes(C));
        em.emit("tri a=" + hex_bytes(C) + " b=" + hex_bytes(A) + " c=" + hex_bytes(B));
        em.emit("casemap a=" + hex_bytes(A));
        if (k % 16 == 0) em.emit("scmpnull a=" + hex_bytes(A) + " n=" + std::to_string(pick1));
        // the same operands as buffers of one of the element types (bytes widened; high units added for the wide types)
        const char *w = wsel == 0 ? "8" : wsel == 1 ? "16" : wsel == 2 ? "32" : "w";
        int wb = wbits(w);
        std::vector<uint64_t> Au = units_of(A), Bu = units_of(B);
        if (wb > 8) { for (auto &x : Au) if (x >= 0x80) x = (x << (wb - 8)) | 0x41; for (auto &x : Bu) if (x >= 0x80) x = (x << (wb - 8)) | 0x41; }
        em.emit(std::string("bcmp w=") + w + " a=" + hex_u64s(Au, wb) + " b=" + hex_u64s(Bu, wb) + " n=none");
        em.emit(std::string("bcmp w=") + w + " a=" + hex_u64s(Au, wb) + " b=" + hex_u64s(Bu, wb) + " n=" + std::to_string(pick2));
    }
}

// The machine is shared: a case can be descheduled (or a 2-4 GB allocation can take) longer than the runner's default
// 4 s no-progress limit, which would be reported as a hang of the library.  Nothing in this family loops on its input,
// so the limit is raised (a later --timeout on the command line still overrides it).
int main(int argc, char **argv) {
    std::vector<char *> av{argv[0], (char *)"--timeout", (char *)"30"};
    for (int i = 1; i < argc; ++i) av.push_back(argv[i]);
    return run_main((int)av.size(), av.data(), gen, exec_case);
}
