// Correspondence harness for C07 (find / find_last / contains / starts_with / ends_with).
//   find     cs=s|i form=<f> hay=<hex> nd=<hex> [cnt=N] start=<N|none>  => r=<int>
//   findlast cs=s|i form=<f> hay=<hex> nd=<hex> [cnt=N] max=<N|none>    => r=<int>
//   contains cs=s|i form=<f> hay=<hex> nd=<hex> [cnt=N]                 => b=<0|1>
//   starts | ends cs=s|i form=<cstr|cstr8|str|nullc> hay=<hex> nd=<hex> => b=<0|1>
//   blk.search hay=<hex> alpha=<hex> nmax=<k>                           => digest <hex>
// forms: ch (nd is one byte), cstr / cstr8 (NUL-terminated copy of nd: the callee sees the bytes before the
// first NUL), sized / sized8 (exact-size heap block without terminator), str (ST::string), nullc
// ((const char*)nullptr), nulls ((nullptr, cnt)).  Every overload of the public API is called by name.
#include "st_common.hpp"
#include <memory>
using namespace vh;

static const ST::case_sensitivity_t CS[2] = {ST::case_sensitive, ST::case_insensitive};

// the needle in every shape the overloads take; the blocks are exact-size so ASan sees any over-read
struct NeedleArgs {
    std::string bytes;
    char *z;       // bytes + NUL
    char *n;       // bytes, no terminator
    ST::string str;
    explicit NeedleArgs(const std::string &b) : bytes(b), str(raw_string(b)) {
        z = new char[b.size() + 1]; memcpy(z, b.data(), b.size()); z[b.size()] = 0;
        n = new char[b.size()]; memcpy(n, b.data(), b.size());
    }
    ~NeedleArgs() { delete[] z; delete[] n; }
    NeedleArgs(const NeedleArgs &) = delete;
};

enum Form { F_CH, F_CSTR, F_CSTR8, F_SIZED, F_SIZED8, F_STR, F_NULLC, F_NULLS, F_BAD };
static const char *FORM_NAME[] = {"ch", "cstr", "cstr8", "sized", "sized8", "str", "nullc", "nulls"};
static Form form_of(const std::string &s) {
    for (int i = 0; i < 8; ++i) if (s == FORM_NAME[i]) return (Form)i;
    return F_BAD;
}

// the case-sensitive call is also made without the case argument (its documented default) and must agree
#define DF(with_cs, dflt) (ci == 0 ? vh::same_as_default((with_cs), (dflt)) : (with_cs))
static long do_find(const ST::string &h, int ci, Form f, const NeedleArgs &nd, size_t cnt, bool has, size_t start) {
    ST::case_sensitivity_t cs = CS[ci];
    const char *nullp = nullptr;
    switch (f) {
    case F_CH:     return has ? DF(h.find(start, nd.bytes[0], cs), h.find(start, nd.bytes[0])) : DF(h.find(nd.bytes[0], cs), h.find(nd.bytes[0]));
    case F_CSTR:   return has ? DF(h.find(start, (const char *)nd.z, cs), h.find(start, (const char *)nd.z)) : DF(h.find((const char *)nd.z, cs), h.find((const char *)nd.z));
    case F_CSTR8:  return has ? DF(h.find(start, (const char8_t *)nd.z, cs), h.find(start, (const char8_t *)nd.z)) : DF(h.find((const char8_t *)nd.z, cs), h.find((const char8_t *)nd.z));
    case F_SIZED:  return has ? DF(h.find(start, (const char *)nd.n, nd.bytes.size(), cs), h.find(start, (const char *)nd.n, nd.bytes.size())) : DF(h.find((const char *)nd.n, nd.bytes.size(), cs), h.find((const char *)nd.n, nd.bytes.size()));
    case F_SIZED8: return has ? DF(h.find(start, (const char8_t *)nd.n, nd.bytes.size(), cs), h.find(start, (const char8_t *)nd.n, nd.bytes.size())) : DF(h.find((const char8_t *)nd.n, nd.bytes.size(), cs), h.find((const char8_t *)nd.n, nd.bytes.size()));
    case F_STR:    return has ? DF(h.find(start, nd.str, cs), h.find(start, nd.str)) : DF(h.find(nd.str, cs), h.find(nd.str));
    case F_NULLC:  return has ? DF(h.find(start, nullp, cs), h.find(start, nullp)) : DF(h.find(nullp, cs), h.find(nullp));
    case F_NULLS:  return has ? DF(h.find(start, nullp, cnt, cs), h.find(start, nullp, cnt)) : DF(h.find(nullp, cnt, cs), h.find(nullp, cnt));
    default:       return -99;
    }
}

static long do_find_last(const ST::string &h, int ci, Form f, const NeedleArgs &nd, size_t cnt, bool has, size_t max) {
    ST::case_sensitivity_t cs = CS[ci];
    const char *nullp = nullptr;
    switch (f) {
    case F_CH:     return has ? DF(h.find_last(max, nd.bytes[0], cs), h.find_last(max, nd.bytes[0])) : DF(h.find_last(nd.bytes[0], cs), h.find_last(nd.bytes[0]));
    case F_CSTR:   return has ? DF(h.find_last(max, (const char *)nd.z, cs), h.find_last(max, (const char *)nd.z)) : DF(h.find_last((const char *)nd.z, cs), h.find_last((const char *)nd.z));
    case F_CSTR8:  return has ? DF(h.find_last(max, (const char8_t *)nd.z, cs), h.find_last(max, (const char8_t *)nd.z)) : DF(h.find_last((const char8_t *)nd.z, cs), h.find_last((const char8_t *)nd.z));
    case F_SIZED:  return has ? DF(h.find_last(max, (const char *)nd.n, nd.bytes.size(), cs), h.find_last(max, (const char *)nd.n, nd.bytes.size())) : DF(h.find_last((const char *)nd.n, nd.bytes.size(), cs), h.find_last((const char *)nd.n, nd.bytes.size()));
    case F_SIZED8: return has ? DF(h.find_last(max, (const char8_t *)nd.n, nd.bytes.size(), cs), h.find_last(max, (const char8_t *)nd.n, nd.bytes.size())) : DF(h.find_last((const char8_t *)nd.n, nd.bytes.size(), cs), h.find_last((const char8_t *)nd.n, nd.bytes.size()));
    case F_STR:    return has ? DF(h.find_last(max, nd.str, cs), h.find_last(max, nd.str)) : DF(h.find_last(nd.str, cs), h.find_last(nd.str));
    case F_NULLC:  return has ? DF(h.find_last(max, nullp, cs), h.find_last(max, nullp)) : DF(h.find_last(nullp, cs), h.find_last(nullp));
    case F_NULLS:  return has ? DF(h.find_last(max, nullp, cnt, cs), h.find_last(max, nullp, cnt)) : DF(h.find_last(nullp, cnt, cs), h.find_last(nullp, cnt));
    default:       return -99;
    }
}

static int do_contains(const ST::string &h, int ci, Form f, const NeedleArgs &nd, size_t cnt) {
    ST::case_sensitivity_t cs = CS[ci];
    const char *nullp = nullptr;
    switch (f) {
    case F_CH:     return DF(h.contains(nd.bytes[0], cs), h.contains(nd.bytes[0]));
    case F_CSTR:   return DF(h.contains((const char *)nd.z, cs), h.contains((const char *)nd.z));
    case F_CSTR8:  return DF(h.contains((const char8_t *)nd.z, cs), h.contains((const char8_t *)nd.z));
    case F_SIZED:  return DF(h.contains((const char *)nd.n, nd.bytes.size(), cs), h.contains((const char *)nd.n, nd.bytes.size()));
    case F_SIZED8: return DF(h.contains((const char8_t *)nd.n, nd.bytes.size(), cs), h.contains((const char8_t *)nd.n, nd.bytes.size()));
    case F_STR:    return DF(h.contains(nd.str, cs), h.contains(nd.str));
    case F_NULLC:  return DF(h.contains(nullp, cs), h.contains(nullp));
    case F_NULLS:  return DF(h.contains(nullp, cnt, cs), h.contains(nullp, cnt));
    default:       return 9;
    }
}

static int do_affix(bool ends, const ST::string &h, int ci, Form f, const NeedleArgs &nd) {
    ST::case_sensitivity_t cs = CS[ci];
    const char *nullp = nullptr;
    switch (f) {
    case F_CSTR:  return ends ? DF(h.ends_with((const char *)nd.z, cs), h.ends_with((const char *)nd.z)) : DF(h.starts_with((const char *)nd.z, cs), h.starts_with((const char *)nd.z));
    case F_CSTR8: return ends ? DF(h.ends_with((const char8_t *)nd.z, cs), h.ends_with((const char8_t *)nd.z)) : DF(h.starts_with((const char8_t *)nd.z, cs), h.starts_with((const char8_t *)nd.z));
    case F_STR:   return ends ? DF(h.ends_with(nd.str, cs), h.ends_with(nd.str)) : DF(h.starts_with(nd.str, cs), h.starts_with(nd.str));
    case F_NULLC: return ends ? DF(h.ends_with(nullp, cs), h.ends_with(nullp)) : DF(h.starts_with(nullp, cs), h.starts_with(nullp));
    default:      return 9;
    }
}

static bool affix_form(Form f) { return f == F_CSTR || f == F_CSTR8 || f == F_STR || f == F_NULLC; }

static std::vector<std::string> positions(size_t haylen) {
    std::vector<std::string> p{"none"};
    for (size_t i = 0; i < haylen + 3; ++i) p.push_back(std::to_string(i));
    p.push_back("18446744073709551615");
    // start positions within a needle length of SIZE_MAX and around 2^63 (start + count must not wrap into the text)
    for (const char *x : {"18446744073709551614", "18446744073709551613", "18446744073709551612", "9223372036854775808", "9223372036854775807", "4294967296"}) p.push_back(x);
    return p;
}

static std::string text_of(const std::string &alpha, uint64_t i, int len) {
    std::string g(len, ' ');
    for (int k = len - 1; k >= 0; --k) { g[k] = alpha[i % alpha.size()]; i /= alpha.size(); }
    return g;
}

// one (cs, needle, form) cell of a block: every position through find and find_last, contains, affixes
static void block_one(Fnv &fn, std::string *out, const ST::string &h, const std::string &hayhex, int ci, Form f,
                      const NeedleArgs &nd, size_t cnt, const std::vector<std::string> &pos) {
    std::string common;
    if (out) {
        common = std::string(" cs=") + (ci ? "i" : "s") + " form=" + FORM_NAME[f] + " hay=" + hayhex + " nd=" + hex_bytes(nd.bytes);
        if (f == F_NULLS) common += " cnt=" + std::to_string(cnt);
    }
    for (const std::string &p : pos) {
        bool has = p != "none"; size_t v = has ? strtoull(p.c_str(), nullptr, 10) : 0;
        long r = do_find(h, ci, f, nd, cnt, has, v);
        if (out) *out += "find" + common + " start=" + p + " => r=" + std::to_string(r) + "\n"; else fn.u64((uint64_t)r);
    }
    for (const std::string &p : pos) {
        bool has = p != "none"; size_t v = has ? strtoull(p.c_str(), nullptr, 10) : 0;
        long r = do_find_last(h, ci, f, nd, cnt, has, v);
        if (out) *out += "findlast" + common + " max=" + p + " => r=" + std::to_string(r) + "\n"; else fn.u64((uint64_t)r);
    }
    int c = do_contains(h, ci, f, nd, cnt);
    if (out) *out += "contains" + common + " => b=" + std::to_string(c) + "\n"; else fn.byte(c);
    if (affix_form(f)) {
        int s = do_affix(false, h, ci, f, nd), e = do_affix(true, h, ci, f, nd);
        if (out) {
            *out += "starts" + common + " => b=" + std::to_string(s) + "\n";
            *out += "ends" + common + " => b=" + std::to_string(e) + "\n";
        } else { fn.byte(s); fn.byte(e); }
    }
}

static std::string exec_block(const Args &a) {
    std::string hayb = parse_bytes(a.get("hay")), alpha = parse_bytes(a.get("alpha"));
    int nmax = (int)a.num("nmax");
    bool expand = a.has("expand");
    ST::string h = raw_string(hayb);
    std::string hayhex = hex_bytes(hayb);
    std::vector<std::string> pos = positions(hayb.size());
    Fnv fn; std::string out = "\x01";
    std::string *o = expand ? &out : nullptr;
    static const Form forms[] = {F_CSTR, F_CSTR8, F_SIZED, F_SIZED8, F_STR};
    // needles are built once and shared by both case modes
    std::vector<std::unique_ptr<NeedleArgs>> needles;
    std::vector<int> lens;
    for (int len = 0; len <= nmax; ++len) {
        uint64_t tot = 1; for (int i = 0; i < len; ++i) tot *= alpha.size();
        for (uint64_t i = 0; i < tot; ++i) { needles.emplace_back(new NeedleArgs(text_of(alpha, i, len))); lens.push_back(len); }
    }
    NeedleArgs none("");
    for (int ci = 0; ci < 2; ++ci) {
        block_one(fn, o, h, hayhex, ci, F_NULLC, none, 0, pos);
        block_one(fn, o, h, hayhex, ci, F_NULLS, none, 3, pos);
        for (size_t k = 0; k < needles.size(); ++k) {
            if (lens[k] == 1) block_one(fn, o, h, hayhex, ci, F_CH, *needles[k], 0, pos);
            for (Form f : forms) block_one(fn, o, h, hayhex, ci, f, *needles[k], 0, pos);
        }
    }
    return expand ? out : "digest " + fn.hex();
}

static std::string exec_case(const Args &a) {
    const std::string &op = a.op;
    if (op == "blk.search") return exec_block(a);
    int ci = a.get("cs") == "i" ? 1 : 0;
    Form f = form_of(a.get("form"));
    if (f == F_BAD) return "bad-form";
    std::string nb = parse_bytes(a.get("nd"));
    if (f == F_CH && nb.size() != 1) return "bad-needle";
    ST::string h = raw_string(parse_bytes(a.get("hay")));
    NeedleArgs nd(nb);
    size_t cnt = a.num("cnt");
    if (op == "find" || op == "findlast") {
        const std::string &p = a.get(op == "find" ? "start" : "max");
        bool has = p != "none"; size_t v = has ? strtoull(p.c_str(), nullptr, 10) : 0;
        long r = op == "find" ? do_find(h, ci, f, nd, cnt, has, v) : do_find_last(h, ci, f, nd, cnt, has, v);
        return "r=" + std::to_string(r);
    }
    if (op == "contains") return "b=" + std::to_string(do_contains(h, ci, f, nd, cnt));
    if (op == "starts" || op == "ends") {
        if (!affix_form(f)) return "bad-form";
        return "b=" + std::to_string(do_affix(op == "ends", h, ci, f, nd));
    }
    return "bad-op";
}

// ---------------------------------------------------------------------------------------------- generators
static void sweep(Emitter &em, const Options &opt, uint64_t &blk, const std::string &alpha, int haymax, int nmax) {
    for (int len = 0; len <= haymax; ++len) {
        uint64_t tot = 1; for (int i = 0; i < len; ++i) tot *= alpha.size();
        for (uint64_t i = 0; i < tot; ++i) {
            if ((int)(blk++ % opt.nslices) != opt.slice) continue;
            em.emit("blk.search hay=" + hex_bytes(text_of(alpha, i, len)) + " alpha=" + hex_bytes(alpha) + " nmax=" + std::to_string(nmax));
        }
    }
}

static char flip_case(char c) {
    if (c >= 'a' && c <= 'z') return c - 32;
    if (c >= 'A' && c <= 'Z') return c + 32;
    return c;
}

static void gen(Emitter &em, const Options &opt) {
    Rng rng(opt.seed);
    bool thorough = opt.tier == "thorough";
    uint64_t blk = 0;
    // ---- exhaustive: every haystack over {a, A, b, NUL, E9} x every needle x every position x both case modes x every form
    const std::string A1 = std::string("aAb") + '\0' + '\xE9';
    if (thorough) { sweep(em, opt, blk, A1, 6, 2); sweep(em, opt, blk, A1, 4, 3); }
    else sweep(em, opt, blk, A1, 5, 2);
    // ---- exhaustive over the edges of the folded range: Z z [ { @ ` (and 0x1A/0x3A: Z/z with bit 6 / bit 5 cleared)
    const std::string A2 = "Zz[{@`";
    sweep(em, opt, blk, A2, thorough ? 4 : 3, 2);
    const std::string A3 = std::string("Aa") + '\x1A' + '\x3A' + '\xC1' + '\xE1';
    sweep(em, opt, blk, A3, thorough ? 4 : 3, thorough ? 2 : 1);

    // ---- random long cases: planted, case-flipped, damaged, end-straddling, whole-haystack, self-overlapping needles
    const std::vector<std::string> alphas = {
        "ab", "aAbB", std::string("ab") + '\0', std::string("aZz[@") + '\0' + '\xE9' + '\xC9', "abcdefghijklmnopqrstuvwxyzABCDEFGHIJKLMNOPQRSTUVWXYZ", ""};
    int nrand = thorough ? 12000 : 1200;
    static const Form forms[] = {F_CSTR, F_CSTR8, F_SIZED, F_SIZED8, F_STR};
    for (int k = 0; k < nrand; ++k) {
        const std::string &al = rng.pick(alphas);
        auto rbyte = [&]() -> char { return al.empty() ? (char)rng.below(256) : al[rng.below(al.size())]; };
        size_t L = rng.chance(1, 8) ? rng.below(400) : rng.chance(1, 3) ? rng.below(14) : rng.below(70);
        std::string hay; for (size_t i = 0; i < L; ++i) hay.push_back(rbyte());
        unsigned kind = (unsigned)rng.below(9);
        std::string nd; size_t at = 0;
        if (kind == 6) {            // x^m y ... with needle x^j y: every first-character hit before the match fails late
            size_t m = 2 + rng.below(8), j = 1 + rng.below(m);
            char x = rbyte(), y = rbyte();
            size_t p = rng.below(hay.size() + 1);
            hay.insert(p, std::string(m, x) + y);
            nd = std::string(j, x) + y; at = p + m - j;
        } else if (hay.empty() || kind == 5) {
            size_t n = rng.below(4); for (size_t i = 0; i < n; ++i) nd.push_back(rbyte());
        } else {
            at = rng.below(hay.size());
            size_t n = 1 + rng.below(std::min<size_t>(hay.size() - at, rng.chance(1, 4) ? 40 : 5));
            nd = hay.substr(at, n);
            if (kind == 1) for (char &c : nd) if (rng.chance(1, 2)) c = flip_case(c);
            if (kind == 2) nd[rng.below(nd.size())] ^= (char)(1 << rng.below(8));
            if (kind == 3) { at = hay.size() - std::min<size_t>(hay.size(), 1 + rng.below(4)); nd = hay.substr(at) + rbyte(); }  // straddles the end
            if (kind == 4) { nd = hay; at = 0; }
            if (kind == 7) { nd = hay + rbyte(); at = 0; }                                  // longer than the haystack
            if (kind == 8) { hay += nd; }                                                    // a second occurrence at the very end
        }
        std::vector<uint64_t> ps = {0, at, at + 1, at ? at - 1 : 0, at + nd.size(), at + nd.size() + 1, at + nd.size() - 1,
                                    hay.size(), hay.size() + 1, hay.size() ? hay.size() - 1 : 0, UINT64_MAX, UINT64_MAX - 1,
                                    uint64_t(1) << 63, (uint64_t(1) << 63) - 1, uint64_t(1) << 32, rng.below(hay.size() + 2)};
        uint64_t sel = rng.next();
        Form f1 = forms[rng.below(5)], f2 = forms[rng.below(5)];
        Rng sub(rng.next());    // everything drawn after the slice test comes from a per-case generator
        bool emit_it = (int)(blk++ % opt.nslices) == opt.slice;
        if (!emit_it) continue;
        std::string hh = hex_bytes(hay), nh = hex_bytes(nd);
        for (int ci = 0; ci < 2; ++ci) {
            std::string cs = ci ? "i" : "s";
            for (Form f : {f1, f2, F_CH}) {
                if (f == F_CH && nd.size() != 1) continue;
                std::string common = " cs=" + cs + " form=" + FORM_NAME[f] + " hay=" + hh + " nd=" + nh;
                em.emit("find" + common + " start=none");
                em.emit("findlast" + common + " max=none");
                for (size_t i = 0; i < ps.size(); ++i) {
                    if (!((sel >> i) & 1) && i > 6) continue;
                    em.emit("find" + common + " start=" + std::to_string(ps[i]));
                    em.emit("findlast" + common + " max=" + std::to_string(ps[i]));
                }
                em.emit("contains" + common);
                if (affix_form(f)) { em.emit("starts" + common); em.emit("ends" + common); }
            }
            // prefixes / suffixes proper: the needle cut from the two ends of the haystack
            if (!hay.empty()) {
                size_t n = 1 + sub.below(std::min<size_t>(hay.size(), 20));
                for (const std::string &x : {hay.substr(0, n), hay.substr(hay.size() - n)}) {
                    std::string y = x; if (ci) for (char &c : y) if (sub.chance(1, 2)) c = flip_case(c);
                    for (const char *fm : {"cstr", "str"}) {
                        em.emit("starts cs=" + cs + " form=" + fm + " hay=" + hh + " nd=" + hex_bytes(y));
                        em.emit("ends cs=" + cs + " form=" + fm + " hay=" + hh + " nd=" + hex_bytes(y));
                    }
                }
            }
        }
    }
}

// The machine is shared: a case can be descheduled (or a 2-4 GB allocation can take) longer than the runner's default
// 4 s no-progress limit, which would be reported as a hang of the library.  Nothing in this family loops on its input,
// so the limit is raised (a later --timeout on the command line still overrides it).
int main(int argc, char **argv) {
    std::vector<char *> av{argv[0], (char *)"--timeout", (char *)"30"};
    for (int i = 1; i < argc; ++i) av.push_back(argv[i]);
    return run_main((int)av.size(), av.data(), gen, exec_case);
}
