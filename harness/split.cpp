// Correspondence harness for C09: split (three overloads) / tokenize / replace (four overloads) of ST::string.
//   sp.split form=char|cstr|str ci=0|1 max=<uint64> sep=<hex> s=<hex>       => ok <k> <piece> ... <piece>
//   sp.tok d=<hex>|dflt s=<hex>                                              => ok <k> <token> ...
//   sp.replace ff=cstr|str|null tf=cstr|str|null ci=0|1 m=a|c from=<hex> to=<hex> s=<hex>   => ok <hex>
// pieces as hex, "-" = empty.  A call that does not come back is reported as `hang` by the runner.
#include "st_common.hpp"
using namespace vh;

struct CStr {
    char *p;
    explicit CStr(const std::string &b) : p(new char[b.size() + 1]) { memcpy(p, b.data(), b.size()); p[b.size()] = 0; }
    ~CStr() { delete[] p; }
};

static std::string show_vec(const std::vector<ST::string> &v) {
    std::string out = "ok " + std::to_string(v.size());
    for (const ST::string &p : v) {
        if (p.c_str() == nullptr) return "!nulldata";
        if (p.c_str()[p.size()] != 0) return "!noterm";
        out += " " + hex_units(p.c_str(), p.size());
    }
    return out;
}

static std::string exec_case(const Args &a) {
    const std::string &op = a.op;
    ST::string s = raw_string(parse_bytes(a.get("s")));
    ST::case_sensitivity_t cs = a.get("ci") == "1" ? ST::case_insensitive : ST::case_sensitive;
    if (op == "sp.split") {
        const std::string &form = a.get("form");
        size_t max = (size_t)a.num("max");
        std::string sepb = parse_bytes(a.get("sep"));
        return guarded([&]() -> std::string {
            // calls that omit max_splits (unlimited) and / or the case mode (case_sensitive) must agree with the explicit call
            bool dcs = cs == ST::case_sensitive, dmax = max == ST_AUTO_SIZE;
            auto chk = [&](const std::vector<ST::string> &with, auto without_cs, auto without_both) {
                if (dcs && !(with == without_cs())) default_mismatch() = true;
                if (dcs && dmax && !(with == without_both())) default_mismatch() = true;
                return show_vec(with);
            };
            if (form == "char") { char ch = sepb.empty() ? (char)0 : sepb[0]; return chk(s.split(ch, max, cs), [&] { return s.split(ch, max); }, [&] { return s.split(ch); }); }
            if (form == "cstr") { CStr c(sepb); return chk(s.split(c.p, max, cs), [&] { return s.split(c.p, max); }, [&] { return s.split(c.p); }); }
            ST::string sep = raw_string(sepb);
            return chk(s.split(sep, max, cs), [&] { return s.split(sep, max); }, [&] { return s.split(sep); });
        });
    }
    if (op == "sp.tok") {
        return guarded([&]() -> std::string {
            if (a.get("d") == "dflt") return show_vec(s.tokenize());
            CStr d(parse_bytes(a.get("d")));
            return show_vec(s.tokenize(d.p));
        });
    }
    if (op == "sp.replace") {
        const std::string &ff = a.get("ff"), &tf = a.get("tf");
        ST::utf_validation_t m = a.get("m") == "a" ? ST::assume_valid : a.get("m") == "s" ? ST::substitute_invalid : ST::check_validity;
        std::string fb = parse_bytes(a.get("from")), tb = parse_bytes(a.get("to"));
        return guarded([&]() -> std::string {
            CStr fc(fb), tc(tb);
            const char *fp = ff == "null" ? nullptr : fc.p, *tp = tf == "null" ? nullptr : tc.p;
            ST::string r;
            if (ff != "str" && tf != "str") r = s.replace(fp, tp, cs, m);
            else if (ff != "str") r = s.replace(fp, raw_string(tb), cs, m);
            else if (tf != "str") r = s.replace(raw_string(fb), tp, cs, m);
            else r = s.replace(raw_string(fb), raw_string(tb), cs);
            // the defaulted forms: case_sensitive, ST_DEFAULT_VALIDATION
            if (cs == ST::case_sensitive) {
                bool dm = m == ST_DEFAULT_VALIDATION;
                if (ff != "str" && tf != "str") { if (dm && (!(r == s.replace(fp, tp, cs)) || !(r == s.replace(fp, tp)))) default_mismatch() = true; }
                else if (ff == "str" && tf == "str") { if (!(r == s.replace(raw_string(fb), raw_string(tb)))) default_mismatch() = true; }
            }
            if (r.c_str()[r.size()] != 0) return "!noterm";
            return "ok " + hex_units(r.c_str(), r.size());
        });
    }
    return "bad-op";
}

static std::string rand_bytes(Rng &rng, size_t len, const std::string &alpha) {
    std::string b;
    for (size_t i = 0; i < len; ++i) b.push_back(alpha.empty() ? (char)rng.below(256) : alpha[rng.below(alpha.size())]);
    return b;
}

static void all_strings(const std::string &alpha, int maxlen, std::vector<std::string> &out) {
    out.push_back("");
    size_t lo = 0;
    for (int l = 1; l <= maxlen; ++l) {
        size_t hi = out.size();
        for (size_t i = lo; i < hi; ++i) for (char c : alpha) out.push_back(out[i] + c);
        lo = hi;
    }
}

static std::string flip_case(Rng &rng, std::string q) {
    for (char &c : q) if (rng.chance(1, 2)) c = (c >= 'a' && c <= 'z') ? c - 32 : (c >= 'A' && c <= 'Z') ? c + 32 : c;
    return q;
}

static void gen(Emitter &em, const Options &opt) {
    Rng rng(opt.seed);
    bool thorough = opt.tier == "thorough";
    uint64_t k = 0;
    auto emit = [&](const std::string &line) { if ((int)(k++ % opt.nslices) == opt.slice) em.emit(line); };
    const std::string SMAX = "18446744073709551615";
    auto u = [](uint64_t v) { return std::to_string(v); };

    // ---- corpus: the defect this check found (repaired since): an empty separator on text containing NUL
    emit("sp.split form=str ci=0 max=5 sep=- s=610062");
    emit("sp.split form=cstr ci=0 max=5 sep=- s=610062");
    emit("sp.split form=str ci=0 max=" + SMAX + " sep=- s=610062");
    emit("sp.split form=cstr ci=1 max=" + SMAX + " sep=- s=00");
    for (const char *form : {"str", "cstr", "char"})
        for (const char *mx : {"18446744073709551614", "9223372036854775808", "9223372036854775807", "1152921504606846976"})
            emit(std::string("sp.split form=") + form + " ci=0 max=" + mx + " sep=2c s=612c622c2c63");

    // ---- split: every short subject x every short separator (incl. empty, self-overlapping, longer than
    //      the subject) x max_splits x case mode x overload
    {
        std::string alpha("aAb,\0\xc3\xa9", 7);
        std::vector<std::string> subj, seps;
        all_strings(thorough ? alpha : std::string("aA,\0\xc3\xa9", 6), thorough ? 5 : 4, subj);
        all_strings(std::string("aA,\0\xa9", 5), 2, seps);
        for (const char *x : {"aaa", "aAa", ",,,", "a,a", "\xc3\xa9,", "aaaaa"}) seps.push_back(x);
        std::vector<std::string> maxes = {"0", "1", "2", "3", SMAX};
        uint64_t n = 0;
        for (const std::string &b : subj) for (const std::string &sp : seps) {
            std::string hs = hex_bytes(b), hp = hex_bytes(sp);
            for (int ci = 0; ci < 2; ++ci) {
                ++n;
                // the ST::string form gets every max; the others the unlimited one and one more by rotation
                for (size_t mi = 0; mi < maxes.size(); ++mi) {
                    // an empty separator with unlimited max_splits is the one shape that spun before the repair:
                    // kept to the corpus lines above, the sweep uses bounded max for it (a regression then shows
                    // as wrong pieces at once instead of one time-out per case)
                    if (sp.empty() && mi == 4) continue;
                    bool rot = mi == n % 4;
                    std::string tail = " ci=" + u(ci) + " max=" + maxes[mi] + " sep=" + hp + " s=" + hs;
                    if (thorough || mi == 4 || rot || ci == 0) emit("sp.split form=str" + tail);
                    if (mi == 4 || rot) {
                        emit("sp.split form=cstr" + tail);
                        if (sp.size() == 1 && sp[0] > 0) emit("sp.split form=char" + tail);
                    }
                }
            }
        }
        // long subjects: planted separators (adjacent, at both ends, overlapping), pieces around the small-string limit
        std::vector<std::string> lseps = {",", ", ", "::", "aa", "aba", "ab", "\xc3\xa9", "--x--", std::string("\0", 1), "Z"};
        for (int r = 0; r < (thorough ? 60000 : 6000); ++r) {
            std::string sp = rng.pick(lseps), b;
            int pieces = 1 + (int)rng.below(6);
            for (int p = 0; p < pieces; ++p) {
                if (p) b += rng.chance(1, 3) ? flip_case(rng, sp) : sp;
                size_t pl = rng.chance(1, 4) ? 14 + rng.below(5) : rng.below(8);
                b += rand_bytes(rng, pl, rng.chance(1, 2) ? "abAB,:- xz" : std::string("ab\0\xc3\xa9,a", 7));
            }
            // huge limits that are not the "unlimited" constant: a limit is an upper bound, never an expected count
            static const std::vector<std::string> HUGE_MAX = {"18446744073709551614", "18446744073709551613", "9223372036854775807", "9223372036854775808",
                                                              "4611686018427387904", "1152921504606846976"};
            std::string mx = rng.chance(1, 2) ? SMAX : rng.chance(1, 5) ? rng.pick(HUGE_MAX) : u(rng.below(7));
            std::string tail = " ci=" + u(rng.below(2)) + " max=" + mx + " sep=" + hex_bytes(sp) + " s=" + hex_bytes(b);
            emit("sp.split form=str" + tail);
            emit("sp.split form=cstr" + tail);
            if (sp.size() == 1 && sp[0] > 0) emit("sp.split form=char" + tail);
        }
        // every admissible split character in both case modes against its near misses: the bytes that differ from it
        // only in bit 5 or by +-32 (what a too-eager ASCII fold would confuse: '{' / '[', '@' / '`', ' ' / NUL, '-' / CR)
        for (int c = 1; c < 128; ++c) for (int ci = 0; ci < 2; ++ci) {
            std::string sp(1, (char)c), b = "x";
            b += (char)(c ^ 0x20); b += "y"; b += sp; b += "z"; b += (char)((c + 32) & 0x7F); b += (char)((c + 96) & 0x7F); b += "w";
            std::string tail = " ci=" + u(ci) + " max=" + SMAX + " sep=" + hex_bytes(sp) + " s=" + hex_bytes(b);
            emit("sp.split form=char" + tail); emit("sp.split form=str" + tail); emit("sp.split form=cstr" + tail);
        }
        // every admissible split character once
        for (int c = 1; c < 128; ++c) { std::string sp(1, (char)c); emit("sp.split form=char ci=" + u(c & 1) + " max=" + SMAX + " sep=" + hex_bytes(sp) + " s=" + hex_bytes("xA" + sp + sp + "b" + flip_case(rng, sp) + "a")); }
    }

    // ---- tokenize: every short subject over delimiters / non-delimiters (incl. NUL, 0xE9) x delimiter sets
    {
        std::vector<std::string> subj;
        all_strings(std::string(" ,ab\0\xe9", 6), thorough ? 6 : 5, subj);
        std::vector<std::string> sets = {"dflt", hex_bytes(","), hex_bytes(", "), "-", hex_bytes(",\xe9"), hex_bytes("a,"), hex_bytes(std::string(",\0 ", 3))};
        for (const std::string &b : subj) for (size_t si = 0; si < sets.size(); ++si) {
            if (!thorough && b.size() == 5 && si >= 3) continue;
            emit("sp.tok d=" + sets[si] + " s=" + hex_bytes(b));
        }
        for (int r = 0; r < (thorough ? 30000 : 3000); ++r) {
            std::string b; int runs = (int)rng.below(7);
            for (int p = 0; p < runs; ++p) b += rand_bytes(rng, rng.below(4), " \t\r\n,") + rand_bytes(rng, rng.chance(1, 4) ? 14 + rng.below(5) : rng.below(6), std::string("abc\0\xe9xyz", 8));
            emit(std::string("sp.tok d=") + (rng.chance(1, 2) ? "dflt" : hex_bytes(" \t\r\n,")) + " s=" + hex_bytes(b));
        }
    }

    // ---- replace: short subjects x patterns (empty, single, self-overlapping, longer than the subject) x
    //      replacements (empty, shorter, equal, longer, containing the pattern) x case mode x overloads
    {
        std::vector<std::string> subj, pats;
        all_strings(std::string("aAb\0\xc3\xa9", 6), thorough ? 5 : 4, subj);
        all_strings("aAb", 2, pats);
        for (const char *x : {"aaa", "abab", "\xc3\xa9", "\xa9", "aAaAa"}) pats.push_back(x);
        pats.push_back(std::string("\0", 1)); pats.push_back(std::string("a\0", 2));
        std::vector<std::string> tos = {"", "b", "a", "aa", "xyz", "\xc3\xa9", "aba", std::string("\0", 1), "\xff"};
        const char *forms[4][2] = {{"str", "str"}, {"cstr", "cstr"}, {"cstr", "str"}, {"str", "cstr"}};
        uint64_t n = 0;
        for (const std::string &b : subj) for (const std::string &pt : pats) for (size_t ti = 0; ti < tos.size(); ++ti) {
            ++n;
            if (!thorough && b.size() == 4 && (n % 3)) continue;
            int ci = (int)(n & 1);
            const char **f = forms[(n >> 1) % 4];
            std::string m = (n % 5 == 0) ? "c" : "a";
            emit(std::string("sp.replace ff=") + f[0] + " tf=" + f[1] + " ci=" + u(ci) + " m=" + m + " from=" + hex_bytes(pt) + " to=" + hex_bytes(tos[ti]) + " s=" + hex_bytes(b));
            if (n % 7 == 0) emit(std::string("sp.replace ff=str tf=str ci=") + u(1 - ci) + " m=a from=" + hex_bytes(pt) + " to=" + hex_bytes(tos[ti]) + " s=" + hex_bytes(b));
            if (n % 97 == 0) emit("sp.replace ff=null tf=cstr ci=0 m=a from=- to=" + hex_bytes(tos[ti]) + " s=" + hex_bytes(b));
            if (n % 89 == 0) emit("sp.replace ff=cstr tf=null ci=" + u(ci) + " m=a from=" + hex_bytes(pt) + " to=- s=" + hex_bytes(b));
        }
        // long subjects: many occurrences, growth and shrinkage across the small-string limit
        std::vector<std::string> lp = {"a", "aa", "aba", ", ", "::", "\xc3\xa9", "xyzxyz", "Q", std::string("\0", 1)};
        for (int r = 0; r < (thorough ? 60000 : 6000); ++r) {
            std::string pt = rng.pick(lp), b;
            int pieces = 1 + (int)rng.below(7);
            for (int p = 0; p < pieces; ++p) {
                if (p) b += rng.chance(1, 3) ? flip_case(rng, pt) : pt;
                b += rand_bytes(rng, rng.below(6), rng.chance(1, 2) ? "abAB,:qQxyz" : std::string("a\0\xc3\xa9:", 5));
            }
            std::string to = rng.chance(1, 5) ? "" : rand_bytes(rng, rng.below(2 * pt.size() + 2), "ab:Q\xc3\xa9");
            const char **f = forms[rng.below(4)];
            emit(std::string("sp.replace ff=") + f[0] + " tf=" + f[1] + " ci=" + u(rng.below(2)) + " m=a from=" + hex_bytes(pt) + " to=" + hex_bytes(to) + " s=" + hex_bytes(b));
        }
    }
}

// The runner calls a case a hang after `case_timeout` seconds of wall-clock silence.  On a machine shared with
// other checks (load several times the core count) a microsecond case can be descheduled for longer than the
// 4 s default; a generous default keeps that from being reported, while a call that really never returns is
// still caught (an explicit --timeout on the command line wins).
int main(int argc, char **argv) {
    std::vector<char *> args; args.push_back(argv[0]);
    static char opt[] = "--timeout", val[] = "10";
    args.push_back(opt); args.push_back(val);
    for (int i = 1; i < argc; ++i) args.push_back(argv[i]);
    return run_main((int)args.size(), args.data(), gen, exec_case);
}
