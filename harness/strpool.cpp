// Correspondence harness for C04 (value semantics of ST::string), C18 (failed operations leave target and
// arguments unchanged) and the ST::string half of C19 (allocation failure): histories of *string-level*
// operations over a pool of ST::string objects (slots 0..7) plus one ST::char_buffer (slot 8, the rvalue
// argument of set(char_buffer&&) and the target of char_buffer-returning members), all in raw storage,
// with a full snapshot of every live object after every step.
//
//   shist ops=<op;op;…>                 => s1=<step> s2=<step> … end=<clean|leak>
//   sfault ops=<prefix> op=<op>         => pre=<snapshot> k0=ok|<snapshot>|<clean|leak> n=<allocations of op> k1=<exc>|<snapshot>|<clean|leak> … kn=… end=done
//                                          (k<i>: the operation run from the same pre-state with its i-th allocation throwing bad_alloc)
//
// step  = <snapshot>  |  !<exception>|<snapshot>        (the operation threw; snapshot taken after the catch)
// snapshot: objects in id order "o<id>:<size>:<units>:<terminator>:<where>:<ptr>", where = L (own in-object array) |
//      A<id>/Z<id> (points into another live/dead slot) | H<n> (heap block, numbered by first appearance in this
//      snapshot); ptr = '=' when data() is the very pointer seen in the previous snapshot, 'n' otherwise;  "-" if none.
//
// ops (o,s,d = slot ids; text arguments are always taken from other slots, so "the argument" is a pool object):
//   N<o>:<hex>  ST::string(ptr,len,assume_valid)     D<o> default ctor          C<o>,<s> copy ctor     M<o>,<s> move ctor
//   X<o> dtor   c<o>,<s> copy assign (s may be o)    m<o>,<s> move assign       R<o> clear()
//   P<o>,<s> o += s (s may be o)   p<o>,<s> o += s.c_str()   a<o>,<cp> o += char32_t(cp)   e<o>,<cp> o += char(cp)
//   w<o>,<k>,<n>,<mode> o.set(o.c_str()+k, n, mode) (source inside the destination)   Y<o> o = o.c_str()
//   S<o>,<mode>:<hex> o.set(ptr,len,mode)   T<o>,<mode>,<w>:<hex> o.set(utf16/utf32 buffer, mode)   E<o>,<mode>,<w>:<hex> o = ST::string(utf16/32 ptr,len,mode)
//   U8:<hex> construct the char_buffer in slot 8     b<o>,<mode> o.set(std::move(slot8), mode)   B<o>,<mode> o.set(slot8, mode) (lvalue)
//   h<o> o = std::move(slot8)   H<o> o = slot8   G<o>,<mode> ST::string(std::move(slot8), mode) into dead slot o   g<o>,<mode> ST::string(slot8, mode)
//   K<d>,<s>,<name>[,x[,y]]  d (dead slot) = result of const operation <name> on s      (d = 8: char_buffer results)
//   V<s>,<name>,<x>,<y>:<d1>,<d2>,<d3>   vector-returning operation; the first three pieces are moved into d1..d3
//   Q<s>,<name>[,x[,y]]   const operation whose result is not a string (discarded)
#include "st_common.hpp"
#include <sanitizer/lsan_interface.h>
#include <sstream>
using namespace vh;

static const int NSTR = 8, NOBJ = 9, BUFSLOT = 8;
typedef ST::char_buffer B;
static_assert(sizeof(ST::string) == sizeof(B), "ST::string must consist of its buffer only");

struct SPool {
    alignas(B) unsigned char raw[NOBJ][sizeof(B)];
    bool live[NOBJ] = {};
    const void *last_ptr[NOBJ] = {};
    ST::string &str(int o) { return *reinterpret_cast<ST::string *>(raw[o]); }
    B &buf(int o) { return *reinterpret_cast<B *>(raw[o]); }
    const char *dataof(int o) { return o == BUFSLOT ? buf(o).data() : str(o).c_str(); }
    size_t sizeof_(int o) { return o == BUFSLOT ? buf(o).size() : str(o).size(); }

    std::string snapshot() {
        std::string out; std::vector<const void *> blocks;
        for (int o = 0; o < NOBJ; ++o) {
            if (!live[o]) { last_ptr[o] = nullptr; continue; }
            const char *p = dataof(o);
            std::string where;
            const unsigned char *pc = reinterpret_cast<const unsigned char *>(p);
            if (pc >= raw[o] && pc < raw[o] + sizeof(B)) where = "L";
            else {
                for (int q = 0; q < NOBJ && where.empty(); ++q)
                    if (q != o && pc >= raw[q] && pc < raw[q] + sizeof(B)) where = (live[q] ? "A" : "Z") + std::to_string(q);
                if (where.empty()) {
                    size_t k = 0; while (k < blocks.size() && blocks[k] != p) ++k;
                    if (k == blocks.size()) blocks.push_back(p);
                    where = "H" + std::to_string(k);
                }
            }
            size_t n = sizeof_(o);
            // every other read-only observer of an ST::string is a function of (c_str(), size())
            if (o != BUFSLOT) {
                const ST::string &s = str(o); const char *bad = nullptr;
                if (s.begin() != p || s.cbegin() != p || s.end() != p + n || s.cend() != p + n) bad = "!iterators";
                else if (s.rbegin().base() != p + n || s.crbegin().base() != p + n || s.rend().base() != p || s.crend().base() != p) bad = "!reverse-iterators";
                else if (s.empty() != (n == 0)) bad = "!empty";
                else if (&s.front() != p || &s.back() != (n ? p + n - 1 : p)) bad = "!front-back";
                else if (s.c_str("sub") != (n ? p : "sub") && !(n == 0 && std::string(s.c_str("sub")) == "sub")) bad = "!c_str-substitute";
                else if (s.view().data() != p || s.view().size() != n || (n >= 2 && (s.view(1).data() != p + 1 || s.view(1).size() != n - 1 || s.view(1, 1).size() != 1))) bad = "!view";
                else {
                    for (size_t i = 0; i < n && !bad; ++i) if (&s.at(i) != p + i || &s[i] != p + i) bad = "!at";
                    for (size_t i : {n, n + 1, (size_t)-1}) {
                        bool threw = false;
                        try { (void)s.at(i); } catch (const std::out_of_range &) { threw = true; }
                        if (!threw && !bad) bad = "!at-range";
                    }
                    if (!bad && n < 12) {      // in-object sizes only: the probe never allocates
                        const ST::string same = ST::string::from_validated(p, n);
                        if (!(s == same) || (s != same) || !(same == s) || s.compare(same) != 0 || s.compare_i(same) != 0 || (s < same) || (same < s) ||
                            ST::hash()(s) != ST::hash()(same) || ST::hash_i()(s) != ST::hash_i()(same)) bad = "!equality";
                    }
                }
                if (bad) where = bad;
            }
            if (!out.empty()) out += ",";
            out += "o" + std::to_string(o) + ":" + std::to_string(n) + ":" + hex_units(p, n) + ":";
            put_hex(out, unit_val(p[n]), 2);
            out += ":" + where + ":" + (last_ptr[o] == (const void *)p ? "=" : "n");
            last_ptr[o] = p;
        }
        return out.empty() ? "-" : out;
    }
    void destroy_all() {
        CountScope scope;
        for (int o = 0; o < NOBJ; ++o) if (live[o]) { if (o == BUFSLOT) buf(o).~B(); else str(o).~string(); live[o] = false; last_ptr[o] = nullptr; }
    }
};

static ST::utf_validation_t mode_of(char m) { return m == 'c' ? ST::check_validity : m == 's' ? ST::substitute_invalid : ST::assume_valid; }

static std::vector<std::string> splitc(const std::string &s, char sep) {
    std::vector<std::string> v; size_t i = 0;
    while (i <= s.size()) { size_t j = s.find(sep, i); if (j == std::string::npos) j = s.size(); v.push_back(s.substr(i, j - i)); i = j + 1; }
    return v;
}

static volatile size_t g_sink;

// fault injection point: armed immediately before the library call of an operation (after the harness has parsed
// and built the operation's arguments), so only allocations made by the library are counted / failed
static long g_arm_k = -1;      // -1 = not in a fault run; 0 = count only; k > 0 = fail the k-th allocation
static void arm_now() { if (g_arm_k >= 0) { alloc_ctl().count = 0; alloc_ctl().fail_at = g_arm_k > 0 ? g_arm_k : -1; } }

// const operations returning a string (or, for d == 8, a char_buffer)
static void const_op(SPool &P, int d, int s, const std::string &name, long x, long y) {
    const ST::string &src = P.str(s);
    auto arg = [&](long i) -> const ST::string & { return P.str((int)i); };
    auto ci = [&](long f) { return f ? ST::case_insensitive : ST::case_sensitive; };
    arm_now();
    if (d == BUFSLOT) {
        if (name == "toutf8") new (P.raw[d]) B(src.to_utf8());
        else if (name == "tolatin1") new (P.raw[d]) B(src.to_latin_1(true));
        else if (name == "tolatin1x") new (P.raw[d]) B(src.to_latin_1(false));
        else if (name == "hexdec") new (P.raw[d]) B(ST::hex_decode(src));
        else if (name == "b64dec") new (P.raw[d]) B(ST::base64_decode(src));
        else throw std::logic_error("unknown buffer op " + name);
        P.live[d] = true; return;
    }
    void *at = P.raw[d];
    if (name == "substr") new (at) ST::string(src.substr((ST_ssize_t)x, (size_t)y));
    else if (name == "whole") new (at) ST::string(src.substr(0, src.size()));
    else if (name == "left") new (at) ST::string(src.left((size_t)x));
    else if (name == "right") new (at) ST::string(src.right((size_t)x));
    else if (name == "trim") new (at) ST::string(src.trim());
    else if (name == "triml") new (at) ST::string(src.trim_left());
    else if (name == "trimr") new (at) ST::string(src.trim_right());
    else if (name == "trimset") new (at) ST::string(src.trim(arg(x).c_str()));
    else if (name == "upper") new (at) ST::string(src.to_upper());
    else if (name == "lower") new (at) ST::string(src.to_lower());
    else if (name == "repl") new (at) ST::string(src.replace(arg(x), arg(y)));
    else if (name == "replci") new (at) ST::string(src.replace(arg(x), arg(y), ST::case_insensitive));
    else if (name == "replc") new (at) ST::string(src.replace(arg(x).c_str(), arg(y).c_str()));
    else if (name == "bf") new (at) ST::string(src.before_first(arg(x), ci(y)));
    else if (name == "af") new (at) ST::string(src.after_first(arg(x), ci(y)));
    else if (name == "bl") new (at) ST::string(src.before_last(arg(x), ci(y)));
    else if (name == "al") new (at) ST::string(src.after_last(arg(x), ci(y)));
    else if (name == "bfc") new (at) ST::string(src.before_first((char)x));
    else if (name == "afc") new (at) ST::string(src.after_first((char)x));
    else if (name == "blc") new (at) ST::string(src.before_last((char)x));
    else if (name == "alc") new (at) ST::string(src.after_last((char)x));
    else if (name == "bfs") new (at) ST::string(src.before_first(arg(x).c_str()));
    else if (name == "als") new (at) ST::string(src.after_last(arg(x).c_str()));
    else if (name == "plus") new (at) ST::string(src + arg(x));
    else if (name == "plusc") new (at) ST::string(src + arg(x).c_str());
    else if (name == "cplus") new (at) ST::string(arg(x).c_str() + src);
    else if (name == "plusch") new (at) ST::string(src + (char32_t)x);
    else if (name == "chplus") new (at) ST::string((char32_t)x + src);
    // the narrower character overloads widen to char32_t: char16_t as it is, char through unsigned char, wchar_t through unsigned int
    else if (name == "plusch16") new (at) ST::string(src + (char16_t)x);
    else if (name == "pluschw") new (at) ST::string(src + (wchar_t)x);
    else if (name == "pluschc") new (at) ST::string(src + (char)x);
    else if (name == "ch16plus") new (at) ST::string((char16_t)x + src);
    else if (name == "chwplus") new (at) ST::string((wchar_t)x + src);
    else if (name == "chcplus") new (at) ST::string((char)x + src);
    else if (name == "copyvia") { ST::string t = src; new (at) ST::string(t); }
    else if (name == "fromlatin1") new (at) ST::string(ST::string::from_latin_1(src.c_str(), src.size()));
    else if (name == "fromutf8") new (at) ST::string(ST::string::from_utf8(src.c_str(), src.size(), ST::substitute_invalid));
    else if (name == "fromutf8c") new (at) ST::string(ST::string::from_utf8(src.c_str(), src.size(), ST::check_validity));
    else if (name == "via16") new (at) ST::string(ST::string::from_utf16(src.to_utf16()));
    else if (name == "via32") new (at) ST::string(ST::string::from_utf32(src.to_utf32()));
    else if (name == "viaw") new (at) ST::string(ST::string::from_wchar(src.to_wchar()));
    else if (name == "viastd") new (at) ST::string(src.to_std_string());
    else if (name == "hexenc") new (at) ST::string(ST::hex_encode(src.c_str(), src.size()));
    else if (name == "b64enc") new (at) ST::string(ST::base64_encode(src.c_str(), src.size()));
    else if (name == "fmt") new (at) ST::string(ST::format("{}|{>20}|{<3}", src, src, src));
    else if (name == "fmtwith") new (at) ST::string(ST::format(src.c_str(), arg(x), 42));          // s is the *format string*
    else if (name == "fmtint") new (at) ST::string(ST::format("{}{x}", x, y));
    else if (name == "fromint") new (at) ST::string(ST::string::from_int((long)x, 10));
    else if (name == "fill") new (at) ST::string(ST::string::fill((size_t)x, (char)y));
    else if (name == "ssout") { ST::string_stream ss; ss << src << arg(x); new (at) ST::string(ss.to_string()); }
    else if (name == "ostream") { std::ostringstream os; os << src; new (at) ST::string(os.str()); }
    else throw std::logic_error("unknown const op " + name);
    P.live[d] = true;
}

static void vector_op(SPool &P, int s, const std::string &name, long x, long y, const int d[3]) {
    const ST::string &src = P.str(s);
    std::vector<ST::string> v;
    arm_now();
    if (name == "splitc") v = src.split((char)x, y < 0 ? ST_AUTO_SIZE : (size_t)y);
    else if (name == "splits") v = src.split(P.str((int)x), y < 0 ? ST_AUTO_SIZE : (size_t)y);
    else if (name == "splitz") v = src.split(P.str((int)x).c_str(), y < 0 ? ST_AUTO_SIZE : (size_t)y);
    else if (name == "tok") v = src.tokenize();
    else if (name == "tokset") v = src.tokenize(P.str((int)x).c_str());
    else throw std::logic_error("unknown vector op " + name);
    // construct all three destinations or none (each construction may allocate; on failure undo)
    int made = 0;
    try {
        for (int i = 0; i < 3; ++i) {
            if (d[i] < 0) continue;
            if ((size_t)i < v.size()) new (P.raw[d[i]]) ST::string(std::move(v[i])); else new (P.raw[d[i]]) ST::string();
            P.live[d[i]] = true; ++made;
        }
    } catch (...) { throw; }
}

// conversions that write into an object the caller supplies (to_buffer / to_std_string overloads): the target already holds
// text; when the call returns it holds exactly what the value-returning sibling returns, when it throws (Latin-1 without
// substitution) it still holds its previous text (C18; seeded C18-G cleared it first).  A disagreement is reported as an
// exception of a kind no library call raises, which the judge of the histories rejects.
struct out_param_changed : std::exception { const char *what() const noexcept override { return "out-parameter conversion"; } };
template <class Buf, class Call, class Ref> static size_t out_param_check(Buf stale, Call call, Ref ref) {
    Buf target = stale;
    try { call(target); }
    catch (const ST::unicode_error &) { if (!(target == stale)) throw out_param_changed(); throw; }
    if (!(target == ref())) throw out_param_changed();
    return target.size();
}
static size_t out_param_conversion(const ST::string &src, const std::string &name) {
    if (name == "tobuf0") return out_param_check(ST::char_buffer("stale text", 10), [&](ST::char_buffer &b) { src.to_buffer(b); }, [&] { return src.to_utf8(); });
    if (name == "tobuf1") return out_param_check(ST::char_buffer("stale text", 10), [&](ST::char_buffer &b) { src.to_buffer(b, false, true); }, [&] { return src.to_latin_1(true); });
    if (name == "tobuf2") return out_param_check(ST::char_buffer("stale text", 10), [&](ST::char_buffer &b) { src.to_buffer(b, false, false); }, [&] { return src.to_latin_1(false); });
    if (name == "tobuf3") return out_param_check(ST::utf16_buffer(u"stale text", 10), [&](ST::utf16_buffer &b) { src.to_buffer(b); }, [&] { return src.to_utf16(); });
    if (name == "tobuf4") return out_param_check(ST::utf32_buffer(U"stale text", 10), [&](ST::utf32_buffer &b) { src.to_buffer(b); }, [&] { return src.to_utf32(); });
    if (name == "tobuf5") return out_param_check(ST::wchar_buffer(L"stale text", 10), [&](ST::wchar_buffer &b) { src.to_buffer(b); }, [&] { return src.to_wchar(); });
    if (name == "tostr0") return out_param_check(std::string("stale text"), [&](std::string &b) { src.to_std_string(b); }, [&] { return src.to_std_string(); });
    if (name == "tostr1") return out_param_check(std::string("stale text"), [&](std::string &b) { src.to_std_string(b, false, false); }, [&] { return src.to_std_string(false, false); });
    if (name == "tostr2") return out_param_check(std::u16string(u"stale text"), [&](std::u16string &b) { src.to_std_string(b); }, [&] { return src.to_std_u16string(); });
    if (name == "tostr3") return out_param_check(std::u32string(U"stale text"), [&](std::u32string &b) { src.to_std_string(b); }, [&] { return src.to_std_u32string(); });
    if (name == "tostr4") return out_param_check(std::wstring(L"stale text"), [&](std::wstring &b) { src.to_std_string(b); }, [&] { return src.to_std_wstring(); });
    throw std::logic_error("unknown out-parameter conversion " + name);
}

static void query_op(SPool &P, int s, const std::string &name, long x, long y) {
    const ST::string &src = P.str(s);
    auto arg = [&](long i) -> const ST::string & { return P.str((int)i); };
    size_t r = 0;
    arm_now();
    if (name == "find") r = (size_t)src.find(arg(x));
    else if (name == "findi") r = (size_t)src.find(arg(x), ST::case_insensitive);
    else if (name == "findat") r = (size_t)src.find((size_t)y, arg(x).c_str());
    else if (name == "findch") r = (size_t)src.find((char)x);
    else if (name == "findlast") r = (size_t)src.find_last(arg(x));
    else if (name == "contains") r = src.contains(arg(x));
    else if (name == "starts") r = src.starts_with(arg(x));
    else if (name == "ends") r = src.ends_with(arg(x), ST::case_insensitive);
    else if (name == "cmp") r = (size_t)src.compare(arg(x));
    else if (name == "cmpi") r = (size_t)src.compare_i(arg(x));
    else if (name == "cmpn") r = (size_t)src.compare_n(arg(x), (size_t)y);
    else if (name == "cmpc") r = (size_t)src.compare(arg(x).c_str());
    else if (name == "eq") r = (src == arg(x)) + 2 * (src != arg(x)) + 4 * (src < arg(x));
    else if (name == "hash") r = ST::hash()(src) ^ ST::hash_i()(src) ^ std::hash<ST::string>()(src);
    else if (name == "lessi") r = ST::less_i()(src, arg(x)) + 2 * ST::equal_i()(src, arg(x));
    else if (name == "toint") { ST::conversion_result cr; r = (size_t)src.to_int(cr, 0) + (size_t)src.to_ulong_long(16) + cr.ok(); }
    else if (name == "todouble") r = (size_t)src.to_double() + (size_t)src.to_float();
    else if (name == "tobool") r = src.to_bool();
    else if (name == "to16") r = src.to_utf16().size();
    else if (name == "to32") r = src.to_utf32().size();
    else if (name == "tow") r = src.to_wchar().size();
    else if (name == "tostd") r = src.to_std_string().size() + src.to_std_wstring().size() + src.to_std_u16string().size() + src.to_std_u32string().size();
    else if (name == "view") { std::string_view v = src.view(); r = v.size(); for (char c : v) r += (unsigned char)c; }
    else if (name == "iter") { for (auto it = src.begin(); it != src.end(); ++it) r += (unsigned char)*it; for (auto it = src.rbegin(); it != src.rend(); ++it) r ^= (unsigned char)*it; }
    else if (name == "at") { if (!src.empty()) r = (unsigned char)src.at(0) + (unsigned char)src.front() + (unsigned char)src.back() + (unsigned char)src[src.size() - 1]; }
    else if (name == "wos") { std::wostringstream os; os << src; r = os.str().size(); }
    else if (name == "ssw") { ST::string_stream ss; ss << src.to_wchar().data() << src.to_utf16().data(); r = ss.size(); }
    else if (name == "fmtarg") r = ST::format("{<30}{}", src, x).size();
    else if (name == "latin") r = ST::format_latin_1("{}", src).size();
    else if (name == "hexdecq") { char tmp[64]; r = (size_t)ST::hex_decode(src, tmp, sizeof tmp); }
    else if (name.compare(0, 5, "tobuf") == 0 || name.compare(0, 5, "tostr") == 0) r = out_param_conversion(src, name);
    else throw std::logic_error("unknown query op " + name);
    g_sink = r;
}

static void apply(SPool &P, const std::string &op) {
    char c = op[0];
    size_t colon = op.find(':');
    std::string head = op.substr(1, colon == std::string::npos ? std::string::npos : colon - 1);
    std::string tail = colon == std::string::npos ? "" : op.substr(colon + 1);
    std::vector<std::string> f = splitc(head, ',');
    auto num = [&](size_t i) -> long { return i < f.size() && !f[i].empty() ? atol(f[i].c_str()) : 0; };
    int o = (int)num(0);
    switch (c) {
    case 'N': { std::string b = parse_bytes(tail); arm_now(); new (P.raw[o]) ST::string(b.data(), b.size(), ST::assume_valid); P.live[o] = true; break; }
    case 'D': arm_now(); new (P.raw[o]) ST::string(); P.live[o] = true; break;
    case 'C': arm_now(); new (P.raw[o]) ST::string(P.str((int)num(1))); P.live[o] = true; break;
    case 'M': arm_now(); new (P.raw[o]) ST::string(std::move(P.str((int)num(1)))); P.live[o] = true; break;
    case 'X': arm_now(); if (o == BUFSLOT) P.buf(o).~B(); else P.str(o).~string(); P.live[o] = false; break;
    case 'c': arm_now(); P.str(o) = P.str((int)num(1)); break;
    case 'm': arm_now(); P.str(o) = std::move(P.str((int)num(1))); break;
    case 'R': arm_now(); P.str(o).clear(); break;
    case 'P': arm_now(); P.str(o) += P.str((int)num(1)); break;
    case 'p': arm_now(); P.str(o) += P.str((int)num(1)).c_str(); break;
    case 'a': arm_now(); P.str(o) += (char32_t)num(1); break;
    case 'e': arm_now(); P.str(o) += (char)num(1); break;
    case 'S': { std::string b = parse_bytes(tail); arm_now(); P.str(o).set(b.data(), b.size(), mode_of(f[1][0])); break; }
    case 'T': case 'E': {
        int w = (int)num(2); std::vector<uint64_t> us = parse_units(tail, w);
        if (w == 16) { std::vector<char16_t> v(us.begin(), us.end()); v.push_back(0);
            if (c == 'T') { ST::utf16_buffer ub(v.data(), us.size()); arm_now(); P.str(o).set(ub, mode_of(f[1][0])); }
            else { arm_now(); P.str(o) = ST::string(v.data(), us.size(), mode_of(f[1][0])); } }
        else { std::vector<char32_t> v(us.begin(), us.end()); v.push_back(0);
            if (c == 'T') { ST::utf32_buffer ub(v.data(), us.size()); arm_now(); P.str(o).set(ub, mode_of(f[1][0])); }
            else { arm_now(); P.str(o) = ST::string(v.data(), us.size(), mode_of(f[1][0])); } }
        break; }
    case 'w': { // o.set(o.c_str() + k, n, mode): the source bytes live inside the destination
        size_t k = (size_t)num(1), n = (size_t)num(2), sz = P.str(o).size(); if (k > sz) k = sz; if (n > sz - k) n = sz - k;
        arm_now(); P.str(o).set(P.str(o).c_str() + k, n, mode_of(f.size() > 3 ? f[3][0] : 'c')); break; }
    case 'Y': arm_now(); P.str(o) = P.str(o).c_str(); break;      // operator=(const char*) from its own bytes
    case 'U': { std::string b = parse_bytes(tail); arm_now(); new (P.raw[BUFSLOT]) B(b.data(), b.size()); P.live[BUFSLOT] = true; break; }
    case 'b': arm_now(); P.str(o).set(std::move(P.buf(BUFSLOT)), mode_of(f[1][0])); break;
    case 'B': arm_now(); P.str(o).set(static_cast<const B &>(P.buf(BUFSLOT)), mode_of(f[1][0])); break;
    case 'h': arm_now(); P.str(o) = std::move(P.buf(BUFSLOT)); break;
    case 'H': arm_now(); P.str(o) = static_cast<const B &>(P.buf(BUFSLOT)); break;
    case 'G': arm_now(); new (P.raw[o]) ST::string(std::move(P.buf(BUFSLOT)), mode_of(f[1][0])); P.live[o] = true; break;
    case 'g': arm_now(); new (P.raw[o]) ST::string(static_cast<const B &>(P.buf(BUFSLOT)), mode_of(f[1][0])); P.live[o] = true; break;
    case 'K': const_op(P, o, (int)num(1), f.size() > 2 ? f[2] : "", num(3), num(4)); break;
    // F<d>,<s>,<x>[,b]: d = ST::format(<text of s as the format string>, std::move(<string x>), 42): an argument passed as an rvalue.
    // Whether the call throws (bad_format, out_of_range) or returns, x must still hold its value (C18; the formatter only refers to its arguments).
    case 'F': { arm_now(); new (P.raw[o]) ST::string(ST::format(P.str((int)num(1)).c_str(), std::move(P.str((int)num(2))), 42)); P.live[o] = true; break; }
    case 'V': { std::vector<std::string> ds = splitc(tail, ','); int d[3] = {-1, -1, -1};
                for (size_t i = 0; i < 3 && i < ds.size(); ++i) if (!ds[i].empty()) d[i] = atoi(ds[i].c_str());
                vector_op(P, o, f.size() > 1 ? f[1] : "", num(2), num(3), d); break; }
    case 'Q': query_op(P, o, f.size() > 1 ? f[1] : "", num(2), num(3)); break;
    default: throw std::logic_error("unknown op " + op);
    }
}

static bool in_list(const std::string &n, std::initializer_list<const char *> l) { for (const char *x : l) if (n == x) return true; return false; }

// An operation is executed only when every slot it names is in the state it needs (constructor targets dead, everything
// else alive); otherwise the step is reported as "skip" and nothing happens.  The driver applies the same rule to the
// model's own liveness, so a construction that threw earlier in the history never leads to a call on raw storage.
static bool precheck(SPool &P, const std::string &op) {
    char c = op[0];
    size_t colon = op.find(':');
    std::string head = op.substr(1, colon == std::string::npos ? std::string::npos : colon - 1);
    std::string tail = colon == std::string::npos ? "" : op.substr(colon + 1);
    std::vector<std::string> f = splitc(head, ',');
    auto num = [&](size_t i) -> long { return i < f.size() && !f[i].empty() ? atol(f[i].c_str()) : -1; };
    auto alive = [&](long o, int n = NSTR) { return o >= 0 && o < n && P.live[o]; };
    auto dead = [&](long o, int n = NSTR) { return o >= 0 && o < n && !P.live[o]; };
    long o = num(0), s = num(1);
    switch (c) {
    case 'N': case 'D': return dead(o);
    case 'C': case 'M': return dead(o) && alive(s);
    case 'X': return alive(o, NOBJ);
    case 'c': case 'P': case 'p': return alive(o) && alive(s);
    case 'm': return alive(o) && alive(s) && o != s;
    case 'R': case 'a': case 'e': case 'S': case 'T': case 'E': case 'w': case 'Y': return alive(o);
    case 'U': return o == BUFSLOT && !P.live[BUFSLOT];
    case 'b': case 'B': case 'h': case 'H': return alive(o) && P.live[BUFSLOT];
    case 'G': case 'g': return dead(o) && P.live[BUFSLOT];
    case 'F': return dead(o) && alive(s) && alive(num(2)) && num(2) != s;
    case 'K': { std::string n = f.size() > 2 ? f[2] : "";
        if (!(o == BUFSLOT ? !P.live[BUFSLOT] : dead(o)) || !alive(s)) return false;
        if (in_list(n, {"trimset", "bfs", "als", "plus", "plusc", "cplus", "ssout", "bf", "af", "bl", "al", "repl", "replci", "replc", "fmtwith"}) && !alive(num(3))) return false;
        if (in_list(n, {"repl", "replci", "replc"}) && !alive(num(4))) return false;
        return true; }
    case 'V': { std::string n = f.size() > 1 ? f[1] : "";
        if (!alive(o)) return false;
        if (in_list(n, {"splits", "splitz", "tokset"}) && !alive(num(2))) return false;
        std::vector<std::string> ds = splitc(tail, ','); std::set<int> seen;
        for (size_t i = 0; i < 3 && i < ds.size(); ++i) if (!ds[i].empty()) { int d = atoi(ds[i].c_str()); if (!dead(d) || !seen.insert(d).second) return false; }
        return true; }
    case 'Q': { std::string n = f.size() > 1 ? f[1] : "";
        if (!alive(o)) return false;
        if (in_list(n, {"find", "findi", "findlast", "contains", "starts", "ends", "cmp", "cmpi", "cmpc", "eq", "lessi", "findat", "cmpn"}) && !alive(num(2))) return false;
        return true; }
    }
    return false;
}

static std::string apply_guarded(SPool &P, const std::string &op) {
    if (!precheck(P, op)) return "skip";
    CountScope scope;      // spans the catch clauses: the exception object's own storage is released inside them
    try { apply(P, op); return ""; }
    catch (const ST::unicode_error &) { return "unicode_error"; }
    catch (const ST::codec_error &) { return "codec_error"; }
    catch (const ST::bad_format &) { return "bad_format"; }
    catch (const std::out_of_range &) { return "out_of_range"; }
    catch (const std::invalid_argument &) { return "invalid_argument"; }
    catch (const std::bad_alloc &) { return "bad_alloc"; }
    catch (const out_param_changed &) { return "out_parameter_changed_or_wrong"; }
    catch (const std::logic_error &e) { fprintf(stderr, "harness: %s\n", e.what()); _exit(2); }
    catch (...) { return "other"; }
}

static std::vector<std::string> split_ops(const std::string &s) {
    std::vector<std::string> v; size_t i = 0;
    while (i <= s.size()) { size_t j = s.find(';', i); if (j == std::string::npos) j = s.size(); if (j > i) v.push_back(s.substr(i, j - i)); i = j + 1; }
    return v;
}

static bool end_leak(SPool &pool, long live_before) {
    pool.destroy_all();
    static unsigned long counter = 0;
    bool leak = alloc_ctl().live != live_before;
    if (!leak && (++counter % 256) == 0) leak = __lsan_do_recoverable_leak_check() != 0;
    return leak;
}

static std::string exec_case(const Args &a) {
    static SPool pool;
    std::string out; out.reserve(8192);
    std::vector<std::string> ops = split_ops(a.get("ops"));
    const long live_before = alloc_ctl().live;
    if (a.op == "sfault") {
        // pre-state = the prefix history; then the operation `op` once unarmed (counting its allocations: k0) and once
        // for every k = 1..n with exactly the k-th allocation failing, each time from the same rebuilt pre-state,
        // each time followed by destroying every object (leak / double free / bad free show up there)
        const std::string op = a.get("op");
        long n = 0;
        for (long k = 0; k <= n && k <= 40; ++k) {
            int step = 0;
            for (const auto &pre : ops) {
                std::string exc = apply_guarded(pool, pre);
                // the prefix is reported step by step once (values of derived objects are taken from here by the driver)
                if (k == 0) { ++step; out += "s" + std::to_string(step) + "=" + (exc.empty() ? "" : "!" + exc + "|") + pool.snapshot() + " "; }
            }
            std::string presnap = pool.snapshot();
            if (k == 0) out += "pre=" + presnap + " ";
            g_arm_k = k;
            std::string exc = apply_guarded(pool, op);
            if (k == 0) n = alloc_ctl().count;
            bool fired = k > 0 && alloc_ctl().fail_at < 0;
            alloc_ctl().fail_at = -1; g_arm_k = -1;
            std::string snap = pool.snapshot();
            bool leak = end_leak(pool, live_before);
            out += "k" + std::to_string(k) + "=" + (exc.empty() ? std::string("ok") : exc) + (k > 0 && !fired ? ",notfired" : "") + "|" + snap + "|" + (leak ? "leak" : "clean") + " ";
            if (k == 0) out += "n=" + std::to_string(n) + " ";
        }
        out += "end=done";
        return out;
    }
    int step = 0;
    for (const auto &op : ops) {
        ++step;
        std::string exc = apply_guarded(pool, op);
        out += "s" + std::to_string(step) + "=" + (exc.empty() ? "" : "!" + exc + "|") + pool.snapshot() + " ";
    }
    ops.clear(); ops.shrink_to_fit();
    out += std::string("end=") + (end_leak(pool, live_before) ? "leak" : "clean");
    return out;
}

// ------------------------------------------------------------------ generators
static const int L = 16;
struct G {
    bool live[NOBJ] = {}; size_t size[NOBJ] = {};
    int pick_live(Rng &r, int n = NSTR) { int c[NOBJ], k = 0; for (int i = 0; i < n; ++i) if (live[i]) c[k++] = i; return k ? c[r.below(k)] : -1; }
    int pick_dead(Rng &r, int n = NSTR) { int c[NOBJ], k = 0; for (int i = 0; i < n; ++i) if (!live[i]) c[k++] = i; return k ? c[r.below(k)] : -1; }
};

static size_t pick_len(Rng &rng) { const size_t cls[] = {0, 1, 3, L - 2, L - 1, L, L + 1, 3 * L, 200}; return cls[rng.below(9)]; }

// text with structure (words, separators, spaces, upper/lower case, some multi-byte characters), valid UTF-8
static std::string rand_text(Rng &rng, size_t n) {
    static const char *atoms[] = {"a", "b", "A", "B", " ", "-", "--", ",", "ab", "x", "1", "7", "\xC3\xA9", "\xE2\x82\xAC", "\t", "Zz", "=", "0x1f"};
    std::string s;
    while (s.size() < n) { std::string t = atoms[rng.below(sizeof atoms / sizeof *atoms)]; if (s.size() + t.size() <= n) s += t; else s += "a"; }
    return s;
}
static std::string S(long v) { return std::to_string(v); }

static const char *KOPS1[] = {"whole", "trim", "triml", "trimr", "upper", "lower", "copyvia", "fromlatin1", "fromutf8", "via16", "via32", "viaw", "viastd", "hexenc", "b64enc", "fmt", "ostream"};
static const char *KOPSX[] = {"trimset", "bfs", "als", "plus", "plusc", "cplus", "ssout"};         // x = slot
static const char *KOPSXY[] = {"repl", "replci", "replc"};                                       // x, y = slots
static const char *KOPSXF[] = {"bf", "af", "bl", "al"};                                           // x = slot, y = ci flag
static const char *KOPSC[] = {"bfc", "afc", "blc", "alc"};                                        // x = char
static const char *QOPSX[] = {"find", "findi", "findlast", "contains", "starts", "ends", "cmp", "cmpi", "cmpc", "eq", "lessi"};
static const char *QOPS0[] = {"hash", "toint", "todouble", "tobool", "to16", "to32", "tow", "tostd", "view", "iter", "at", "wos", "ssw", "latin", "hexdecq",
                               "tobuf0", "tobuf1", "tobuf2", "tobuf3", "tobuf4", "tobuf5", "tostr0", "tostr1", "tostr2", "tostr3", "tostr4"};

static std::string rand_op(Rng &rng, G &g, bool with_throwing) {
    for (;;) {
        unsigned kind = (unsigned)rng.below(with_throwing ? 30 : 24);
        int o = g.pick_live(rng), d = g.pick_dead(rng), s = g.pick_live(rng);
        switch (kind) {
        case 0: case 1: if (d < 0) continue; { size_t n = pick_len(rng); g.live[d] = true; g.size[d] = n; return "N" + S(d) + ":" + hex_bytes(rand_text(rng, n)); }
        case 2: if (d < 0) continue; g.live[d] = true; g.size[d] = 0; return "D" + S(d);
        case 3: if (d < 0 || s < 0) continue; g.live[d] = true; return "C" + S(d) + "," + S(s);
        case 4: if (d < 0 || s < 0) continue; g.live[d] = true; return "M" + S(d) + "," + S(s);
        case 5: if (o < 0) continue; g.live[o] = false; return "X" + S(o);
        case 6: if (o < 0 || s < 0) continue; return "c" + S(o) + "," + S(s);
        case 7: if (o < 0 || s < 0 || o == s) continue; return "m" + S(o) + "," + S(s);
        case 8: if (o < 0) continue; return "R" + S(o);
        case 9: if (o < 0 || s < 0) continue; return "P" + S(o) + "," + S(s);
        case 10: if (o < 0 || s < 0) continue; return "p" + S(o) + "," + S(s);
        case 11: if (o < 0) continue; { static const long cps[] = {0x41, 0xE9, 0x20AC, 0x1F600, 0x10FFFF, 0xD800}; return "a" + S(o) + "," + S(cps[rng.below(6)]); }
        case 12: if (o < 0) continue; return "e" + S(o) + "," + S(0x21 + rng.below(0x5E));
        case 13: if (o < 0) continue; if (rng.chance(1, 3)) { if (rng.chance(1, 3)) return "Y" + S(o); return "w" + S(o) + "," + S(rng.below(20)) + "," + S(rng.below(60)) + "," + std::string(1, "csa"[rng.below(3)]); }
                 return "S" + S(o) + "," + std::string(1, "csa"[rng.below(3)]) + ":" + hex_bytes(rand_text(rng, pick_len(rng)));
        case 14: case 15: if (d < 0 || s < 0) continue; g.live[d] = true; return "K" + S(d) + "," + S(s) + "," + KOPS1[rng.below(sizeof KOPS1 / sizeof *KOPS1)];
        case 16: if (d < 0 || s < 0 || o < 0) continue; g.live[d] = true; return "K" + S(d) + "," + S(s) + "," + KOPSX[rng.below(sizeof KOPSX / sizeof *KOPSX)] + "," + S(o);
        case 17: if (d < 0 || s < 0 || o < 0) continue; { int y = g.pick_live(rng); g.live[d] = true; return "K" + S(d) + "," + S(s) + "," + KOPSXY[rng.below(3)] + "," + S(o) + "," + S(y); }
        case 18: if (d < 0 || s < 0 || o < 0) continue; g.live[d] = true; return "K" + S(d) + "," + S(s) + "," + KOPSXF[rng.below(4)] + "," + S(o) + "," + S(rng.below(2));
        case 19: if (d < 0 || s < 0) continue; { g.live[d] = true; unsigned w = (unsigned)rng.below(6);
                   if (w == 0) return "K" + S(d) + "," + S(s) + ",substr," + S((long)rng.below(40) - 20) + "," + S(rng.below(40));
                   if (w == 1) return "K" + S(d) + "," + S(s) + ",left," + S(rng.below(40));
                   if (w == 2) return "K" + S(d) + "," + S(s) + ",right," + S(rng.below(12));     // n <= size or n >= 2*size behave; keep small
                   if (w == 3) return "K" + S(d) + "," + S(s) + "," + KOPSC[rng.below(4)] + "," + S("-, a=x"[rng.below(6)]);
                   if (w == 4) return "K" + S(d) + "," + S(s) + ",plusch," + S(0x20AC);
                   return "K" + S(d) + "," + S(s) + ",fill," + S(pick_len(rng)) + ",66"; }
        case 20: if (s < 0) continue; { int d1 = g.pick_dead(rng); if (d1 < 0) continue; g.live[d1] = true; int d2 = g.pick_dead(rng); if (d2 >= 0) g.live[d2] = true;
                   unsigned w = (unsigned)rng.below(4); std::string ds = S(d1) + "," + (d2 >= 0 ? S(d2) : "") + ",";
                   if (w == 0) return "V" + S(s) + ",splitc," + S("-, a"[rng.below(4)]) + "," + S((long)rng.below(4) - 1) + ":" + ds;
                   if (w == 1 && o >= 0 && g.size[o] > 0) return "V" + S(s) + ",splits," + S(o) + "," + S((long)rng.below(4) - 1) + ":" + ds;
                   if (w == 2) return "V" + S(s) + ",tok,0,0:" + ds;
                   return "V" + S(s) + ",splitc,32,-1:" + ds; }
        case 21: case 22: if (s < 0 || o < 0) continue; return "Q" + S(s) + "," + QOPSX[rng.below(sizeof QOPSX / sizeof *QOPSX)] + "," + S(o);
        case 23: if (s < 0) continue; return "Q" + S(s) + "," + QOPS0[rng.below(sizeof QOPS0 / sizeof *QOPS0)];
        // ---- operations that (may) throw: C18
        case 24: if (o < 0) continue; { static const char *bad[] = {"80", "c3", "e282", "f0908080ff", "41c341", "ff", "6162c0", "eda0"};   // malformed UTF-8 under check
                   std::string pre = hex_bytes(rand_text(rng, pick_len(rng))); if (pre == "-") pre = "";
                   return "S" + S(o) + ",c:" + pre + bad[rng.below(8)]; }
        case 25: if (o < 0) continue; { bool w16 = rng.chance(1, 2); static const char *b16[] = {"d800", "0041dc00", "dbff0041", "d800d800"}; static const char *b32[] = {"00110000", "7fffffff", "00000041ffffffff"};
                   return std::string(rng.chance(1, 2) ? "T" : "E") + S(o) + ",c," + (w16 ? "16:" : "32:") + (w16 ? b16[rng.below(4)] : b32[rng.below(3)]); }
        case 26: if (o < 0) continue; return "a" + S(o) + "," + S(rng.chance(1, 2) ? 0x110000 : 0x7FFFFFFF);
        case 27: if (o < 0 || g.live[BUFSLOT]) continue; { static const char *bad[] = {"80", "c3", "41c341", "ff"}; std::string pre = hex_bytes(rand_text(rng, pick_len(rng))); if (pre == "-") pre = "";
                   bool ok = rng.chance(1, 3); g.live[BUFSLOT] = true;
                   std::string u8 = "U8:" + (ok ? (pre.empty() ? std::string("41") : pre) : pre + bad[rng.below(4)]) + ";";
                   unsigned w = (unsigned)rng.below(6);
                   if (w < 2) return u8 + (w ? "b" : "B") + S(o) + "," + std::string(1, "ccs"[rng.below(3)]);
                   if (w < 4) return u8 + (w == 2 ? "h" : "H") + S(o);
                   if (d < 0) continue;
                   return u8 + (w == 4 ? "G" : "g") + S(d) + "," + std::string(1, "ccs"[rng.below(3)]); }
        case 28: if (g.live[BUFSLOT]) { g.live[BUFSLOT] = false; return "X8"; }
                 if (s < 0) continue; { g.live[BUFSLOT] = true; static const char *n[] = {"tolatin1x", "hexdec", "b64dec", "toutf8", "tolatin1"}; return "K8," + S(s) + "," + n[rng.below(5)]; }
        default: if (d < 0 || s < 0 || o < 0) continue; { unsigned w = (unsigned)rng.below(4);
                   if (w == 3) { if (o == s) continue; g.live[d] = true; return "F" + S(d) + "," + S(s) + "," + S(o); }   // format with an rvalue argument
                   if (w == 0) { g.live[d] = true; return "K" + S(d) + "," + S(s) + ",fmtwith," + S(o); }      // the text of s as a format string: bad_format / out_of_range / ok
                   if (w == 1) { g.live[d] = true; return "K" + S(d) + "," + S(s) + ",fromutf8c"; }
                   return "p" + S(o) + "," + S(s); }
        }
    }
}

static void gen(Emitter &em, const Options &opt) {
    Rng rng(opt.seed * 104729 + 71);
    bool thorough = opt.tier == "thorough";
    uint64_t k = 0;
    auto in_slice = [&]() { return (int)(k++ % opt.nslices) == opt.slice; };
    bool c18 = opt.prop == "C18";
    if (opt.prop == "C19") {
        // every allocating string-level operation x target size class x argument size class; the harness itself enumerates
        // the fault positions k = 1..n (n = allocations of the clean run) for each line
        const size_t classes[] = {0, 1, L - 1, L, L + 1, 3 * L};
        for (size_t c0 : classes) for (size_t c1 : classes) {
            if (!thorough && (c0 == 1 || c1 == 1)) continue;
            Rng r2(c0 * 53 + c1 * 5 + 1);
            std::string t0 = hex_bytes(rand_text(r2, c0)), t1 = hex_bytes(rand_text(r2, c1));
            std::string longv = hex_bytes(rand_text(r2, 2 * L + 3)), shortv = hex_bytes(rand_text(r2, 5));
            std::string pro = "N0:" + t0 + ";N1:" + t1;
            std::vector<std::string> ops = {"N2:" + longv, "N2:" + shortv, "D2", "C2,0", "M2,0", "c0,1", "c0,0", "c1,0", "m0,1", "R0", "X0", "P0,1", "P0,0", "p0,1",
                "a0,8364", "a0,128512", "e0,65", "a0,1114112", "S0,c:" + longv, "S0,s:" + longv + "ff", "S0,a:" + longv, "S0,c:" + shortv, "S0,c:" + longv + "c3", "S0,c:c3",
                "T0,c,16:00410042d83dde00", "T0,c,16:d800", "E0,c,32:000000410001f600", "E0,s,32:00110000",
                "K2,0,substr,1,40", "K2,0,whole", "K2,0,left,20", "K2,0,right,3", "K2,0,plus,1", "K2,0,plusc,1", "K2,0,cplus,1", "K2,0,plusch,8364", "K2,0,plusch,1114112",
                "K2,0,plusch16,8364", "K2,0,plusch16,65", "K2,0,plusch16,55296", "K2,0,pluschw,128512", "K2,0,pluschw,1114112", "K2,0,pluschc,65", "K2,0,pluschc,233", "K2,0,pluschc,-23",
                "K2,0,ch16plus,8364", "K2,0,ch16plus,57343", "K2,0,chwplus,128512", "K2,0,chwplus,65", "K2,0,chcplus,65", "K2,0,chcplus,200", "K2,0,chcplus,-128",
                "K2,0,repl,1,1", "K2,0,replc,1,0", "K2,0,bf,1,0", "K2,0,al,1,1", "K2,0,bfc,45", "K2,0,trimset,1", "K2,0,fill,40,66", "K2,0,fromint,-123456789",
                "K2,0,fmtint,-7,255", "K2,0,fmtwith,1", "K2,0,ssout,1", "K2,1,fromutf8c",
                "K8,0,toutf8", "K8,0,tolatin1", "K8,0,tolatin1x", "K8,0,hexdec", "K8,0,b64dec",
                "V0,splitc,45,-1:2,3,4", "V0,splitc,32,1:2,3,", "V0,splits,1,-1:2,3,4", "V0,splitz,1,2:2,3,4", "V0,tok,0,0:2,3,4",
                "Q0,to16", "Q0,to32", "Q0,tow", "Q0,tostd", "Q0,ssw", "Q0,fmtarg,5", "Q0,latin", "Q0,toint", "Q0,find,1", "Q0,hash"};
            for (const char *n : KOPS1) if (std::string(n) != "ostream") ops.push_back(std::string("K2,0,") + n);
            for (const auto &op : ops) if (in_slice()) em.emit("sfault ops=" + pro + " op=" + op);
            // operations on the char_buffer slot: set / assign / construct from an lvalue and an rvalue buffer
            for (const std::string &bv : {longv, shortv, longv + "ff"})
                for (const char *op : {"b0,c", "b0,s", "b0,a", "B0,c", "B0,s", "h0", "H0", "G2,c", "G2,s", "g2,c", "g2,a"})
                    if (in_slice()) em.emit("sfault ops=" + pro + ";U8:" + bv + " op=" + op);
            if (in_slice()) em.emit("sfault ops=" + pro + " op=U8:" + longv);
        }
        // random prefixes
        int nrand = thorough ? 6000 : 600;
        for (int i = 0; i < nrand; ++i) {
            G g; std::string ops; int len = 1 + (int)rng.below(12);
            for (int j = 0; j < len; ++j) { std::string op = rand_op(rng, g, false); if (j) ops += ";"; ops += op; }
            std::string last;
            do last = rand_op(rng, g, i % 2 == 0); while (last.find(';') != std::string::npos || last.find("ostream") != std::string::npos || last.find("wos") != std::string::npos);
            if (in_slice()) em.emit("sfault ops=" + ops + " op=" + last);
        }
        return;
    }
    // (1) directed: every const / query / vector operation on every size class of source, with the "result equals source"
    //     and self-referential variants, followed by mutation and destruction of source and result in both orders
    if (!c18) {
        const size_t classes[] = {0, 1, L - 1, L, L + 1, 3 * L};
        for (size_t c0 : classes) for (size_t c1 : {(size_t)0, (size_t)2, (size_t)L}) {
            Rng r2(c0 * 977 + c1 * 13 + 3);
            std::string pro = "N0:" + hex_bytes(rand_text(r2, c0)) + ";N1:" + hex_bytes(rand_text(r2, c1)) + ";N2:" + hex_bytes("  " + rand_text(r2, c0) + " ");
            std::vector<std::string> body;
            for (const char *n : KOPS1) body.push_back(std::string("K3,0,") + n);
            for (const char *n : KOPSX) { body.push_back(std::string("K3,0,") + n + ",1"); body.push_back(std::string("K3,0,") + n + ",0"); }
            for (const char *n : KOPSXY) { body.push_back(std::string("K3,0,") + n + ",1,2"); body.push_back(std::string("K3,0,") + n + ",0,0"); body.push_back(std::string("K3,0,") + n + ",1,1"); }
            for (const char *n : KOPSXF) { body.push_back(std::string("K3,0,") + n + ",1,0"); body.push_back(std::string("K3,0,") + n + ",0,1"); }
            for (const char *n : KOPSC) body.push_back(std::string("K3,0,") + n + ",45");
            body.push_back("K3,2,trim"); body.push_back("K3,0,substr,0," + S(c0)); body.push_back("K3,0,substr,1,5"); body.push_back("K3,0,substr,-3,3");
            body.push_back("K3,0,left," + S(c0)); body.push_back("K3,0,left,2"); body.push_back("K3,0,right," + S(c0)); body.push_back("K3,0,right,1");
            body.push_back("K3,0,plusch,8364"); body.push_back("K3,0,chplus,65");
            body.push_back("K3,0,plusch16,233"); body.push_back("K3,0,chwplus,8364"); body.push_back("K3,0,pluschc,-61"); body.push_back("K3,0,chcplus,126"); body.push_back("K3,0,fill,20,66"); body.push_back("K3,0,fromint,-12345"); body.push_back("K3,0,fmtint,-7,255");
            body.push_back("K8,0,toutf8"); body.push_back("K8,0,tolatin1");
            body.push_back("V0,splitc,45,-1:3,4,5"); body.push_back("V0,splitc,32,1:3,4,"); body.push_back("V0,splits,1,-1:3,4,5"); body.push_back("V0,tok,0,0:3,4,5"); body.push_back("V2,tokset,1,0:3,,");
            for (const char *n : QOPSX) { body.push_back(std::string("Q0,") + n + ",1"); body.push_back(std::string("Q0,") + n + ",0"); }
            for (const char *n : QOPS0) body.push_back(std::string("Q0,") + n);
            body.push_back("Q0,findat,1,2"); body.push_back("Q0,findch,45"); body.push_back("Q0,cmpn,1,3"); body.push_back("Q0,fmtarg,5");
            const char *epilogues[] = {"", ";R0", ";c0,1", ";P0,0", ";X0", ";m0,1", ";S0,a:58585858585858585858585858585858585858"};
            for (const auto &b : body) for (const char *ep : epilogues) {
                bool has3 = b[0] == 'K' && b[1] == '3';
                std::string tail = ep;
                if (has3 && *ep) tail += ";R3";       // then change the result too: the source (if alive) must not notice
                if (in_slice()) em.emit("shist ops=" + pro + ";" + b + tail);
            }
            // mutators incl. self-referential ones
            const char *muts[] = {"c0,0", "P0,0", "P0,1", "p0,0", "c0,1;R1", "m0,1;N3:6161", "C3,0;R0", "C3,0;X3", "M3,0;P0,1", "M3,0;X0", "K3,0,repl,0,0;c0,3", "a0,233", "a0,128512", "e0,65",
                                  "S0,c:c3a9", "S0,s:ff", "w0,0,200,c", "w0,1,3,c", "w0,0,15,a", "w0,2,200,s", "Y0", "w0,0,0,c", "Y0;P0,1", "w0,1,200,c;c1,0", "C3,0;C4,3;X3;P4,0", "K3,0,whole;c0,3;X3", "K3,0,plus,0;m0,3"};
            for (const char *m : muts) if (in_slice()) em.emit("shist ops=" + pro + ";" + m);
        }
    }
    // (2) C18 directed: every throwing entry point x target size class x argument size class
    if (c18 || opt.prop.empty()) {
        const size_t classes[] = {0, 1, L - 1, L, L + 1, 3 * L};
        for (size_t c0 : classes) for (size_t c1 : classes) {
            Rng r2(c0 * 31 + c1 * 7 + 11);
            std::string t0 = hex_bytes(rand_text(r2, c0)), pre = hex_bytes(rand_text(r2, c1)); if (pre == "-") pre = "";
            std::string pro = "N0:" + t0 + ";N1:" + (pre.empty() ? "-" : pre);
            std::vector<std::string> body;
            for (const char *bad : {"80", "c3", "e282", "ff", "eda0", "f08080"}) {
                body.push_back("S0,c:" + pre + bad);
                body.push_back("U8:" + pre + bad + ";b0,c"); body.push_back("U8:" + pre + bad + ";B0,c"); body.push_back("U8:" + pre + bad + ";b0,s"); body.push_back("U8:" + pre + bad + ";b0,a");
                body.push_back("U8:" + pre + bad + ";h0"); body.push_back("U8:" + pre + bad + ";H0"); body.push_back("U8:" + pre + bad + ";G3,c;X8"); body.push_back("U8:" + pre + bad + ";g3,c;X8");
                body.push_back("U8:" + pre + bad + ";G3,s"); body.push_back("U8:" + pre + bad + ";G3,a;X8");
                body.push_back("N2:" + pre + bad + ";p0,2"); body.push_back("N2:" + pre + bad + ";K3,0,plusc,2"); body.push_back("N2:" + pre + bad + ";K3,2,fromutf8c");
            }
            for (const char *bad : {"d800", "0041dc00", "dbff0041"}) { body.push_back(std::string("T0,c,16:") + bad); body.push_back(std::string("E0,c,16:") + bad); body.push_back(std::string("T0,s,16:") + bad); }
            for (const char *bad : {"00110000", "7fffffff"}) { body.push_back(std::string("T0,c,32:") + bad); body.push_back(std::string("E0,c,32:") + bad); }
            for (long cp : {0x110000L, 0x7FFFFFFFL, 0xD800L, 0x10FFFFL}) { body.push_back("a0," + S(cp)); body.push_back("K3,0,plusch," + S(cp)); body.push_back("K3,0,chplus," + S(cp)); }
            body.push_back("N2:" + pre + "c4802e;K8,2,tolatin1x"); body.push_back("N2:" + pre + "c3a9;K8,2,tolatin1x");
            for (const char *q : {"tobuf2", "tostr1", "tobuf1", "tobuf0"}) { body.push_back("N2:" + pre + "e282ac2e;Q2," + q); body.push_back("N2:" + pre + "c3a9;Q2," + q); }
            for (const char *bad : {"6", "zz", "4g", "414"}) body.push_back("N2:" + hex_bytes(std::string(c1 & ~(size_t)1, '4') + bad) + ";K8,2,hexdec");
            for (const char *bad : {"QUJD", "QUI=", "QU=D", "Q", "QUJ!", "===="}) body.push_back("N2:" + hex_bytes(bad) + ";K8,2,b64dec");
            for (const char *bad : {"{", "{}{}{}", "{&3}", "{x", "}{", "{.}", "{&0}", "{_}", "{}", "{{}}"}) { body.push_back("N2:" + hex_bytes(std::string(bad)) + ";K3,2,fmtwith,0");
                body.push_back("N2:" + hex_bytes(std::string(bad)) + ";F3,2,0"); body.push_back("N2:" + hex_bytes(std::string(bad)) + ";F3,2,1"); }      // the argument as an rvalue
            const char *epilogues[] = {"", ";P0,1", ";c1,0", ";X0"};
            for (const auto &b : body) for (const char *ep : epilogues) if (in_slice()) em.emit("shist ops=" + pro + ";" + b + ep);
        }
    }
    // (3) random histories
    int nrand = thorough ? 40000 : 3000;
    for (int i = 0; i < nrand; ++i) {
        G g; std::string ops; int len = 30;
        for (int j = 0; j < len; ++j) {
            std::string op = rand_op(rng, g, c18 || (i % 3 == 0));
            if (j) ops += ";"; ops += op;
        }
        if (in_slice()) em.emit("shist ops=" + ops);
    }
}

int main(int argc, char **argv) { return run_main(argc, argv, gen, exec_case); }
