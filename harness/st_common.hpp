// Includes the library under test (from /repo/include, st_config.h generated per run) and maps
// its exceptions to the small enum the line protocol uses.
#pragma once
#include "common.hpp"
#include <string_theory/string>
#include <string_theory/string_stream>
#include <string_theory/format>
#include <string_theory/codecs>
#include <string_theory/exceptions>
#include <string_theory/stdio>
#include <string_theory/iostream>
#include <stdexcept>

namespace vh {

// run f(), return its string or "throw <kind>"
template <class F> std::string guarded(F f) {
    try { return f(); }
    catch (const ST::unicode_error &) { return "throw unicode_error"; }
    catch (const ST::codec_error &) { return "throw codec_error"; }
    catch (const ST::bad_format &) { return "throw bad_format"; }
    catch (const std::out_of_range &) { return "throw out_of_range"; }
    catch (const std::invalid_argument &) { return "throw invalid_argument"; }
    catch (const std::bad_alloc &) { return "throw bad_alloc"; }
    catch (const std::exception &) { return "throw other"; }
    catch (...) { return "throw other"; }
}

inline ST::string raw_string(const std::string &bytes) {
    return ST::string(bytes.data(), bytes.size(), ST::assume_valid);
}
inline std::string str_bytes(const ST::string &s) { return std::string(s.c_str(), s.size()); }

// a string result must report a size equal to the units it holds and be NUL-terminated
template <class T> std::string shape(const ST::buffer<T> &b) {
    if (b.data() == nullptr) return "!nulldata";
    if (b.data()[b.size()] != 0) return "!noterm";
    return "";
}

} // namespace vh
