// Common machinery of the correspondence harnesses.
//
// A harness is   gen  : (seed, tier, slice) -> sequence of input lines   (deterministic)
//                exec : input line -> observation string                 (calls the real library)
// and prints "input => observation" per case.  Cases run in a forked worker; the worker
// publishes the index of the case it is about to run in shared memory, so an abort
// (ST_ASSERT, sanitizer report, SIGSEGV, std::terminate) or a hang is attributed to exactly
// one case, reported as "input => abort <class>" / "input => hang", and the worker is restarted
// behind it.  Replay mode reads input lines from a file instead of generating them.
#pragma once
#include <cstdint>
#include <cstdio>
#include <cstdlib>
#include <cstring>
#include <string>
#include <vector>
#include <map>
#include <set>
#include <functional>
#include <new>
#include <sys/mman.h>
#include <sys/wait.h>
#include <sys/stat.h>
#include <fcntl.h>
#include <unistd.h>
#include <signal.h>
#include <time.h>
#include <errno.h>

namespace vh {

// ---------------------------------------------------------------- allocation control
// Global operator new forwards to malloc (so ASan/LSan still see every block), turns absurd
// requests into bad_alloc instead of a sanitizer abort, counts allocations, and can be armed
// to fail the k-th allocation from now (fault injection for C19).
struct AllocCtl {
    long count = 0;        // allocations since last reset
    long fail_at = -1;     // fail when count reaches this value (1-based); -1 = never
    long fired = 0;        // how many injected faults fired in this process
    long live = 0;         // blocks obtained from operator new and not yet released, while `counting` (leak accounting)
    bool counting = false; // set by a harness around calls into the library under test
    size_t max_request = 0;
    bool track_max = false;
};
inline AllocCtl &alloc_ctl() { static AllocCtl c; return c; }

inline void *do_alloc(size_t n) {
    AllocCtl &c = alloc_ctl();
    ++c.count;
    if (c.track_max && n > c.max_request) c.max_request = n;
    if (c.fail_at >= 0 && c.count == c.fail_at) { ++c.fired; c.fail_at = -1; throw std::bad_alloc(); }
    if (n > (size_t(1) << 40)) throw std::bad_alloc();
    void *p = std::malloc(n ? n : 1);
    if (!p) throw std::bad_alloc();
    if (c.counting) ++c.live;
    return p;
}
} // namespace vh

#ifndef VH_NO_NEW_INTERPOSE
void *operator new(size_t n) { return vh::do_alloc(n); }
void *operator new[](size_t n) { return vh::do_alloc(n); }
void operator delete(void *p) noexcept { if (p && vh::alloc_ctl().counting) --vh::alloc_ctl().live; std::free(p); }
void operator delete[](void *p) noexcept { if (p && vh::alloc_ctl().counting) --vh::alloc_ctl().live; std::free(p); }
void operator delete(void *p, size_t) noexcept { if (p && vh::alloc_ctl().counting) --vh::alloc_ctl().live; std::free(p); }
void operator delete[](void *p, size_t) noexcept { if (p && vh::alloc_ctl().counting) --vh::alloc_ctl().live; std::free(p); }
#endif

namespace vh {

struct CountScope { bool prev; CountScope() : prev(alloc_ctl().counting) { alloc_ctl().counting = true; } ~CountScope() { alloc_ctl().counting = prev; } };

// ---------------------------------------------------------------- PRNG (xoshiro256**)
struct Rng {
    uint64_t s[4];
    explicit Rng(uint64_t seed) {
        uint64_t z = seed + 0x9E3779B97F4A7C15ULL;
        for (int i = 0; i < 4; ++i) {
            z += 0x9E3779B97F4A7C15ULL;
            uint64_t x = z;
            x = (x ^ (x >> 30)) * 0xBF58476D1CE4E5B9ULL;
            x = (x ^ (x >> 27)) * 0x94D049BB133111EBULL;
            s[i] = x ^ (x >> 31);
        }
    }
    static uint64_t rotl(uint64_t x, int k) { return (x << k) | (x >> (64 - k)); }
    uint64_t next() {
        uint64_t r = rotl(s[1] * 5, 7) * 9, t = s[1] << 17;
        s[2] ^= s[0]; s[3] ^= s[1]; s[1] ^= s[2]; s[0] ^= s[3]; s[2] ^= t; s[3] = rotl(s[3], 45);
        return r;
    }
    uint64_t below(uint64_t n) { return n ? next() % n : 0; }
    bool chance(unsigned num, unsigned den) { return below(den) < num; }
    template <class T> const T &pick(const std::vector<T> &v) { return v[below(v.size())]; }
};

// ---------------------------------------------------------------- hex / line helpers
inline void put_hex(std::string &out, uint64_t v, int digits) {
    static const char *d = "0123456789abcdef";
    for (int i = digits - 1; i >= 0; --i) out.push_back(d[(v >> (4 * i)) & 15]);
}
// units of width w bits (8/16/32) as fixed-width hex; "-" for the empty sequence
template <class T> inline uint64_t unit_val(T c) {
    if (sizeof(T) == 1) return (uint8_t)c;
    if (sizeof(T) == 2) return (uint16_t)c;
    if (sizeof(T) == 4) return (uint32_t)c;
    return (uint64_t)c;
}
template <class T> std::string hex_units(const T *p, size_t n) {
    if (n == 0) return "-";
    std::string out; out.reserve(n * sizeof(T) * 2);
    for (size_t i = 0; i < n; ++i) put_hex(out, unit_val(p[i]), sizeof(T) * 2);
    return out;
}
inline std::string hex_bytes(const std::string &s) { return hex_units(s.data(), s.size()); }
inline std::string hex_u64s(const std::vector<uint64_t> &v, int w) {
    if (v.empty()) return "-";
    std::string out; for (uint64_t x : v) put_hex(out, x, w / 4); return out;
}
inline int hexval(char c) { return c <= '9' ? c - '0' : (c | 32) - 'a' + 10; }
inline std::vector<uint64_t> parse_units(const std::string &s, int w) {
    std::vector<uint64_t> v;
    if (s == "-" || s.empty()) return v;
    int d = w / 4;
    for (size_t i = 0; i + d <= s.size(); i += d) {
        uint64_t x = 0; for (int j = 0; j < d; ++j) x = (x << 4) | hexval(s[i + j]);
        v.push_back(x);
    }
    return v;
}
inline std::string parse_bytes(const std::string &s) {
    std::string out; for (uint64_t x : parse_units(s, 8)) out.push_back((char)x); return out;
}

struct Args {
    std::string op;
    std::map<std::string, std::string> kv;
    const std::string &get(const std::string &k) const {
        static const std::string empty;
        auto it = kv.find(k); return it == kv.end() ? empty : it->second;
    }
    bool has(const std::string &k) const { return kv.count(k) != 0; }
    uint64_t num(const std::string &k, uint64_t dflt = 0) const {
        auto it = kv.find(k); if (it == kv.end()) return dflt;
        return strtoull(it->second.c_str(), nullptr, 0);
    }
    int64_t snum(const std::string &k, int64_t dflt = 0) const {
        auto it = kv.find(k); if (it == kv.end()) return dflt;
        return strtoll(it->second.c_str(), nullptr, 0);
    }
};
inline Args parse_line(const std::string &line) {
    Args a; size_t i = 0, n = line.size(); bool first = true;
    while (i < n) {
        while (i < n && line[i] == ' ') ++i;
        size_t j = i; while (j < n && line[j] != ' ') ++j;
        if (j > i) {
            std::string tok = line.substr(i, j - i);
            if (tok == "=>") break;
            if (first) { a.op = tok; first = false; }
            else { size_t e = tok.find('='); if (e != std::string::npos) a.kv[tok.substr(0, e)] = tok.substr(e + 1); }
        }
        i = j;
    }
    return a;
}

// FNV-1a 64 (block digests)
struct Fnv {
    uint64_t h = 0xcbf29ce484222325ULL;
    void byte(unsigned b) { h ^= (b & 0xFF); h *= 0x100000001b3ULL; }
    void u32(uint32_t v) { for (int i = 0; i < 4; ++i) byte(v >> (8 * i)); }
    void u64(uint64_t v) { for (int i = 0; i < 8; ++i) byte((unsigned)(v >> (8 * i))); }
    void str(const std::string &s) { for (unsigned char c : s) byte(c); byte(0xFF); }
    std::string hex() const { std::string o; put_hex(o, h, 16); return o; }
};

// ---------------------------------------------------------------- runner
struct Shared {
    volatile long current;   // index of the case being executed (1-based), 0 = none yet
    volatile long flushed;   // every case <= flushed has reached stdout
    volatile long done;      // worker finished normally
    volatile long alloc_faults_fired;
    volatile long flushing;  // worker is blocked writing its output (not a hang)
};

struct Options {
    uint64_t seed = 1;
    std::string tier = "quick";
    int slice = 0, nslices = 1;
    std::string prop;           // restrict generation to the cases of one property ("" = all)
    std::string replay;         // file of input lines; empty = generate
    double case_timeout = 4.0;  // seconds without progress before a case is called a hang
    std::map<std::string, std::string> extra;
};

// Calls that omit an optional argument must behave as the call that passes the documented default: a harness wraps the
// explicit call in DF(explicit, defaulted) where the explicit argument IS the default; a disagreement replaces the
// observation of the case by "!default-argument-mismatch" (which no model produces).
inline bool &default_mismatch() { static bool f = false; return f; }
template <class T, class U> const T &same_as_default(const T &with, const U &dflt) { if (!(with == dflt)) default_mismatch() = true; return with; }

// thrown by Emitter::emit once the last wanted case has been written: the generator stops there (it may call the library
// itself to build later cases, and must not do so again after it has been seen to die between two cases)
struct StopGeneration {};

class Emitter {
public:
    typedef std::function<std::string(const Args &)> ExecFn;
    Emitter(Shared *sh, long start, const std::map<long, std::string> &skip, ExecFn exec)
        : sh_(sh), start_(start), skip_(skip), exec_(exec) {}
    // one case; `input` must not contain "=>"
    void stop_after(long n) { stop_after_ = n; }
    void emit(const std::string &input) {
        ++index_;
        if (stop_after_ >= 0 && index_ > stop_after_) { flush(); throw StopGeneration(); }
        if (index_ < start_) { if (stop_after_ >= 0 && index_ == stop_after_) { flush(); throw StopGeneration(); } return; }
        auto it = skip_.find(index_);
        if (it != skip_.end()) { out(input, it->second); if (stop_after_ >= 0 && index_ == stop_after_) { flush(); throw StopGeneration(); } return; }
        sh_->current = index_;
        std::string obs;
        default_mismatch() = false;
        try { obs = exec_(parse_line(input)); }
        catch (const std::bad_alloc &) { obs = "throw bad_alloc(harness)"; }
        if (default_mismatch() && obs.compare(0, 1, "\x01") != 0) obs = "!default-argument-mismatch";
        out(input, obs);
        if (stop_after_ >= 0 && index_ == stop_after_) { flush(); throw StopGeneration(); }
    }
    void finish() { flush(); }
    long index() const { return index_; }
private:
    // Output is collected in our own buffer and written only at flush points, so a worker that
    // dies never leaves a partial line behind (stdio would flush whenever its buffer fills).
    void out(const std::string &input, const std::string &obs) {
        // an observation starting with \x01 is a pre-formatted run of complete lines (block expansion)
        if (!obs.empty() && obs[0] == '\x01') buf_.append(obs, 1, std::string::npos);
        else { buf_ += input; buf_ += " => "; buf_ += obs; buf_ += '\n'; }
        if (++pending_ >= 512 || buf_.size() > (4u << 20)) flush();
    }
    void flush() {
        sh_->flushing = 1;
        size_t off = 0;
        while (off < buf_.size()) {
            ssize_t w = ::write(1, buf_.data() + off, buf_.size() - off);
            if (w <= 0) { if (errno == EINTR) continue; _exit(3); }
            off += (size_t)w;
        }
        buf_.clear(); sh_->flushed = index_; pending_ = 0; sh_->flushing = 0;
    }
    Shared *sh_; long start_; const std::map<long, std::string> &skip_; ExecFn exec_;
    long index_ = 0; int pending_ = 0; std::string buf_; long stop_after_ = -1;
};

typedef std::function<void(Emitter &, const Options &)> GenFn;

inline std::string classify_stderr(const std::string &path, int status) {
    std::string txt;
    if (FILE *f = fopen(path.c_str(), "r")) {
        char buf[16384]; size_t n = fread(buf, 1, sizeof buf - 1, f); buf[n] = 0; txt = buf; fclose(f);
    }
    auto sanitize = [](std::string s) { for (char &c : s) if (c == ' ' || c == '\t') c = '_'; if (s.size() > 100) s.resize(100); return s; };
    size_t p;
    if ((p = txt.find("ERROR: AddressSanitizer: ")) != std::string::npos) {
        size_t e = txt.find_first_of(" \n", p + 25); return "asan:" + txt.substr(p + 25, e - (p + 25));
    }
    if ((p = txt.find("ERROR: LeakSanitizer")) != std::string::npos) return "lsan:leak";
    if ((p = txt.find("runtime error: ")) != std::string::npos) {
        size_t e = txt.find('\n', p); return "ubsan:" + sanitize(txt.substr(p + 15, e - (p + 15)));
    }
    if ((p = txt.find("ThreadSanitizer: ")) != std::string::npos) {
        size_t e = txt.find_first_of("(\n", p + 17); return "tsan:" + sanitize(txt.substr(p + 17, e - (p + 17)));
    }
    // ST_ASSERT: "<file>:<line>: <message>\n"
    {
        size_t ls = 0;
        while (ls < txt.size()) {
            size_t le = txt.find('\n', ls); if (le == std::string::npos) le = txt.size();
            std::string l = txt.substr(ls, le - ls);
            size_t h = l.find(".h:");
            if (h != std::string::npos) {
                size_t c2 = l.find(": ", h + 3);
                if (c2 != std::string::npos) {
                    size_t sl = l.rfind('/', h); std::string file = l.substr(sl == std::string::npos ? 0 : sl + 1, h + 2 - (sl == std::string::npos ? 0 : sl + 1));
                    return "assert:" + file + ":" + sanitize(l.substr(c2 + 2));
                }
            }
            ls = le + 1;
        }
    }
    if (txt.find("terminate called") != std::string::npos) return "terminate";
    if (WIFSIGNALED(status)) return "signal:" + std::to_string(WTERMSIG(status));
    return "exit:" + std::to_string(WIFEXITED(status) ? WEXITSTATUS(status) : -1);
}

inline double now_s() { timespec ts; clock_gettime(CLOCK_MONOTONIC, &ts); return ts.tv_sec + ts.tv_nsec * 1e-9; }

inline void gen_from_file(Emitter &em, const std::string &path) {
    FILE *f = fopen(path.c_str(), "r");
    if (!f) { fprintf(stderr, "harness: cannot open replay file %s\n", path.c_str()); _exit(2); }
    char *line = nullptr; size_t cap = 0; ssize_t n;
    while ((n = getline(&line, &cap, f)) > 0) {
        std::string s(line, n);
        while (!s.empty() && (s.back() == '\n' || s.back() == '\r')) s.pop_back();
        size_t p = s.find(" => "); if (p != std::string::npos) s.resize(p);
        if (s.empty() || s[0] == '#') continue;
        em.emit(s);
    }
    free(line); fclose(f);
}

// environment sanity: facts of the platform the models depend on (exit 2 = environment error)
inline void platform_asserts() {
    if (!(std::is_signed<char>::value && sizeof(wchar_t) == 4 && sizeof(size_t) == 8 && sizeof(long) == 8)) {
        fprintf(stderr, "harness: unsupported platform (char signedness / wchar_t / size_t)\n"); _exit(2);
    }
}

#ifdef VH_COVERAGE
// coverage build (tools/coverage.py): no sanitizer runtime is linked; the interface functions the harnesses call are stubbed
extern "C" void __gcov_dump(void);
extern "C" __attribute__((weak)) int __lsan_do_recoverable_leak_check() { return 0; }
extern "C" __attribute__((weak)) int __sanitizer_get_ownership(const volatile void *) { return 1; }
extern "C" __attribute__((weak)) size_t __sanitizer_get_allocated_size(const volatile void *) { return (size_t)-1; }
#endif
inline int run_main(int argc, char **argv, GenFn gen, Emitter::ExecFn exec) {
    platform_asserts();
    Options opt;
    for (int i = 1; i < argc; ++i) {
        std::string a = argv[i];
        auto val = [&]() -> std::string { return i + 1 < argc ? argv[++i] : ""; };
        if (a == "--seed") opt.seed = strtoull(val().c_str(), nullptr, 0);
        else if (a == "--tier") opt.tier = val();
        else if (a == "--slice") { std::string v = val(); sscanf(v.c_str(), "%d/%d", &opt.slice, &opt.nslices); }
        else if (a == "--replay") opt.replay = val();
        else if (a == "--timeout") opt.case_timeout = atof(val().c_str());
        else if (a == "--prop") opt.prop = val();
        else if (a.rfind("--", 0) == 0) { std::string k = a.substr(2); opt.extra[k] = val(); }
    }
    Shared *sh = (Shared *)mmap(nullptr, sizeof(Shared), PROT_READ | PROT_WRITE, MAP_SHARED | MAP_ANONYMOUS, -1, 0);
    memset((void *)sh, 0, sizeof *sh);
    char errpath[64]; snprintf(errpath, sizeof errpath, "/tmp/vh_err_%d.txt", (int)getpid());
    std::map<long, std::string> skip;
    long start = 1; int restarts = 0; long total_faults = 0; long stop_after = -1; std::string gen_crash;
    for (;;) {
        sh->current = 0; sh->done = 0; sh->flushing = 0;
        fflush(stdout);
        pid_t pid = fork();
        if (pid == 0) {
            int fd = open(errpath, O_WRONLY | O_CREAT | O_TRUNC, 0600);
            if (fd >= 0) { dup2(fd, 2); close(fd); }
            Emitter em(sh, start, skip, exec);
            em.stop_after(stop_after);
            try { if (!opt.replay.empty()) gen_from_file(em, opt.replay); else gen(em, opt); } catch (const StopGeneration &) { }
            em.finish();
            sh->alloc_faults_fired = alloc_ctl().fired;
            sh->done = 1;
            fflush(stdout);
#ifdef VH_COVERAGE
            __gcov_dump();   // tools/coverage.py: line coverage of /repo's headers under this family's generators
#endif
            _exit(0);   // skip static destructors / leak check of harness-owned state
        }
        int status = 0; long last = -1; double last_change = now_s(); bool hung = false;
        for (;;) {
            pid_t r = waitpid(pid, &status, WNOHANG);
            if (r == pid) break;
            long cur = sh->current;
            if (cur != last || sh->flushing) { last = cur; last_change = now_s(); }
            else if (cur > 0 && now_s() - last_change > opt.case_timeout) { kill(pid, SIGKILL); waitpid(pid, &status, 0); hung = true; break; }
            usleep(2000);
        }
        if (!hung && sh->done) { total_faults += sh->alloc_faults_fired; break; }
        long bad = sh->current;
        if (bad <= 0 || skip.count(bad)) {
            // the worker died between two cases: in the generator, which calls the library itself to build some inputs
            // (e.g. decoding what the encoder produced).  That is a crash of the library on a generator-made input; the
            // cases up to `bad` are flushed by one last worker that stops generating there, and check.py reports it.
            gen_crash = (hung ? std::string("hang") : classify_stderr(errpath, status)) + "@after_case=" + std::to_string(bad);
            if (bad <= 0 || stop_after == bad) break;       // nothing (more) to flush
            stop_after = bad; start = sh->flushed + 1;
            continue;
        }
        skip[bad] = hung ? std::string("hang") : ("abort " + classify_stderr(errpath, status));
        start = sh->flushed + 1;
        if (++restarts >= 40) {
            // every one of these cases is already reported as "abort …" / "hang" (a violation each); running the rest
            // of the slice would only repeat them.  One last worker flushes the pending lines up to the last abort.
            stop_after = bad;
        }
    }
    unlink(errpath);
    fprintf(stderr, "harness: restarts=%d alloc_faults_fired=%ld%s%s%s\n", restarts, total_faults, stop_after >= 0 && gen_crash.empty() ? " truncated_after_too_many_aborts=1" : "",
            gen_crash.empty() ? "" : " generator_crash=", gen_crash.c_str());
    return 0;
}

} // namespace vh
