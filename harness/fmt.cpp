// Correspondence harness for C10 / C11 (format-string parser and field rendering).
//   fmt p=<C10|C11> route=<f|fv|l1|ev> m=<c|s|a> fmt=<hex|-|N> args=<a;b;c|-> [fr=<float renderings>]
//     => ok <hex> | ok <events> | throw <kind> | abort <class> | hang
// route f  = ST::format(fmt, args…)                 (default validation)
//       fv = ST::format(validation m, fmt, args…)
//       l1 = ST::format_latin_1(fmt, args…)
//       udl = "fmt"_stfmt(args…) (the user-defined literal: ST::format under the default validation)
//       ev = ST::apply_format(recording format_writer, args…): the exact sequence of sink calls
// args: i8 i16 i32 il ill u8 u16 u32 ul ull c wc c8 c16 c32 b (":"value, decimal), cs S ss sv (":"hex bytes:
//       const char*, ST::string, std::string, std::string_view), cn (null const char*), d fl (":"IEEE bits hex),
//       wide / char8_t text: p16 p32 pw p8 (const char16_t* / char32_t* / wchar_t* / char8_t*, NUL-terminated),
//       s16 s32 sw s8 (std::basic_string), v16 v32 vw v8 (std::basic_string_view) (":"hex units of that width),
//       n16 n32 nw n8 (null pointers).
// The format string lives in an exact-size heap block ending in its NUL, so ASan reports a read
// one byte behind the terminator.  Floating-point renderings are not modelled (C13): for each
// floating argument the harness supplies libc's rendering for every (sign flag, precision, class)
// the format string could ask for; precisions are collected by a plain scan for '.' (no parsing).
#include "st_common.hpp"
#include <string>
#include <string_view>
#include <climits>
#include <cmath>
using namespace vh;

namespace vf {
struct AnyArg {
    std::string kind;
    long long sv = 0; unsigned long long uv = 0;
    std::string bytes; double d = 0; float f = 0;
    ST::string st;
    std::u16string u16; std::u32string u32; std::wstring ws; std::u8string u8;
};
// user-defined formatter (the documented extension point): forwards to the library's own
// overload for the C++ type named by `kind`, selected by ordinary overload resolution
inline void format_type(const ST::format_spec &format, ST::format_writer &output, const AnyArg &a) {
    const std::string &k = a.kind;
    if (k == "i8") ST::format_type(format, output, (signed char)a.sv);
    else if (k == "i16") ST::format_type(format, output, (short)a.sv);
    else if (k == "i32") ST::format_type(format, output, (int)a.sv);
    else if (k == "il") ST::format_type(format, output, (long)a.sv);
    else if (k == "ill") ST::format_type(format, output, (long long)a.sv);
    else if (k == "u8") ST::format_type(format, output, (unsigned char)a.uv);
    else if (k == "u16") ST::format_type(format, output, (unsigned short)a.uv);
    else if (k == "u32") ST::format_type(format, output, (unsigned int)a.uv);
    else if (k == "ul") ST::format_type(format, output, (unsigned long)a.uv);
    else if (k == "ull") ST::format_type(format, output, (unsigned long long)a.uv);
    else if (k == "c") ST::format_type(format, output, (char)a.sv);
    else if (k == "wc") ST::format_type(format, output, (wchar_t)a.sv);
    else if (k == "c8") ST::format_type(format, output, (char8_t)a.uv);
    else if (k == "c16") ST::format_type(format, output, (char16_t)a.uv);
    else if (k == "c32") ST::format_type(format, output, (char32_t)a.uv);
    else if (k == "b") ST::format_type(format, output, (bool)(a.uv != 0));
    else if (k == "cs") ST::format_type(format, output, (const char *)a.bytes.c_str());
    else if (k == "cn") ST::format_type(format, output, (const char *)nullptr);
    else if (k == "S") ST::format_type(format, output, a.st);
    else if (k == "ss") ST::format_type(format, output, a.bytes);
    else if (k == "sv") ST::format_type(format, output, std::string_view(a.bytes));
    else if (k == "p16") ST::format_type(format, output, (const char16_t *)a.u16.c_str());
    else if (k == "s16") ST::format_type(format, output, a.u16);
    else if (k == "v16") ST::format_type(format, output, std::u16string_view(a.u16));
    else if (k == "n16") ST::format_type(format, output, (const char16_t *)nullptr);
    else if (k == "p32") ST::format_type(format, output, (const char32_t *)a.u32.c_str());
    else if (k == "s32") ST::format_type(format, output, a.u32);
    else if (k == "v32") ST::format_type(format, output, std::u32string_view(a.u32));
    else if (k == "n32") ST::format_type(format, output, (const char32_t *)nullptr);
    else if (k == "pw") ST::format_type(format, output, (const wchar_t *)a.ws.c_str());
    else if (k == "sw") ST::format_type(format, output, a.ws);
    else if (k == "vw") ST::format_type(format, output, std::wstring_view(a.ws));
    else if (k == "nw") ST::format_type(format, output, (const wchar_t *)nullptr);
    else if (k == "p8") ST::format_type(format, output, (const char8_t *)a.u8.c_str());
    else if (k == "s8") ST::format_type(format, output, a.u8);
    else if (k == "v8") ST::format_type(format, output, std::u8string_view(a.u8));
    else if (k == "n8") ST::format_type(format, output, (const char8_t *)nullptr);
    else if (k == "d") ST::format_type(format, output, a.d);
    else if (k == "fl") ST::format_type(format, output, a.f);
}
} // namespace vf
using vf::AnyArg;

static bool is_float(const AnyArg &a) { return a.kind == "d" || a.kind == "fl"; }

static AnyArg parse_arg(const std::string &tok) {
    AnyArg a; size_t c = tok.find(':');
    a.kind = tok.substr(0, c);
    std::string v = c == std::string::npos ? "" : tok.substr(c + 1);
    const std::string &k = a.kind;
    if (k == "cs" || k == "S" || k == "ss" || k == "sv") { a.bytes = parse_bytes(v); if (k == "S") a.st = raw_string(a.bytes); }
    else if (k == "p16" || k == "s16" || k == "v16") { for (uint64_t u : parse_units(v, 16)) a.u16.push_back((char16_t)u); }
    else if (k == "p32" || k == "s32" || k == "v32") { for (uint64_t u : parse_units(v, 32)) a.u32.push_back((char32_t)u); }
    else if (k == "pw" || k == "sw" || k == "vw") { for (uint64_t u : parse_units(v, 32)) a.ws.push_back((wchar_t)u); }
    else if (k == "p8" || k == "s8" || k == "v8") { for (char ch : parse_bytes(v)) a.u8.push_back((char8_t)ch); }
    else if (k == "n16" || k == "n32" || k == "nw" || k == "n8") { }
    else if (k == "d") { uint64_t b = strtoull(v.c_str(), nullptr, 16); memcpy(&a.d, &b, 8); }
    else if (k == "fl") { uint32_t b = (uint32_t)strtoul(v.c_str(), nullptr, 16); memcpy(&a.f, &b, 4); }
    else if (k[0] == 'u' || k == "c8" || k == "c16" || k == "c32" || k == "b") a.uv = strtoull(v.c_str(), nullptr, 10);
    else a.sv = strtoll(v.c_str(), nullptr, 10);
    return a;
}
static std::vector<AnyArg> parse_args(const std::string &s) {
    std::vector<AnyArg> v;
    if (s.empty() || s == "-") return v;
    size_t i = 0;
    while (i <= s.size()) {
        size_t j = s.find(';', i); if (j == std::string::npos) j = s.size();
        v.push_back(parse_arg(s.substr(i, j - i)));
        i = j + 1;
    }
    return v;
}

// sink that records the exact calls (public API: ST::format_writer is the documented base class)
struct RecWriter : public ST::format_writer {
    std::string log;
    explicit RecWriter(const char *f) : ST::format_writer(f) {}
    RecWriter &append(const char *data, size_t size) override {
        if (!log.empty()) log += ',';
        log += 'a'; log += hex_units(data, size);
        return *this;
    }
    RecWriter &append_char(char ch, size_t count = 1) override {
        if (!log.empty()) log += ',';
        log += 'c'; put_hex(log, (uint8_t)ch, 2); log += 'x'; log += std::to_string(count);
        return *this;
    }
};

static std::string show(const ST::string &s) {
    if (s.c_str()[s.size()] != 0) return "!noterm";
    return "ok " + hex_units(s.c_str(), s.size());
}

struct ExactFmt {
    char *p = nullptr;
    ExactFmt(const std::string &bytes, bool null) {
        if (null) return;
        p = new char[bytes.size() + 1];
        memcpy(p, bytes.data(), bytes.size()); p[bytes.size()] = 0;
    }
    ~ExactFmt() { delete[] p; }
};

template <class... A> static std::string call_route(const std::string &route, const std::string &m, const char *f, const A &...a) {
    if (route == "ev") {
        RecWriter w(f);
        ST::apply_format(w, a...);
        return "ok " + (w.log.empty() ? std::string("-") : w.log);
    }
    if (route == "l1") return show(ST::format_latin_1(f, a...));
    if (route == "udl") return show(ST::literals::operator"" _stfmt(f, f ? strlen(f) : 0)(a...));      // "…"_stfmt(args…)
    if (route == "fv") return show(ST::format(m == "a" ? ST::assume_valid : m == "s" ? ST::substitute_invalid : ST::check_validity, f, a...));
    return show(ST::format(f, a...));
}

// the same call with the argument passed as its real C++ type (one argument): the route a user takes
static std::string call_typed1(const std::string &route, const std::string &m, const char *f, const AnyArg &a) {
    const std::string &k = a.kind;
    if (k == "i8") return call_route(route, m, f, (signed char)a.sv);
    if (k == "i16") return call_route(route, m, f, (short)a.sv);
    if (k == "i32") return call_route(route, m, f, (int)a.sv);
    if (k == "il") return call_route(route, m, f, (long)a.sv);
    if (k == "ill") return call_route(route, m, f, (long long)a.sv);
    if (k == "u8") return call_route(route, m, f, (unsigned char)a.uv);
    if (k == "u16") return call_route(route, m, f, (unsigned short)a.uv);
    if (k == "u32") return call_route(route, m, f, (unsigned int)a.uv);
    if (k == "ul") return call_route(route, m, f, (unsigned long)a.uv);
    if (k == "ull") return call_route(route, m, f, (unsigned long long)a.uv);
    if (k == "c") return call_route(route, m, f, (char)a.sv);
    if (k == "wc") return call_route(route, m, f, (wchar_t)a.sv);
    if (k == "c8") return call_route(route, m, f, (char8_t)a.uv);
    if (k == "c16") return call_route(route, m, f, (char16_t)a.uv);
    if (k == "c32") return call_route(route, m, f, (char32_t)a.uv);
    if (k == "b") return call_route(route, m, f, (bool)(a.uv != 0));
    if (k == "cs") return call_route(route, m, f, (const char *)a.bytes.c_str());
    if (k == "cn") return call_route(route, m, f, (const char *)nullptr);
    if (k == "S") return call_route(route, m, f, a.st);
    if (k == "ss") return call_route(route, m, f, a.bytes);
    if (k == "sv") return call_route(route, m, f, std::string_view(a.bytes));
    if (k == "p16") return call_route(route, m, f, (const char16_t *)a.u16.c_str());
    if (k == "s16") return call_route(route, m, f, a.u16);
    if (k == "v16") return call_route(route, m, f, std::u16string_view(a.u16));
    if (k == "n16") return call_route(route, m, f, (const char16_t *)nullptr);
    if (k == "p32") return call_route(route, m, f, (const char32_t *)a.u32.c_str());
    if (k == "s32") return call_route(route, m, f, a.u32);
    if (k == "v32") return call_route(route, m, f, std::u32string_view(a.u32));
    if (k == "n32") return call_route(route, m, f, (const char32_t *)nullptr);
    if (k == "pw") return call_route(route, m, f, (const wchar_t *)a.ws.c_str());
    if (k == "sw") return call_route(route, m, f, a.ws);
    if (k == "vw") return call_route(route, m, f, std::wstring_view(a.ws));
    if (k == "nw") return call_route(route, m, f, (const wchar_t *)nullptr);
    if (k == "p8") return call_route(route, m, f, (const char8_t *)a.u8.c_str());
    if (k == "s8") return call_route(route, m, f, a.u8);
    if (k == "v8") return call_route(route, m, f, std::u8string_view(a.u8));
    if (k == "n8") return call_route(route, m, f, (const char8_t *)nullptr);
    if (k == "d") return call_route(route, m, f, a.d);
    if (k == "fl") return call_route(route, m, f, a.f);
    return "bad-kind";
}

static std::string exec_case(const Args &a) {
    if (a.op != "fmt") return "bad-op";
    std::string fs = a.get("fmt");
    bool null = fs == "N";
    ExactFmt ef(null ? std::string() : parse_bytes(fs), null);
    std::vector<AnyArg> args = parse_args(a.get("args"));
    std::string route = a.get("route"), m = a.get("m");
    const char *f = ef.p;
    switch (args.size()) {
    case 0: return guarded([&]() { return call_route(route, m, f); });
    case 1: {
        std::string r = guarded([&]() { return call_route(route, m, f, args[0]); });
        std::string t = guarded([&]() { return call_typed1(route, m, f, args[0]); });
        if (t != r) return "route-mismatch";
        return r;
    }
    case 2: return guarded([&]() { return call_route(route, m, f, args[0], args[1]); });
    case 3: return guarded([&]() { return call_route(route, m, f, args[0], args[1], args[2]); });
    default: return guarded([&]() { return call_route(route, m, f, args[0], args[1], args[2], args[3]); });
    }
}

// ------------------------------------------------------------------ generators
// libc's rendering of every floating argument for every (precision, sign flag, class) the format
// string could select: precisions are whatever decimal follows a '.', found by a plain scan
static std::string float_table(const std::string &fmt, const std::vector<AnyArg> &args) {
    bool any = false; for (auto &a : args) if (is_float(a)) any = true;
    if (!any) return "";
    std::set<long> precs; precs.insert(-1);
    for (size_t i = 0; i < fmt.size(); ++i)
        if (fmt[i] == '.') {
            long v = strtol(fmt.c_str() + i + 1, nullptr, 10);
            int p = (int)v;
            if (p >= 0 && p <= 2000) precs.insert(p);
        }
    std::string out;
    static char buf[8192];
    for (size_t i = 0; i < args.size(); ++i) {
        if (!is_float(args[i])) continue;
        double v = args[i].kind == "d" ? args[i].d : (double)args[i].f;
        for (long p : precs) for (int plus = 0; plus < 2; ++plus) for (char cls : {'g', 'f', 'e', 'E'}) {
            std::string f = "%"; if (plus) f += '+';
            if (p >= 0) { f += '.'; f += std::to_string(p); }
            f += cls;
            int n = snprintf(buf, sizeof buf, f.c_str(), v);
            if (n < 0 || (size_t)n >= sizeof buf) continue;
            if (!out.empty()) out += ',';
            out += std::to_string(i) + "." + (p < 0 ? std::string("n") : std::to_string(p)) + "." + std::to_string(plus) + "." + cls + ":" + hex_units(buf, (size_t)n);
        }
    }
    return out;
}

static std::string arg_tok(const std::string &kind, const std::string &v) { return kind + ":" + v; }
static std::string join_args(const std::vector<std::string> &v) {
    if (v.empty()) return "-";
    std::string s; for (size_t i = 0; i < v.size(); ++i) { if (i) s += ';'; s += v[i]; }
    return s;
}
static std::string dbits(double d) { uint64_t b; memcpy(&b, &d, 8); std::string o; put_hex(o, b, 16); return o; }
static std::string fbits(float d) { uint32_t b; memcpy(&b, &d, 4); std::string o; put_hex(o, b, 8); return o; }

struct Gen {
    Emitter &em; const Options &opt; Rng rng; uint64_t k = 0;
    Gen(Emitter &e, const Options &o) : em(e), opt(o), rng(o.seed) {}
    bool mine() { return (int)(k++ % opt.nslices) == opt.slice; }
    // emit one case (already known to be in this slice)
    void put(const std::string &route, const std::string &m, const std::string &fmt, bool null, const std::vector<std::string> &args) {
        std::string line = "fmt p=" + std::string(opt.prop == "C11" ? "C11" : "C10") + " route=" + route + " m=" + m + " fmt=" + (null ? std::string("N") : hex_bytes(fmt)) + " args=" + join_args(args);
        std::vector<AnyArg> pa; for (auto &t : args) pa.push_back(parse_arg(t));
        std::string ft = float_table(fmt, pa);
        if (!ft.empty()) line += " fr=" + ft;
        em.emit(line);
    }
    void route_of(uint64_t h, std::string &route, std::string &m) {
        h = (h + 0x9E3779B97F4A7C15ULL) * 0xBF58476D1CE4E5B9ULL; h ^= h >> 31;     // decorrelate from the callers' sampling
        switch (h % 7) {
        case 6: route = "udl"; m = "c"; break;
        case 0: route = "f"; m = "c"; break;
        case 1: case 2: route = "ev"; m = "c"; break;
        case 3: route = "fv"; m = "s"; break;
        case 4: route = "fv"; m = "a"; break;
        default: route = "l1"; m = "a"; break;
        }
    }
};

// boundary values of an integer kind, as decimal text
static std::vector<std::string> int_values(const std::string &k) {
    auto S = [](long long v) { return std::to_string(v); };
    auto U = [](unsigned long long v) { return std::to_string(v); };
    if (k == "i8") return {S(0), S(1), S(-1), S(127), S(-128), S(65), S(-100), S(9), S(10)};
    if (k == "i16") return {S(0), S(1), S(-1), S(32767), S(-32768), S(255), S(256), S(-256), S(9999), S(10000)};
    if (k == "i32" || k == "wc") return {S(0), S(1), S(-1), S(INT_MAX), S(-INT_MAX), S(INT_MIN), S(65), S(0x10FFFF), S(0x110000), S(0xD800), S(65535), S(65536), S(-65536), S(999999999), S(1000000000), S(8), S(7), S(15), S(16)};
    if (k == "il" || k == "ill") return {S(0), S(1), S(-1), S(LLONG_MAX), S(-LLONG_MAX), S(LLONG_MIN), S(0x100000041LL), S(-4294967231LL), S(4294967295LL), S(4294967296LL), S(0x10FFFF), S(0x110000),
                                          S(999999999999999999LL), S(1000000000000000000LL), S(-1000000000000000000LL), S(65)};
    if (k == "u8" || k == "c8") return {U(0), U(1), U(255), U(65), U(128), U(127), U(9), U(10), U(64)};
    if (k == "u16" || k == "c16") return {U(0), U(1), U(65535), U(65), U(0xD800), U(0xDFFF), U(0x20AC), U(255), U(256), U(4095), U(4096)};
    if (k == "u32" || k == "c32") return {U(0), U(1), U(4294967295u), U(65), U(0x10FFFF), U(0x110000), U(0x1F600), U(2147483648u), U(2147483647u), U(0xFFFF), U(0x10000), U(0xD800)};
    if (k == "ul" || k == "ull") return {U(0), U(1), U(ULLONG_MAX), U(0x100000041ULL), U(9223372036854775808ULL), U(4294967296ULL), U(4294967295ULL), U(0x10FFFF), U(0x110000),
                                          U(9999999999999999999ULL), U(10000000000000000000ULL), U(65)};
    if (k == "c") return {S(0), S(65), S(127), S(-128), S(-1), S(32), S(-61)};
    if (k == "b") return {U(0), U(1)};
    return {S(0)};
}
static const std::vector<std::string> INT_KINDS = {"i8", "i16", "i32", "il", "ill", "u8", "u16", "u32", "ul", "ull", "c", "wc", "c8", "c16", "c32", "b"};
static const std::vector<std::string> STR_KINDS = {"cs", "S", "ss", "sv"};
static const std::vector<std::string> TEXTS = {"", "a", "hello", "\xC3\xA9", "h\xC3\xA9llo w\xC3\xB6rld", "\xE2\x82\xAC" "5", "0123456789abcdefXYZ", "\x80", "tab\there", "{}"};

// wide / char8_t text arguments: well-formed text of every encoded width, a surrogate pair, the reversed pair the
// library tolerates, malformed text (lone surrogate, value above 10FFFF: unicode_error under the default validation),
// an embedded zero unit (pointer kinds see the text in front of it)
static const std::vector<std::string> W16_KINDS = {"p16", "s16", "v16"};
static const std::vector<std::string> W32_KINDS = {"p32", "s32", "v32", "pw", "sw", "vw"};
static const std::vector<std::string> U8_KINDS = {"p8", "s8", "v8"};
static const std::vector<std::string> NULL_KINDS = {"n16", "n32", "nw", "n8"};
static const std::vector<std::string> W16_TEXTS = {"-", "0061", "00e9", "d83dde00", "d800", "20ac0035", "dc00d83d", "006800e9006c006c006f00200077", "0061d83dde000062", "004100000042", "00e920acd83dde00"};
static const std::vector<std::string> W32_TEXTS = {"-", "00000061", "000000e9", "0001f600", "00110000", "000020ac00000035", "0000d800", "00000068000000e90000006c0000006c0000006f", "000000610001f60000000062", "000000410000000000000042", "ffffffff"};
static std::string random_wide_arg(Rng &rng) {
    switch (rng.below(8)) {
    case 0: case 1: case 2: return arg_tok(rng.pick(W16_KINDS), rng.pick(W16_TEXTS));
    case 3: case 4: case 5: return arg_tok(rng.pick(W32_KINDS), rng.pick(W32_TEXTS));
    case 6: return arg_tok(rng.pick(U8_KINDS), hex_bytes(rng.pick(TEXTS)));
    default: return rng.pick(NULL_KINDS);
    }
}

static std::string random_arg(Rng &rng, bool allow_float) {
    unsigned c = (unsigned)rng.below(allow_float ? 14 : 12);
    if (c < 6) { const std::string &k = rng.pick(INT_KINDS); return arg_tok(k, rng.pick(int_values(k))); }
    if (c < 9) { const std::string &k = rng.pick(STR_KINDS); return arg_tok(k, hex_bytes(rng.pick(TEXTS))); }
    if (c == 9) return "cn";
    if (c == 10 || c == 11) return random_wide_arg(rng);
    c -= 2;
    static const std::vector<double> DV = {0.0, -0.0, 1.5, -2.25, 1e10, 123456.789, 1e-5, INFINITY, NAN, 1e15, -1e15, 0.1, 1e-300, 1e100, -1e300, 1e62, 1e63};
    if (c == 10) return arg_tok("d", dbits(rng.pick(DV)));
    static const std::vector<float> FV = {0.0f, 1.5f, -2.25f, 16777216.0f, 0.1f, INFINITY, 3.4e38f};
    return arg_tok("fl", fbits(rng.pick(FV)));
}

// a decimal numeral whose value, narrowed the way the parser narrows it, stays small (no huge padding)
static std::string safe_number(Rng &rng, bool first_nonzero, unsigned small_max) {
    switch (rng.below(12)) {
    case 0: return std::to_string(4294967296ULL + rng.below(small_max + 1));      // wraps to a small int
    case 1: return "2147483648";                                                   // INT_MIN after the cast
    case 2: return "9223372036854775807";                                          // LONG_MAX -> -1
    case 3: return "99999999999999999999";                                         // saturates, -> -1
    case 4: return "18446744073709551617";
    case 5: return first_nonzero ? "1" : "0";
    case 6: return first_nonzero ? "10" : "007";
    default: { unsigned v = (unsigned)rng.below(small_max + 1); if (first_nonzero && v == 0) v = 1; return std::to_string(v); }
    }
}
// what may follow '.' or '&': optional whitespace, optional sign, digits or nothing
static std::string num_form(Rng &rng, unsigned small_max) {
    std::string s;
    switch (rng.below(10)) { case 0: s += " "; break; case 1: s += "\t"; break; case 2: s += " \n"; break; case 3: s += "\v\f\r"; break; default: break; }
    switch (rng.below(8)) { case 0: s += "+"; break; case 1: s += "-"; break; case 2: if (rng.chance(1, 4)) s += "+-"; break; default: break; }
    if (!rng.chance(1, 8)) s += safe_number(rng, false, small_max);
    return s;
}
// `calm`: never combine the character class with padding (that combination is the documented assertion, which
// costs a worker restart; it is generated in a bounded phase of its own)
static std::string random_field(Rng &rng, int nargs, bool allow_bad, bool calm) {
    std::string f = "{";
    int items = (int)rng.below(6);
    static const char FLAGS[] = "<>0#xX+dobcfeE";
    bool has_pad = false;
    for (int i = 0; i < items; ++i) {
        switch (rng.below(10)) {
        case 0: case 1: case 2: f += FLAGS[rng.below(sizeof FLAGS - 1)]; break;
        case 3: { static const std::vector<std::string> P = {"*", "0", " ", "}", "{", "_", "\x80", "\xC3", "1", ".", "&", "-"}; f += "_" + rng.pick(P); has_pad = true; break; }
        case 4: case 5: f += safe_number(rng, true, 24); has_pad = true; break;
        case 6: case 7:
            // now and then a precision that pushes a floating-point rendering to 63, 64, 65, 100, 300+ bytes
            if (rng.chance(1, 6)) { static const std::vector<std::string> LP = {"61", "62", "63", "100", "300"}; f += "." + rng.pick(LP); }
            else f += "." + num_form(rng, 12);
            break;
        case 8: f += "&" + num_form(rng, (unsigned)nargs + 1); break;
        default:
            if (allow_bad && rng.chance(1, 3)) { static const std::vector<std::string> B = {"a", " ", "-", "\x80", "{", "*", "g", "\t"}; f += rng.pick(B); }
            else f += FLAGS[rng.below(sizeof FLAGS - 1)];
            break;
        }
    }
    // any digit counts as possible padding ('0' flag, a width, a numeral that ends early)
    for (char ch : f) if (ch >= '0' && ch <= '9') has_pad = true;
    if (calm && has_pad) for (char &ch : f) if (ch == 'c') ch = 'd';
    if (allow_bad && rng.chance(1, 12)) { if (rng.chance(1, 2) && !calm) f += "_"; return f; }   // unterminated
    return f + "}";
}
static std::string random_literal(Rng &rng) {
    static const std::vector<std::string> L = {"", "", "a", "{{", "}}", "}", " x ", "\xC3\xA9", "\x80", "}}}", "{{{{", "%d", "\\", "}{{"};
    return rng.pick(L);
}

// every maximal run of decimal digits, narrowed the way the parser narrows a numeral, stays at or below
// `limit` (a plain scan, no parsing): keeps padding and float precision of random strings small
static bool digit_runs_ok(const std::string &s, long limit) {
    for (size_t i = 0; i < s.size();) {
        if (s[i] < '0' || s[i] > '9') { ++i; continue; }
        size_t j = i; while (j < s.size() && s[j] >= '0' && s[j] <= '9') ++j;
        // with and without a sign in front (a numeral after '.' or '&' may carry one)
        int v = (int)strtol(s.substr(i, j - i).c_str(), nullptr, 10);
        int w = (int)strtol(("-" + s.substr(i, j - i)).c_str(), nullptr, 10);
        if (v > limit || w > limit) return false;
        i = j;
    }
    return true;
}

static std::string nth_string(const std::string &alpha, int len, uint64_t n) {
    std::string s(len, ' ');
    for (int i = len - 1; i >= 0; --i) { s[i] = alpha[n % alpha.size()]; n /= alpha.size(); }
    return s;
}

static void random_case(Gen &g, uint64_t r, bool calm) {
    Rng rng(g.opt.seed * 0x9E3779B97F4A7C15ULL + r * 2654435761ULL + 17);   // one stream per case: slices skip in O(1)
    int nargs = (int)rng.below(5);
    std::vector<std::string> args; for (int i = 0; i < nargs; ++i) args.push_back(random_arg(rng, true));
    int nf = 1 + (int)rng.below(3);
    std::string s = random_literal(rng);
    for (int i = 0; i < nf; ++i) { s += random_field(rng, nargs, true, calm); s += random_literal(rng); }
    std::string route, m; g.route_of(rng.next(), route, m);
    bool has_float = false; for (auto &t : args) if (t[0] == 'd' || t[0] == 'f') has_float = true;
    // floats: precision up to a few hundred (renderings far beyond the 64-byte stack buffer), never near 2^20
    if (!digit_runs_ok(s, has_float ? 400 : 3000)) return;
    g.put(route, m, s, false, args);
}

// Floating-point renderings around and far beyond the 64-byte stack buffer of format_type(double): 63, 64, 65,
// 100, 300+ bytes ("{.61f}" "{.62f}" "{.63f}" "{.100e}" "{.300}" of ordinary values, "{f}" of 1e100 and -1e300),
// bare and with width / alignment / pad / sign, alone and next to other fields; every route.
static void gen_long_floats(Gen &g, bool thorough) {
    const std::vector<std::string> specs = {".61f", ".62f", ".63f", ".100e", ".300", "f", ".61", ".62e", ".57e", ".58e", ".59E", ".300f", "e", ".0f", ".40"};
    const std::vector<std::string> deco = {"", "<", ">", "_*", "0", "+", "<_*", ">0", "+_#>"};
    const std::vector<long> widths = {0, 10, 64, 65, 120, 400};
    std::vector<std::string> vals;
    for (double v : {1.5, -2.25, 1e100, -1e300, 123456.789, 1e62, 1e63, 1e-5, 0.0, 4.9e-324, 1.7976931348623157e308}) vals.push_back("d:" + dbits(v));
    for (float v : {2.5f, -3.4e38f, 1e-45f}) vals.push_back("fl:" + fbits(v));
    uint64_t n = 0;
    for (const std::string &sp : specs)
        for (const std::string &dc : deco)
            for (long w : widths)
                for (const std::string &val : vals) {
                    ++n;
                    if (!thorough && (n * 2654435761ULL + g.opt.seed) % 5 != 0) continue;
                    if (!g.mine()) continue;
                    // width in front of the precision / class letters (a numeral must not run into another one)
                    std::string field = "{" + dc + (w ? std::to_string(w) : std::string()) + sp + "}";
                    std::string route, m; g.route_of(n, route, m);
                    switch (n % 4) {
                    case 0: g.put(route, m, field, false, {val}); break;
                    case 1: g.put(route, m, "a" + field + "{{" + field, false, {val, val}); break;
                    case 2: g.put(route, m, field + "{&1" + sp + "}|{}", false, {val, "i32:-7"}); break;
                    default: g.put(route, m, "{}" + field, false, {"cs:78", val}); break;
                    }
                }
}

// Order matters for speed only: a case that trips the documented assertion kills the worker, and the
// restarted worker regenerates everything before it.  So the cases that can assert ('c' class with
// padding on an integer argument) are generated first, in bounded number; the bulk that follows cannot.
static void gen_c10(Gen &g) {
    bool thorough = g.opt.tier == "thorough";
    const int NS = g.opt.nslices, SL = g.opt.slice;
    // ---- the null format string, with and without arguments, every route
    for (const char *route : {"f", "fv", "l1", "ev"})
        for (const char *args : {"-", "i32:5"})
            if (g.mine()) g.put(route, "c", "", true, std::string(args) == "-" ? std::vector<std::string>{} : std::vector<std::string>{args});
    const std::string alpha = std::string("{}_.&019+- xc<a") + '\x80';
    const std::vector<std::vector<std::string>> pool = {
        {"i32:65"}, {"ill:-9223372036854775808", "cs:6869"}, {"c:65", "b:1", "S:c3a9"}, {"d:" + dbits(1.5)}, {"cn", "u32:4000000000"},
        {"S:68656c6c6f", "i32:-7", "c:-128"}, {"u32:0"}, {"cs:68c3a96c6c6f", "d:" + dbits(-0.25)}, {"b:0", "ull:18446744073709551615", "wc:8364"},
        {"c16:55296"}, {"sv:414243", "i8:-128"}, {"fl:" + fbits(2.5f), "i16:-1", "cn"},
        {"p16:00e9d83dde00", "n32"}, {"s32:0001f60000000041", "v16:d800"}, {"pw:00000068000000e9", "s8:c3a9", "nw"}, {"vw:00110000", "p8:6869"},
    };
    // text arguments ignore the character class: no assertion possible
    const std::vector<std::vector<std::string>> text_pool = {
        {"cs:6869"}, {"S:c3a9", "b:1"}, {"cn", "sv:414243"}, {"b:0", "ss:68656c6c6f", "cs:78"},
        {"s16:00e920ac", "p32:0001f600"}, {"v8:68c3a9", "n16", "sw:00000041"},
    };
    int maxlen = thorough ? 5 : 4;
    // every string over the critical alphabet up to length 4 (quick) / 5 (thorough); slices own whole
    // strings by string index.  phase 0: strings containing 'c' (length <= 4, and a sample of length 5) with
    // integer arguments; phase 1: everything else (strings with 'c' get text arguments there).
    for (int phase = 0; phase < 2; ++phase) {
        uint64_t idx0 = 0;
        for (int len = 0; len <= maxlen; ++len) {
            uint64_t total = 1; for (int i = 0; i < len; ++i) total *= alpha.size();
            uint64_t first = ((uint64_t)SL + NS - idx0 % NS) % NS;
            for (uint64_t n = first; n < total; n += NS) {
                uint64_t idx = idx0 + n;
                std::string s = nth_string(alpha, len, n);
                bool has_c = s.find('c') != std::string::npos;
                bool hot = has_c && (len <= 4 || (idx / NS) % 8 == 0);
                if ((phase == 0) != hot) continue;
                // strings without any brace are pure literals: keep one argument list for them
                bool braces = s.find('{') != std::string::npos || s.find('}') != std::string::npos;
                int lists = braces ? 4 : 1;
                for (int j = 0; j < lists; ++j) {
                    std::string route, m; g.route_of(idx * 7 + j * 3 + g.opt.seed, route, m);
                    if (j == 0) g.put(route, m, s, false, {});
                    else if (has_c && !hot) g.put(route, m, s, false, text_pool[(idx + j + g.opt.seed) % text_pool.size()]);
                    else if (j == 1) g.put(route, m, s, false, pool[0]);
                    else g.put(route, m, s, false, pool[(idx + j * 5 + g.opt.seed) % pool.size()]);
                }
            }
            idx0 += total;
        }
        if (phase == 0) {
            // grammar-directed random strings that may put the character class next to padding
            long nhot = thorough ? 16000 : 8000;
            for (long r = SL; r < nhot; r += NS) random_case(g, (uint64_t)r, false);
        }
    }
    // ---- floating-point renderings of 63, 64, 65, 100, 300+ bytes (the consumers of the parsed spec must stay memory-safe)
    gen_long_floats(g, thorough);
    // ---- grammar-directed random format strings (1..3 fields, literals between, 0..4 arguments of every type)
    long nrand = thorough ? 1500000 : 60000;
    for (long r = SL; r < nrand; r += NS) random_case(g, 1000000 + (uint64_t)r, true);
    // ---- every prefix of valid format strings (cut at every position)
    const std::vector<std::pair<std::string, std::vector<std::string>>> valid = {
        {"Hello {}, you are {} years old", {"cs:426f62", "i32:42"}},
        {"{<10}|{>10}|{_*>8x}|{#X}", {"S:6162", "i32:-5", "u32:255", "u16:48879"}},
        {"{&2} {&1} {} {}", {"i32:1", "i32:2"}},
        {"{{literal}} {08.3} }} {{{}}}", {"cs:616263646566", "b:1"}},
        {"{c}{c}{c}", {"i32:8364", "c:65", "c32:128512"}},
        {"{.2}{. 3}{.+1}{.-1}{.}", {"cs:616263646566", "S:616263646566", "ss:616263646566", "sv:616263646566", "b:0"}},
        {"{&1x}{&1X}{&1o}{&1b}{&1d}{&1#x}{&1+}", {"i32:255"}},
        {"{_}}}{_{<4}{__>3}", {"i32:7", "i32:8", "i32:9"}},
        {"{4294967301}|{& 1}|{&\t+2}", {"i32:1", "cs:78"}},
        {"a\xC3\xA9{_\xC3>3}{_\xA9>3}\x80", {"i32:1", "i32:2"}},
        {"{f}|{e}|{E}|{.3f}|{+10.2}|{<10}", {"d:" + dbits(3.14159), "d:" + dbits(-1e10), "d:" + dbits(12345.678), "fl:" + fbits(2.5f), "d:" + dbits(0.5), "d:" + dbits(1.0)}},
    };
    uint64_t vi = 0;
    for (auto &pr : valid)
        for (size_t cut = 0; cut <= pr.first.size(); ++cut)
            for (int variant = 0; variant < 3; ++variant, ++vi) {
                std::vector<std::string> args = pr.second;
                if (variant == 1 && !args.empty()) args.pop_back();
                if (variant == 2) args.clear();
                if (args.size() > 4) args.resize(4);
                std::string route, m; g.route_of(vi + g.opt.seed, route, m);
                if (!g.mine()) continue;
                g.put(route, m, pr.first.substr(0, cut), false, args);
            }
}

// ------------------------------------------------------------------ C11: field rendering
// One field assembled from its components in one of several item orders.
struct FieldParts { std::string ref, align, pad, hash, plus, width, prec, cls; };
static std::string build_field(const FieldParts &f, unsigned order) {
    // the zero flag must not run into the width ("0" then "12" is the flag and width 12 either way, but a pad
    // item "_0" or the class letters may sit anywhere)
    switch (order % 4) {
    case 0: return "{" + f.ref + f.align + f.pad + f.hash + f.plus + f.width + f.prec + f.cls + "}";
    case 1: return "{" + f.cls + f.plus + f.hash + f.pad + f.align + f.width + f.prec + f.ref + "}";
    case 2: return "{" + f.pad + f.width + f.cls + f.prec + f.align + f.ref + f.plus + f.hash + "}";
    default: return "{" + f.hash + f.pad + f.plus + f.align + f.width + f.cls + f.ref + f.prec + "}";
    }
}
// `&N` directly followed by a digit item would read as one numeral; orders 1 and 3 end a ref before '}' or '.'
static bool order_ok(const FieldParts &f, unsigned order) {
    auto digit_first = [](const std::string &x) { return !x.empty() && x[0] >= '0' && x[0] <= '9'; };
    std::vector<std::string> seq;
    switch (order % 4) {
    case 0: seq = {f.ref, f.align, f.pad, f.hash, f.plus, f.width, f.prec, f.cls}; break;
    case 1: seq = {f.cls, f.plus, f.hash, f.pad, f.align, f.width, f.prec, f.ref}; break;
    case 2: seq = {f.pad, f.width, f.cls, f.prec, f.align, f.ref, f.plus, f.hash}; break;
    default: seq = {f.hash, f.pad, f.plus, f.align, f.width, f.cls, f.ref, f.prec}; break;
    }
    std::vector<std::string> ne; for (auto &x : seq) if (!x.empty()) ne.push_back(x);
    for (size_t i = 0; i + 1 < ne.size(); ++i) {
        const std::string &a = ne[i], &b = ne[i + 1];
        bool a_num = (a[0] == '&' || a[0] == '.' || (a[0] >= '1' && a[0] <= '9'));
        if (a_num && digit_first(b)) return false;          // numeral followed by '0' flag or width
    }
    return true;
}

// natural length of the rendering, obtained from the library itself: used only to place widths around it
static size_t natural_len(const FieldParts &f, const std::string &arg) {
    FieldParts g = f; g.width = ""; g.pad = ""; g.align = ""; g.ref = "";
    std::string fs = build_field(g, 0);
    AnyArg a = parse_arg(arg);
    try { return ST::format(ST::assume_valid, fs.c_str(), a).size(); } catch (...) { return 1; }
}

static void gen_c11(Gen &g) {
    bool thorough = g.opt.tier == "thorough";
    const int NS = g.opt.nslices, SL = g.opt.slice;
    uint64_t k = 0;                       // case counter: slices by case index
    auto mine = [&]() { return (int)(k++ % NS) == SL; };
    uint64_t keep_mod = thorough ? 1 : 6; // quick keeps a seed-dependent sixth of the integer cross product
    // ---- the documented assertion, a handful of cases (each costs a worker restart), first
    for (const char *fs : {"{c5}", "{_*c}", "{0c}", "{c<3}"})
        for (const char *arg : {"i32:65", "c:66"})
            if (mine()) g.put("f", "c", fs, false, {arg});
    // ---- integers and characters: alignment x pad x width x '#' x '+' x class x &N x item order
    const std::vector<std::string> aligns = {"", "<", ">"};
    const std::vector<std::string> pads = {"", "_*", "0", "0_*", "_*0", "_0"};
    const std::vector<std::string> classes = {"", "d", "x", "X", "o", "b", "c"};
    uint64_t combo = 0;
    for (const std::string &kind : INT_KINDS) {
        for (const std::string &val : int_values(kind)) {
            std::string arg = arg_tok(kind, val);
            for (const std::string &cls : classes)
                for (int hash = 0; hash < 2; ++hash)
                    for (int plus = 0; plus < 2; ++plus) {
                        FieldParts base; base.cls = cls; base.hash = hash ? "#" : ""; base.plus = plus ? "+" : "";
                        bool is_char_cls = cls == "c" && kind != "b";
                        size_t nat = natural_len(base, arg);
                        std::vector<long> widths = {0, (long)nat - 1, (long)nat, (long)nat + 1, (long)nat + 2, 40, 70};
                        for (const std::string &al : aligns)
                            for (const std::string &pd : pads)
                                for (long w : widths)
                                    for (int ref = 0; ref < 2; ++ref) {
                                        ++combo;
                                        if (w < 0) continue;
                                        if (is_char_cls && (w != 0 || !pd.empty())) continue;   // contract: no padding with 'c'
                                        if ((combo * 2654435761ULL + g.opt.seed) % keep_mod != 0) continue;
                                        FieldParts f = base; f.align = al; f.pad = pd; f.width = w ? std::to_string(w) : ""; f.ref = ref ? "&2" : "";
                                        if (combo % 5 == 0) f.prec = ".3";      // precision is ignored for integers
                                        unsigned order = (unsigned)(combo % 4);
                                        if (!order_ok(f, order)) order = 0;
                                        if (!order_ok(f, order)) continue;
                                        if (!mine()) continue;
                                        std::string route, m; g.route_of(combo, route, m);
                                        std::vector<std::string> args = ref ? std::vector<std::string>{"cs:7a7a", arg} : std::vector<std::string>{arg};
                                        g.put(route, m, build_field(f, order), false, args);
                                    }
                    }
        }
    }
    // ---- text and booleans: alignment x pad x width x precision x (ignored) class / '#' / '+'
    std::vector<std::string> text_args;
    for (const std::string &t : TEXTS) for (const std::string &kd : STR_KINDS) { if (kd == "cs" && t.find('\0') != std::string::npos) continue; text_args.push_back(arg_tok(kd, hex_bytes(t))); }
    text_args.push_back("b:1"); text_args.push_back("b:0"); text_args.push_back("cn");
    size_t narrow_args = text_args.size();
    // wide and char8_t text (pointer, std::basic_string, std::basic_string_view; null pointers)
    for (const std::string &t : W16_TEXTS) for (const std::string &kd : W16_KINDS) text_args.push_back(arg_tok(kd, t));
    for (const std::string &t : W32_TEXTS) for (const std::string &kd : W32_KINDS) text_args.push_back(arg_tok(kd, t));
    for (const std::string &t : TEXTS) for (const std::string &kd : U8_KINDS) text_args.push_back(arg_tok(kd, hex_bytes(t)));
    for (const std::string &kd : NULL_KINDS) text_args.push_back(kd);
    for (size_t ai = 0; ai < text_args.size(); ++ai) {
        const std::string &arg = text_args[ai];
        bool extra = ai >= narrow_args;         // the added kinds are sampled more thinly in the quick tier
        AnyArg pa = parse_arg(arg);
        long tl = pa.kind == "b" ? (pa.uv ? 4 : 5) : (long)pa.bytes.size();
        if (extra) tl = (long)natural_len(FieldParts(), arg);
        std::vector<long> widths = {0, tl - 1, tl, tl + 1, 40};
        std::vector<std::string> precs = {"", ".0", ".1", "." + std::to_string(tl), "." + std::to_string(tl > 0 ? tl - 1 : 0), ".100", ".", ".-1", ". 2", ".+2", ".4294967298"};
        for (const std::string &al : aligns)
            for (const std::string &pd : pads)
                for (long w : widths)
                    for (const std::string &pr : precs)
                        for (const char *cls : {"", "c", "x", "+#"}) {
                            ++combo;
                            if (w < 0) continue;
                            if (!thorough && (combo * 2654435761ULL + g.opt.seed) % (extra ? 9 : 3) != 0) continue;
                            if (thorough && extra && (combo * 2654435761ULL + g.opt.seed) % 2 != 0) continue;
                            FieldParts f; f.align = al; f.pad = pd; f.width = w ? std::to_string(w) : ""; f.prec = pr;
                            if (std::string(cls) == "+#") { f.plus = "+"; f.hash = "#"; } else f.cls = cls;
                            unsigned order = (unsigned)(combo % 4);
                            // a precision without digits re-reads the next byte as an item: keep it in front of '}' or a flag
                            if (!order_ok(f, order)) order = 0;
                            if (!order_ok(f, order)) continue;
                            if (!mine()) continue;
                            std::string route, m; g.route_of(combo, route, m);
                            g.put(route, m, build_field(f, order), false, {arg});
                        }
    }
    // ---- floating point: rendered by libc, padded by the library
    for (const char *arg0 : {"d", "fl"})
        for (double v : {1.5, -2.25, 0.0, 123456.789, 1e10, 1e-5})
            for (const std::string &al : aligns)
                for (const std::string &pd : pads)
                    for (long w : {0L, 5L, 12L, 30L})
                        for (const char *pr : {"", ".0", ".3", ".10"})
                            for (const char *cls : {"", "f", "e", "E"})
                                for (int plus = 0; plus < 2; ++plus) {
                                    ++combo;
                                    if ((combo * 2654435761ULL + g.opt.seed) % (thorough ? 2 : 12) != 0) continue;
                                    FieldParts f; f.align = al; f.pad = pd; f.width = w ? std::to_string(w) : ""; f.prec = pr; f.cls = cls; f.plus = plus ? "+" : "";
                                    unsigned order = (unsigned)(combo % 4);
                                    if (!order_ok(f, order)) order = 0;
                                    if (!order_ok(f, order)) continue;
                                    if (!mine()) continue;
                                    std::string route, m; g.route_of(combo, route, m);
                                    std::string a = std::string(arg0) == "d" ? "d:" + dbits(v) : "fl:" + fbits((float)v);
                                    g.put(route, m, build_field(f, order), false, {a});
                                }
    // ---- floating-point renderings of 63, 64, 65, 100, 300+ bytes: output in full, then padded
    gen_long_floats(g, thorough);
    // ---- 1..3 fields in all orders with 1..3 arguments, sequential and referenced mixed, literals and escapes between
    long nmulti = thorough ? 1200000 : 40000;
    for (long r = SL; r < nmulti; r += NS) {
        Rng rng(g.opt.seed * 0x9E3779B97F4A7C15ULL + (uint64_t)r * 2654435761ULL + 99);
        int nargs = 1 + (int)rng.below(3);
        std::vector<std::string> args; for (int i = 0; i < nargs; ++i) args.push_back(random_arg(rng, false));
        int nf = 1 + (int)rng.below(3);
        std::string s = random_literal(rng);
        for (int i = 0; i < nf; ++i) {
            FieldParts f;
            if (rng.chance(1, 2)) f.ref = "&" + std::to_string(rng.below((uint64_t)nargs + 2));
            f.align = rng.pick(aligns); f.pad = rng.pick(pads);
            if (rng.chance(1, 3)) f.hash = "#";
            if (rng.chance(1, 3)) f.plus = "+";
            if (rng.chance(2, 3)) f.width = std::to_string(1 + rng.below(24));
            if (rng.chance(1, 3)) f.prec = "." + std::to_string(rng.below(8));
            f.cls = rng.pick(classes);
            if (f.cls == "c") { f.width = ""; f.pad = ""; }
            unsigned order = (unsigned)rng.below(4);
            if (!order_ok(f, order)) order = 0;
            if (!order_ok(f, order)) { f.ref = ""; }
            s += build_field(f, order_ok(f, order) ? order : 0);
            s += random_literal(rng);
        }
        std::string route, m; g.route_of(rng.next(), route, m);
        g.put(route, m, s, false, args);
    }
}

static void gen(Emitter &em, const Options &opt) {
    Gen g(em, opt);
    bool c10 = opt.prop.empty() || opt.prop == "C10";
    if (c10) gen_c10(g);
    if (opt.prop == "C11") gen_c11(g);
}

int main(int argc, char **argv) {
    // a case that makes no progress for this long is a hang; the runner's default (4 s) is too tight when
    // several checks share the machine, and a format call that really loops will still be caught
    std::vector<char *> av; av.push_back(argv[0]);
    static char t0[] = "--timeout", t1[] = "12";
    av.push_back(t0); av.push_back(t1);
    for (int i = 1; i < argc; ++i) av.push_back(argv[i]);
    return run_main((int)av.size(), av.data(), gen, exec_case);
}
