// Correspondence harness for C12 (integer -> text -> integer): from_int / from_uint, ST::format,
// string_stream <<, the to_* members, and libc's strtol family as the reference for parsing.
#include "st_common.hpp"
#include <climits>
#include <cerrno>
using namespace vh;

// ------------------------------------------------------------------ type dispatch
// ty in s8 s16 s32 s64 sll u8 u16 u32 u64 ull  (s64 = long, sll = long long)
template <class F> static std::string with_ty(const std::string &ty, F f) {
    if (ty == "s8") return f((signed char)0);
    if (ty == "s16") return f((short)0);
    if (ty == "s32") return f((int)0);
    if (ty == "s64") return f((long)0);
    if (ty == "sll") return f((long long)0);
    if (ty == "u8") return f((unsigned char)0);
    if (ty == "u16") return f((unsigned short)0);
    if (ty == "u32") return f((unsigned int)0);
    if (ty == "u64") return f((unsigned long)0);
    if (ty == "ull") return f((unsigned long long)0);
    return "bad-ty";
}
template <class T> static T parse_val(const std::string &v) {
    if (std::is_signed<T>::value) return (T)strtoll(v.c_str(), nullptr, 10);
    return (T)strtoull(v.c_str(), nullptr, 10);
}
template <class T> static std::string show_val(T v) {
    if (std::is_signed<T>::value) return std::to_string((long long)v);
    return std::to_string((unsigned long long)v);
}

// from_int / from_uint only exist for the 16/32/64-bit types
template <class T> static ST::string lib_from(T v, int base, bool up) {
    if constexpr (sizeof(T) == 1) { return ST::string(); }
    else if constexpr (std::is_signed<T>::value) { if (!up && ST::string::from_int(v, base) != ST::string::from_int(v, base, false)) return ST::string("!default-argument-mismatch"); return ST::string::from_int(v, base, up); }
    else { if (!up && ST::string::from_uint(v, base) != ST::string::from_uint(v, base, false)) return ST::string("!default-argument-mismatch"); return ST::string::from_uint(v, base, up); }
}
template <class T> static ST::string lib_from_default(T v) {
    if constexpr (sizeof(T) == 1) { return ST::string(); }
    else if constexpr (std::is_signed<T>::value) return ST::string::from_int(v);
    else return ST::string::from_uint(v);
}

static const char *cls_fmt(const std::string &cls) {
    if (cls == "def") return "{}";
    if (cls == "d") return "{d}";
    if (cls == "x") return "{x}";
    if (cls == "X") return "{X}";
    if (cls == "o") return "{o}";
    if (cls == "b") return "{b}";
    return "{?}";
}
static const char *base_cls(int base, bool up) {
    switch (base) { case 10: return "def"; case 16: return up ? "X" : "x"; case 8: return "o"; case 2: return "b"; }
    return nullptr;
}

// stream insertion: the overload set has int/unsigned/long/unsigned long/long long/unsigned long long;
// 16-bit types promote to int (8-bit ones are deleted overloads)
template <class T> static std::string lib_stream(T v) {
    ST::string_stream ss;
    if constexpr (sizeof(T) == 1) { ss << (int)v; } else { ss << v; }
    return std::string(ss.raw_buffer(), ss.size());
}

// ------------------------------------------------------------------ parsing side
struct PRes { long long v; int flags; long long nv; };   // value with result, ok|full<<1, value of the overload without result

// the defaulted forms (no base argument = base 0): compared with the explicit call whenever the line asks for base 0
static bool g_default_mismatch = false;
#define VH_DEFAULTS(R, CALL) if (base == 0) { ST::conversion_result r0, rd; R a = s.CALL(r0, 0); R b = s.CALL(rd); R c = s.CALL(0); R d = s.CALL(); \
        if (a != b || c != d || r0.ok() != rd.ok() || r0.full_match() != rd.full_match()) g_default_mismatch = true; }

// a conversion_result that already carries the flags of an earlier successful parse: every to_*(result) call must overwrite them
static ST::conversion_result used_result() { ST::conversion_result r; (void)ST::string("7").to_long(r, 10); return r; }

template <class R, class F1, class F2> static std::string one_member(const char *name, F1 with_res, F2 without) {
    ST::conversion_result r = used_result();
    R v = with_res(r); R nv = without();
    std::string o = std::string(" ") + name + "=" + show_val(v) + "," + (r.ok() ? "1" : "0") + (r.full_match() ? "1" : "0") + "," + show_val(nv);
    return o;
}

// every to_* member of the requested signedness with at least `minbits` bits
static std::string members(const ST::string &s, int base, bool sgn, int minbits) {
    std::string o;
    g_default_mismatch = false;
    VH_DEFAULTS(short, to_short) VH_DEFAULTS(int, to_int) VH_DEFAULTS(long, to_long) VH_DEFAULTS(long long, to_long_long) VH_DEFAULTS(int64_t, to_int64)
    VH_DEFAULTS(unsigned short, to_ushort) VH_DEFAULTS(unsigned int, to_uint) VH_DEFAULTS(unsigned long, to_ulong) VH_DEFAULTS(unsigned long long, to_ulong_long) VH_DEFAULTS(uint64_t, to_uint64)
    if (g_default_mismatch) return " !default-argument-mismatch";
    if (sgn) {
        if (minbits <= 16) o += one_member<short>("short", [&](ST::conversion_result &r) { return s.to_short(r, base); }, [&] { return s.to_short(base); });
        if (minbits <= 32) o += one_member<int>("int", [&](ST::conversion_result &r) { return s.to_int(r, base); }, [&] { return s.to_int(base); });
        o += one_member<long>("long", [&](ST::conversion_result &r) { return s.to_long(r, base); }, [&] { return s.to_long(base); });
        o += one_member<long long>("llong", [&](ST::conversion_result &r) { return s.to_long_long(r, base); }, [&] { return s.to_long_long(base); });
        o += one_member<int64_t>("int64", [&](ST::conversion_result &r) { return s.to_int64(r, base); }, [&] { return s.to_int64(base); });
    } else {
        if (minbits <= 16) o += one_member<unsigned short>("ushort", [&](ST::conversion_result &r) { return s.to_ushort(r, base); }, [&] { return s.to_ushort(base); });
        if (minbits <= 32) o += one_member<unsigned int>("uint", [&](ST::conversion_result &r) { return s.to_uint(r, base); }, [&] { return s.to_uint(base); });
        o += one_member<unsigned long>("ulong", [&](ST::conversion_result &r) { return s.to_ulong(r, base); }, [&] { return s.to_ulong(base); });
        o += one_member<unsigned long long>("ullong", [&](ST::conversion_result &r) { return s.to_ulong_long(r, base); }, [&] { return s.to_ulong_long(base); });
        o += one_member<uint64_t>("uint64", [&](ST::conversion_result &r) { return s.to_uint64(r, base); }, [&] { return s.to_uint64(base); });
    }
    return o;
}

// libc reference on the same text (what the property names as the meaning of the to_* members)
static std::string libc_refs(const std::string &bytes, int base) {
    // exact-size heap copy with terminator
    char *p = new char[bytes.size() + 1]; memcpy(p, bytes.data(), bytes.size()); p[bytes.size()] = 0;
    std::string o; char *e;
    errno = 0; long l = strtol(p, &e, base);
    o += " l=" + std::to_string(l) + "," + std::to_string(e - p) + "," + (errno == ERANGE ? "1" : "0");
    errno = 0; unsigned long ul = strtoul(p, &e, base);
    o += " ul=" + std::to_string(ul) + "," + std::to_string(e - p) + "," + (errno == ERANGE ? "1" : "0");
    errno = 0; long long ll = strtoll(p, &e, base);
    o += " ll=" + std::to_string(ll) + "," + std::to_string(e - p) + "," + (errno == ERANGE ? "1" : "0");
    errno = 0; unsigned long long ull = strtoull(p, &e, base);
    o += " ull=" + std::to_string(ull) + "," + std::to_string(e - p) + "," + (errno == ERANGE ? "1" : "0");
    delete[] p;
    return o;
}

static std::string do_parse(const std::string &bytes, int base) {
    return guarded([&]() -> std::string {
        ST::string s = raw_string(bytes);
        if (s.size() != bytes.size()) return "!size";
        return "ok" + members(s, base, true, 16) + members(s, base, false, 16) + " |" + libc_refs(bytes, base);
    });
}

// ------------------------------------------------------------------ printing side
static std::string do_from(const std::string &ty, int base, bool up, const std::string &vs) {
    return with_ty(ty, [&](auto tag) -> std::string {
        typedef decltype(tag) T;
        return guarded([&]() -> std::string {
            T v = parse_val<T>(vs);
            ST::string s = lib_from<T>(v, base, up);
            std::string sh = shape(s.to_utf8()); if (!sh.empty()) return sh;
            if (base == 10 && !up && lib_from_default<T>(v) != s) return "route-mismatch";
            return "ok " + hex_bytes(str_bytes(s)) + members(s, base, std::is_signed<T>::value, sizeof(T) * 8);
        });
    });
}

static std::string do_fmt(const std::string &ty, const std::string &cls, const std::string &vs) {
    return with_ty(ty, [&](auto tag) -> std::string {
        typedef decltype(tag) T;
        return guarded([&]() -> std::string {
            T v = parse_val<T>(vs);
            ST::string s = ST::format(cls_fmt(cls), v);
            std::string sh = shape(s.to_utf8()); if (!sh.empty()) return sh;
            return "ok " + hex_bytes(str_bytes(s));
        });
    });
}

static std::string do_ss(const std::string &ty, const std::string &vs) {
    return with_ty(ty, [&](auto tag) -> std::string {
        typedef decltype(tag) T;
        return guarded([&]() -> std::string {
            T v = parse_val<T>(vs);
            return "ok " + hex_bytes(lib_stream<T>(v));
        });
    });
}

// ------------------------------------------------------------------ digest items
static void fnv_bytes(Fnv &f, const std::string &s) { for (unsigned char c : s) f.byte(c); f.byte(0xFF); }

template <class T> static void digest_print(Fnv &f, T v, int base, bool up, bool do_from_, bool do_fmt_, bool do_ss_) {
    if (do_from_) {
        ST::string s = lib_from<T>(v, base, up);
        fnv_bytes(f, str_bytes(s));
        ST::conversion_result r; long long back;
        if constexpr (std::is_signed<T>::value) {
            if constexpr (sizeof(T) == 2) back = s.to_short(r, base);
            else if constexpr (sizeof(T) == 4) back = s.to_int(r, base);
            else back = s.to_long_long(r, base);
        } else {
            if constexpr (sizeof(T) == 2) back = (long long)s.to_ushort(r, base);
            else if constexpr (sizeof(T) == 4) back = (long long)s.to_uint(r, base);
            else back = (long long)s.to_ulong_long(r, base);
        }
        f.u64((uint64_t)back); f.byte((r.ok() ? 1 : 0) | (r.full_match() ? 2 : 0));
    }
    if (do_fmt_) { const char *c = base_cls(base, up); fnv_bytes(f, str_bytes(ST::format(cls_fmt(c), v))); }
    if (do_ss_) fnv_bytes(f, lib_stream<T>(v));
}

static uint64_t mix64(uint64_t x) {
    x *= 0x9E3779B97F4A7C15ULL;
    x ^= x >> 30; x *= 0xBF58476D1CE4E5B9ULL;
    x ^= x >> 27; x *= 0x94D049BB133111EBULL;
    x ^= x >> 31; return x;
}
// pseudo-random 64-bit pattern number i of a block: half of them full-range, half shifted down by a
// random amount (all magnitudes), a quarter negated
static uint64_t rnd_value(uint64_t seed, uint64_t i) {
    uint64_t x = mix64(seed + i);
    if (i & 1) x >>= (mix64(seed + i + 0x51ED27) & 63);
    if ((i & 3) == 3) x = 0 - x;
    return x;
}

static std::string group_text(const std::string &alpha, uint64_t i, int len) {
    std::string g(len, ' ');
    for (int k = len - 1; k >= 0; --k) { g[k] = alpha[i % alpha.size()]; i /= alpha.size(); }
    return g;
}

static void digest_parse(Fnv &f, const std::string &bytes, int base) {
    // same content as the `parse` observation, as text
    f.str(do_parse(bytes, base));
}

static std::string exec_case(const Args &a) {
    const std::string &op = a.op;
    if (op == "num.from") return do_from(a.get("ty"), (int)a.num("base"), a.num("up") != 0, a.get("v"));
    if (op == "num.fmt") return do_fmt(a.get("ty"), a.get("cls"), a.get("v"));
    if (op == "num.ss") return do_ss(a.get("ty"), a.get("v"));
    if (op == "num.parse") return do_parse(parse_bytes(a.get("in")), (int)a.snum("base"));
    if (op == "num.bool") {   // to_bool() / to_bool(result): "true" / "false" in any letter case, otherwise to_int() != 0; from_bool of the value
        std::string bytes = parse_bytes(a.get("in"));
        return guarded([&]() -> std::string {
            ST::string s = raw_string(bytes);
            ST::conversion_result r = used_result();
            bool v = s.to_bool(), vr = s.to_bool(r);
            return std::string("ok v=") + (v ? "1" : "0") + " r=" + (vr ? "1" : "0") + "," + (r.ok() ? "1" : "0") + (r.full_match() ? "1" : "0") +
                   " fb=" + hex_bytes(str_bytes(ST::string::from_bool(v)));
        });
    }
    if (op == "blk.num.i16") {   // route=from|fmt|ss sgn=0|1 base= up= lo= n=   (value index 0..65535; signed: index - 32768)
        std::string route = a.get("route"); bool sgn = a.num("sgn") != 0; int base = (int)a.num("base"); bool up = a.num("up") != 0;
        uint64_t lo = a.num("lo"), n = a.num("n");
        if (a.has("expand")) {
            std::string out = "\x01";
            for (uint64_t i = lo; i < lo + n; ++i) {
                std::string ty = sgn ? "s16" : "u16";
                std::string vs = sgn ? std::to_string((long)i - 32768) : std::to_string(i);
                if (route == "from") out += "num.from ty=" + ty + " base=" + std::to_string(base) + " up=" + (up ? "1" : "0") + " v=" + vs + " => " + do_from(ty, base, up, vs) + "\n";
                else if (route == "fmt") out += "num.fmt ty=" + ty + " cls=" + base_cls(base, up) + " v=" + vs + " => " + do_fmt(ty, base_cls(base, up), vs) + "\n";
                else out += "num.ss ty=" + ty + " v=" + vs + " => " + do_ss(ty, vs) + "\n";
            }
            return out;
        }
        Fnv f;
        for (uint64_t i = lo; i < lo + n; ++i) {
            if (sgn) digest_print<short>(f, (short)((long)i - 32768), base, up, route == "from", route == "fmt", route == "ss");
            else digest_print<unsigned short>(f, (unsigned short)i, base, up, route == "from", route == "fmt", route == "ss");
        }
        return "digest " + f.hex();
    }
    if (op == "blk.num.rnd") {   // ty= base= up= seed= n= : from (+ fmt for the shared bases, + ss for base 10)
        std::string ty = a.get("ty"); int base = (int)a.num("base"); bool up = a.num("up") != 0;
        uint64_t seed = a.num("seed"), n = a.num("n");
        bool dofmt = base_cls(base, up) != nullptr && !(up && base != 16), doss = base == 10 && !up;
        if (a.has("expand")) {
            return with_ty(ty, [&](auto tag) -> std::string {
                typedef decltype(tag) T;
                std::string out = "\x01";
                for (uint64_t i = 0; i < n; ++i) {
                    std::string vs = show_val((T)rnd_value(seed, i));
                    out += "num.from ty=" + ty + " base=" + std::to_string(base) + " up=" + (up ? "1" : "0") + " v=" + vs + " => " + do_from(ty, base, up, vs) + "\n";
                    if (dofmt) out += "num.fmt ty=" + ty + " cls=" + base_cls(base, up) + " v=" + vs + " => " + do_fmt(ty, base_cls(base, up), vs) + "\n";
                    if (doss) out += "num.ss ty=" + ty + " v=" + vs + " => " + do_ss(ty, vs) + "\n";
                }
                return out;
            });
        }
        return with_ty(ty, [&](auto tag) -> std::string {
            typedef decltype(tag) T;
            Fnv f;
            for (uint64_t i = 0; i < n; ++i) digest_print<T>(f, (T)rnd_value(seed, i), base, up, true, dofmt, doss);
            return "digest " + f.hex();
        });
    }
    if (op == "blk.num.parse") {   // base= alpha=<hex> len= lo= n=
        int base = (int)a.snum("base"); std::string alpha = parse_bytes(a.get("alpha")); int len = (int)a.num("len");
        uint64_t lo = a.num("lo"), n = a.num("n");
        if (a.has("expand")) {
            std::string out = "\x01";
            for (uint64_t i = lo; i < lo + n; ++i) {
                std::string t = group_text(alpha, i, len);
                out += "num.parse base=" + std::to_string(base) + " in=" + hex_bytes(t) + " => " + do_parse(t, base) + "\n";
            }
            return out;
        }
        Fnv f;
        for (uint64_t i = lo; i < lo + n; ++i) digest_parse(f, group_text(alpha, i, len), base);
        return "digest " + f.hex();
    }
    return "bad-op";
}

// ------------------------------------------------------------------ generators
static const char *SIGNED_TYS[] = {"s16", "s32", "s64", "sll"};
static const char *UNSIGNED_TYS[] = {"u16", "u32", "u64", "ull"};
static int ty_bits(const std::string &ty) { return ty == "s8" || ty == "u8" ? 8 : ty == "s16" || ty == "u16" ? 16 : ty == "s32" || ty == "u32" ? 32 : 64; }

static void gen(Emitter &em, const Options &opt) {
    Rng rng(opt.seed);
    bool thorough = opt.tier == "thorough";
    uint64_t blk = 0;
    auto in_slice = [&](uint64_t k) { return (int)(k % opt.nslices) == opt.slice; };
    auto emit = [&](const std::string &l) { if (in_slice(blk++)) em.emit(l); };

    // ---- defect corpus: the most negative value of every signed type through every printer
    for (const char *ty : {"s8", "s16", "s32", "s64", "sll"}) {
        int bits = ty_bits(ty);
        std::string mn = bits == 64 ? "-9223372036854775808" : std::to_string(-(1LL << (bits - 1)));
        for (const char *cls : {"def", "d", "x", "X", "o", "b"}) emit(std::string("num.fmt ty=") + ty + " cls=" + cls + " v=" + mn);
        if (bits >= 16) emit(std::string("num.ss ty=") + ty + " v=" + mn);
        if (bits >= 16) for (int base : {2, 10, 16, 36}) emit(std::string("num.from ty=") + ty + " base=" + std::to_string(base) + " up=0 v=" + mn);
    }

    // ---- exhaustive 16-bit sweep: from_int/from_uint -> to_short/to_ushort, all 35 bases, both cases
    for (int sgn = 0; sgn <= 1; ++sgn)
        for (int base = 2; base <= 36; ++base)
            for (int up = 0; up <= 1; ++up)
                for (uint64_t lo = 0; lo < 65536; lo += 4096)
                    emit("blk.num.i16 route=from sgn=" + std::to_string(sgn) + " base=" + std::to_string(base) + " up=" + std::to_string(up) +
                         " lo=" + std::to_string(lo) + " n=4096");
    // ---- the same sweep through ST::format (bases 10, 16 both cases, 8, 2) and string_stream (base 10)
    for (int sgn = 0; sgn <= 1; ++sgn) {
        for (int base : {10, 16, 8, 2})
            for (int up = 0; up <= (base == 16 ? 1 : 0); ++up)
                for (uint64_t lo = 0; lo < 65536; lo += 4096)
                    emit("blk.num.i16 route=fmt sgn=" + std::to_string(sgn) + " base=" + std::to_string(base) + " up=" + std::to_string(up) +
                         " lo=" + std::to_string(lo) + " n=4096");
        for (uint64_t lo = 0; lo < 65536; lo += 4096)
            emit("blk.num.i16 route=ss sgn=" + std::to_string(sgn) + " base=10 up=0 lo=" + std::to_string(lo) + " n=4096");
    }

    // ---- 8/32/64-bit: 0, +-1, min, max, b^k, b^k +- 1 for all bases and k, every printer
    auto print_all = [&](const std::string &ty, int base, int up, const std::string &vs) {
        if (ty_bits(ty) >= 16) emit("num.from ty=" + ty + " base=" + std::to_string(base) + " up=" + std::to_string(up) + " v=" + vs);
        const char *c = base_cls(base, up != 0);
        if (c && !(up && base != 16)) emit("num.fmt ty=" + ty + " cls=" + c + " v=" + vs);
        if (base == 10 && !up) { emit("num.fmt ty=" + ty + " cls=d v=" + vs); if (ty_bits(ty) >= 16) emit("num.ss ty=" + ty + " v=" + vs); }
    };
    for (const char *tyc : {"s8", "s16", "s32", "s64", "sll", "u8", "u16", "u32", "u64", "ull"}) {
        std::string ty = tyc; int bits = ty_bits(ty); bool sgn = ty[0] == 's';
        unsigned __int128 maxv = sgn ? (((unsigned __int128)1 << (bits - 1)) - 1) : (((unsigned __int128)1 << bits) - 1);
        auto u128s = [](unsigned __int128 x) { std::string s; if (!x) return std::string("0"); while (x) { s.insert(s.begin(), char('0' + (int)(x % 10))); x /= 10; } return s; };
        for (int base = 2; base <= 36; ++base)
            for (int up = 0; up <= (base > 10 ? 1 : 0); ++up) {
                std::vector<std::string> vals = {"0", "1", u128s(maxv), u128s(maxv - 1)};
                if (sgn) { vals.push_back("-1"); vals.push_back("-" + u128s(maxv + 1)); vals.push_back("-" + u128s(maxv)); }
                unsigned __int128 p = 1;
                for (;;) {
                    p *= base; if (p - 1 > maxv + (sgn ? 1 : 0)) break;
                    for (int d = -1; d <= 1; ++d) {
                        unsigned __int128 x = p + d;
                        if (x <= maxv) vals.push_back(u128s(x));
                        if (sgn && x <= maxv + 1) vals.push_back("-" + u128s(x));
                    }
                }
                for (auto &v : vals) print_all(ty, base, up, v);
            }
    }

    // ---- random values of the 32/64-bit types (digest blocks; both sides generate the same sequence)
    {
        uint64_t total = thorough ? 20000000ULL : 1000000ULL, per = 2000, nblk = total / per;
        for (uint64_t k = 0; k < nblk; ++k) {
            const char *ty = (k & 1) ? UNSIGNED_TYS[1 + rng.below(3)] : SIGNED_TYS[1 + rng.below(3)];
            int base = (k % 3 == 0) ? (int)rng.pick(std::vector<int>{10, 16, 8, 2}) : 2 + (int)rng.below(35);
            int up = (int)rng.below(2);
            uint64_t seed = rng.next() >> 1;
            emit(std::string("blk.num.rnd ty=") + ty + " base=" + std::to_string(base) + " up=" + std::to_string(up) + " seed=" + std::to_string(seed) + " n=" + std::to_string(per));
        }
    }

    // ---- parsing direction: every string over the critical alphabet
    std::string alpha = std::string(" \t+-0179afzxX") + '\0' + '.';
    int maxlen = thorough ? 5 : 4;
    for (int base : {0, 2, 8, 10, 16, 36})
        for (int len = 0; len <= maxlen; ++len) {
            uint64_t tot = 1; for (int i = 0; i < len; ++i) tot *= alpha.size();
            for (uint64_t lo = 0; lo < tot; lo += 2048)
                emit("blk.num.parse base=" + std::to_string(base) + " alpha=" + hex_bytes(alpha) + " len=" + std::to_string(len) + " lo=" + std::to_string(lo) +
                     " n=" + std::to_string(std::min<uint64_t>(2048, tot - lo)));
        }
    // a second alphabet around the digit/letter boundaries of every base class and the other white-space characters
    std::string alpha2 = std::string("\n\v\f\r/:@G[`g{8") + '\x80' + '\xFF' + "bBoO_";
    for (int base : {0, 8, 10, 16, 17, 35, 36})
        for (int len = 1; len <= 3; ++len) {
            uint64_t tot = 1; for (int i = 0; i < len; ++i) tot *= alpha2.size();
            for (uint64_t lo = 0; lo < tot; lo += 2048)
                emit("blk.num.parse base=" + std::to_string(base) + " alpha=" + hex_bytes(alpha2) + " len=" + std::to_string(len) + " lo=" + std::to_string(lo) +
                     " n=" + std::to_string(std::min<uint64_t>(2048, tot - lo)));
        }

    // ---- booleans: the two words in every letter case, near misses, numerals (to_int() != 0, base 0), empty, NUL inside
    {
        std::vector<std::string> texts = {"", "0", "1", "-1", "00", "0x0", "0x10", "010", "  7", "7 ", "true ", " true", "tru", "truee", "fals", "false0", "yes", "no", "t", "f",
                                          "2147483648", "4294967296", "-2147483649", "+0", "-0", "0.5", "1e3", std::string("true\0", 5), std::string("\0true", 5), std::string("1\0", 2)};
        for (int mask = 0; mask < 16; ++mask) { std::string w = "true"; for (int i = 0; i < 4; ++i) if (mask >> i & 1) w[i] = (char)(w[i] - 32); texts.push_back(w); }
        for (int mask = 0; mask < 32; ++mask) { std::string w = "false"; for (int i = 0; i < 5; ++i) if (mask >> i & 1) w[i] = (char)(w[i] - 32); texts.push_back(w); }
        // bit-5 near misses of the letters (what a too-eager case fold would accept)
        for (const char *w : {"\x14rue", "tRU\x05", "fal\x13e", "F\x01LSE", "t\x12ue", "TRUE\x20", "tr\xD5" "e"}) texts.push_back(w);
        for (auto &t : texts) emit("num.bool in=" + hex_bytes(t));
    }

    // ---- near-overflow numerals in every base (individually): limits of every result type, +-1, one more digit,
    //      with sign / prefix / white space / trailing text variations
    {
        auto to_base = [](unsigned __int128 x, int base, bool up) {
            std::string s; if (!x) return std::string("0");
            while (x) { int d = (int)(x % base); s.insert(s.begin(), d < 10 ? char('0' + d) : char((up ? 'A' : 'a') + d - 10)); x /= base; }
            return s;
        };
        std::vector<unsigned __int128> mags;
        for (int bits : {15, 16, 31, 32, 63, 64}) {
            unsigned __int128 p = (unsigned __int128)1 << bits;
            for (int d = -2; d <= 2; ++d) mags.push_back(p + d);
        }
        mags.push_back(((unsigned __int128)1 << 64) * 36); mags.push_back(((unsigned __int128)1 << 100) + 12345);
        for (int base = 2; base <= 36; ++base)
            for (auto m : mags) {
                std::string digs = to_base(m, base, rng.chance(1, 2));
                for (const char *sign : {"", "-", "+"}) {
                    emit("num.parse base=" + std::to_string(base) + " in=" + hex_bytes(std::string(sign) + digs));
                    if (rng.chance(1, 4)) emit("num.parse base=" + std::to_string(base) + " in=" + hex_bytes(std::string(" \t") + sign + digs + "~"));
                    if (rng.chance(1, 4)) emit("num.parse base=" + std::to_string(base) + " in=" + hex_bytes(std::string(sign) + "000" + digs + std::string(1, '\0') + "1"));
                }
                if (base == 16) for (const char *pre : {"0x", "0X", "-0x", "+0X"}) emit("num.parse base=16 in=" + hex_bytes(std::string(pre) + digs));
                if (base == 16 || base == 8 || base == 10)
                    for (const char *sign : {"", "-"})
                        emit("num.parse base=0 in=" + hex_bytes(std::string(sign) + (base == 16 ? "0x" : base == 8 ? "0" : "") + digs));
            }
    }
    // ---- random numerals with decorations (seeded)
    {
        int nr = thorough ? 400000 : 40000;
        std::string digs36 = "0123456789abcdefghijklmnopqrstuvwxyzABCDEFGHIJKLMNOPQRSTUVWXYZ";
        for (int k = 0; k < nr; ++k) {
            int base = rng.chance(1, 5) ? 0 : 2 + (int)rng.below(35);
            std::string t;
            for (int i = (int)rng.below(3); i > 0; --i) t.push_back(rng.pick(std::vector<char>{' ', '\t', '\n', '\v', '\f', '\r'}));
            if (rng.chance(1, 3)) t.push_back(rng.chance(1, 2) ? '-' : '+');
            if (rng.chance(1, 4)) { t.push_back('0'); if (rng.chance(1, 2)) t.push_back(rng.chance(1, 2) ? 'x' : 'X'); }
            int nd = (int)rng.below(rng.chance(1, 8) ? 70 : 22);
            int eff = base == 0 ? 16 : base;   // the first `eff` entries of digs36 are the valid (lower-case) digits
            for (int i = 0; i < nd; ++i) t.push_back(digs36[rng.below(rng.chance(1, 10) ? digs36.size() : (uint64_t)eff)]);
            if (rng.chance(1, 3)) t.push_back(rng.pick(std::vector<char>{' ', '.', 'z', '\0', '-', 'x', '9'}));
            emit("num.parse base=" + std::to_string(base) + " in=" + hex_bytes(t));
        }
    }
}

int main(int argc, char **argv) {
    // facts of this platform the strtol model depends on (exit 2 = environment error, not a violation)
    char *e; const char *t = "0x"; long v = strtol(t, &e, 16);
    if (v != 0 || e != t + 1 || sizeof(long long) != 8) { fprintf(stderr, "harness: unexpected libc strtol behaviour on \"0x\"\n"); return 2; }
    t = "0b1"; v = strtol(t, &e, 0);
    if (v != 0 || e != t + 1) { fprintf(stderr, "harness: libc strtol accepts a 0b prefix (not glibc 2.36 behaviour)\n"); return 2; }
    // the machine is shared: a 4 s stall of a starved worker is not a hang; an explicit --timeout still wins
    std::vector<char *> av{argv[0], (char *)"--timeout", (char *)"30"};
    for (int i = 1; i < argc; ++i) av.push_back(argv[i]);
    return run_main((int)av.size(), av.data(), gen, exec_case);
}
