// Correspondence harness for C01 / C02 / C03 (Unicode conversions, every public route).
//   conv kind=free|from|to src=<u8|u16|u32|l1|w> dst=<u8|u16|u32|l1|w> route=<name> m=<a|s|c|d> sub=<0|1> in=<hex|N>
//   blk.conv kind=… src= dst= route= m= sub= pre=<hex> suf=<hex> lo= n=   (every scalar in [lo,lo+n), digest)
// Inputs live in exact-size heap blocks (no slack, no terminator unless the route needs one) so ASan sees
// any read outside [p, p+n).
#include "st_common.hpp"
#include <string>
#include <string_view>
using namespace vh;

#ifndef VH_DEFAULT_MODE
#define VH_DEFAULT_MODE "c"
#endif
// token for a mode; a defaulted mode also names what the default is in this build
static std::string mtok(const std::string &m) { return m == "d" ? std::string("m=d dflt=") + VH_DEFAULT_MODE : "m=" + m; }
static ST::utf_validation_t mode_of(const std::string &m) {
    if (m == "a") return ST::assume_valid;
    if (m == "s") return ST::substitute_invalid;
    return ST::check_validity;
}
static int width_of(const std::string &e) { return (e == "u8" || e == "l1") ? 8 : e == "u16" ? 16 : 32; }

template <class T> struct Exact {
    T *p; size_t n;
    Exact(const std::vector<uint64_t> &v, bool nul) : n(v.size()) {
        p = new T[n + (nul ? 1 : 0)];
        for (size_t i = 0; i < n; ++i) p[i] = (T)v[i];
        if (nul) p[n] = 0;
    }
    ~Exact() { delete[] p; }
    Exact(const Exact &) = delete;
};

template <class T> std::string show(const ST::buffer<T> &b) {
    std::string sh = shape(b); if (!sh.empty()) return sh;
    return "ok " + hex_units(b.data(), b.size());
}
static std::string show(const ST::string &s) {
    if (s.c_str()[s.size()] != 0) return "!noterm";
    return "ok " + hex_units(s.c_str(), s.size());
}
template <class C> std::string show_std(const std::basic_string<C> &s) { return "ok " + hex_units(s.data(), s.size()); }

static bool has_zero(const std::vector<uint64_t> &v) { for (auto x : v) if (!x) return true; return false; }

// ------------------------------------------------------------------ free functions
template <class S> static std::string free_from(const std::string &dst, const std::string &srcname, const std::string &route,
                                                const std::string &m, bool sub, const std::vector<uint64_t> &in, bool null) {
    Exact<S> ex(in, false);
    const S *p = null ? nullptr : ex.p; size_t n = null ? 0 : ex.n;
    auto V = mode_of(m);
    bool dflt = m == "d", buf = route == "buf";
    ST::buffer<S> sb = null ? ST::buffer<S>() : ST::buffer<S>(ex.p, ex.n);
    (void)sb;
    if constexpr (std::is_same<S, char>::value) {
        if (srcname == "u8") {
            if (dst == "u16") return show(buf ? (dflt ? ST::utf8_to_utf16(sb) : ST::utf8_to_utf16(sb, V)) : (dflt ? ST::utf8_to_utf16(p, n) : ST::utf8_to_utf16(p, n, V)));
            if (dst == "u32") return show(buf ? (dflt ? ST::utf8_to_utf32(sb) : ST::utf8_to_utf32(sb, V)) : (dflt ? ST::utf8_to_utf32(p, n) : ST::utf8_to_utf32(p, n, V)));
            if (dst == "w") return show(buf ? (dflt ? ST::utf8_to_wchar(sb) : ST::utf8_to_wchar(sb, V)) : (dflt ? ST::utf8_to_wchar(p, n) : ST::utf8_to_wchar(p, n, V)));
            if (dst == "l1") return show(buf ? (dflt ? ST::utf8_to_latin_1(sb) : ST::utf8_to_latin_1(sb, V, sub)) : (dflt ? ST::utf8_to_latin_1(p, n) : ST::utf8_to_latin_1(p, n, V, sub)));
            if (dst == "u16c8") return show(dflt ? ST::utf8_to_utf16((const char8_t *)p, n) : ST::utf8_to_utf16((const char8_t *)p, n, V));
        } else { // l1
            if (dst == "u8") return show(buf ? ST::latin_1_to_utf8(sb) : ST::latin_1_to_utf8(p, n));
            if (dst == "u16") return show(buf ? ST::latin_1_to_utf16(sb) : ST::latin_1_to_utf16(p, n));
            if (dst == "u32") return show(buf ? ST::latin_1_to_utf32(sb) : ST::latin_1_to_utf32(p, n));
            if (dst == "w") return show(buf ? ST::latin_1_to_wchar(sb) : ST::latin_1_to_wchar(p, n));
        }
    } else if constexpr (std::is_same<S, char16_t>::value) {
        if (dst == "u8") return show(buf ? (dflt ? ST::utf16_to_utf8(sb) : ST::utf16_to_utf8(sb, V)) : (dflt ? ST::utf16_to_utf8(p, n) : ST::utf16_to_utf8(p, n, V)));
        if (dst == "u32") return show(buf ? (dflt ? ST::utf16_to_utf32(sb) : ST::utf16_to_utf32(sb, V)) : (dflt ? ST::utf16_to_utf32(p, n) : ST::utf16_to_utf32(p, n, V)));
        if (dst == "w") return show(buf ? (dflt ? ST::utf16_to_wchar(sb) : ST::utf16_to_wchar(sb, V)) : (dflt ? ST::utf16_to_wchar(p, n) : ST::utf16_to_wchar(p, n, V)));
        if (dst == "l1") return show(buf ? (dflt ? ST::utf16_to_latin_1(sb) : ST::utf16_to_latin_1(sb, V, sub)) : (dflt ? ST::utf16_to_latin_1(p, n) : ST::utf16_to_latin_1(p, n, V, sub)));
    } else if constexpr (std::is_same<S, char32_t>::value) {
        if (dst == "u8") return show(buf ? (dflt ? ST::utf32_to_utf8(sb) : ST::utf32_to_utf8(sb, V)) : (dflt ? ST::utf32_to_utf8(p, n) : ST::utf32_to_utf8(p, n, V)));
        if (dst == "u16") return show(buf ? (dflt ? ST::utf32_to_utf16(sb) : ST::utf32_to_utf16(sb, V)) : (dflt ? ST::utf32_to_utf16(p, n) : ST::utf32_to_utf16(p, n, V)));
        if (dst == "w") return show(buf ? (dflt ? ST::utf32_to_wchar(sb) : ST::utf32_to_wchar(sb, V)) : (dflt ? ST::utf32_to_wchar(p, n) : ST::utf32_to_wchar(p, n, V)));
        if (dst == "l1") return show(buf ? (dflt ? ST::utf32_to_latin_1(sb) : ST::utf32_to_latin_1(sb, V, sub)) : (dflt ? ST::utf32_to_latin_1(p, n) : ST::utf32_to_latin_1(p, n, V, sub)));
    } else { // wchar_t
        if (dst == "u8") return show(buf ? (dflt ? ST::wchar_to_utf8(sb) : ST::wchar_to_utf8(sb, V)) : (dflt ? ST::wchar_to_utf8(p, n) : ST::wchar_to_utf8(p, n, V)));
        if (dst == "u16") return show(buf ? (dflt ? ST::wchar_to_utf16(sb) : ST::wchar_to_utf16(sb, V)) : (dflt ? ST::wchar_to_utf16(p, n) : ST::wchar_to_utf16(p, n, V)));
        if (dst == "u32") return show(buf ? (dflt ? ST::wchar_to_utf32(sb) : ST::wchar_to_utf32(sb, V)) : (dflt ? ST::wchar_to_utf32(p, n) : ST::wchar_to_utf32(p, n, V)));
        if (dst == "l1") return show(buf ? (dflt ? ST::wchar_to_latin_1(sb) : ST::wchar_to_latin_1(sb, V, sub)) : (dflt ? ST::wchar_to_latin_1(p, n) : ST::wchar_to_latin_1(p, n, V, sub)));
    }
    return "bad-route";
}

// ------------------------------------------------------------------ ST::string construction routes
// every route builds an ST::string from the source text; result = the string's bytes
template <class S> static std::string string_from(const std::string &srcname, const std::string &route, const std::string &m,
                                                  const std::vector<uint64_t> &in, bool null) {
    bool nulterm = route.size() > 2 && route.substr(route.size() - 2) == "_z";   // NUL-terminated (ST_AUTO_SIZE) route
    if (nulterm && has_zero(in)) return "skip";
    Exact<S> ex(in, nulterm);
    const S *p = null ? nullptr : ex.p; size_t n = null ? 0 : ex.n;
    auto V = mode_of(m); bool dflt = m == "d";
    typedef std::basic_string<S> SS; typedef std::basic_string_view<S> SV;
    // character concatenation, one unit at a time: every unit is widened on its own to a code point (char through unsigned
    // char = Latin-1, char16_t / wchar_t / char32_t as they are), so the result is the transcoding of the units read as scalars
    if (route == "plus_r") { ST::string s; for (size_t i = 0; i < n; ++i) s = s + p[i]; return show(s); }
    if (route == "plus_l") { ST::string s; for (size_t i = n; i-- > 0;) s = p[i] + s; return show(s); }
    if (route == "pluseq") { ST::string s; for (size_t i = 0; i < n; ++i) s += p[i]; return show(s); }
    if constexpr (std::is_same<S, char>::value) if (srcname == "l1") {
        if (route == "from_ptr") return show(ST::string::from_latin_1(p, n));
        if (route == "from_buf") return show(ST::string::from_latin_1(null ? ST::char_buffer() : ST::char_buffer(p, n)));
        if (route == "from_ptr_z") return show(ST::string::from_latin_1(p));
        return "bad-route";
    }
    ST::buffer<S> sb = null ? ST::buffer<S>() : ST::buffer<S>(ex.p, ex.n);
    if (route == "ctor_ptr") return show(dflt ? ST::string(p, n) : ST::string(p, n, V));
    if (route == "ctor_ptr_z") return show(ST::string(p));
    if (route == "set_ptr") { ST::string s("seed-value-long-enough-to-be-on-the-heap"); if (dflt) s.set(p, n); else s.set(p, n, V); return show(s); }
    if (route == "set_ptr_z") { ST::string s("x"); s.set(p); return show(s); }
    if (route == "assign_ptr_z") { ST::string s("x"); s = p; return show(s); }
    if (route == "ctor_buf") return show(dflt ? ST::string(sb) : ST::string(sb, V));
    if (route == "set_buf") { ST::string s("x"); if (dflt) s.set(sb); else s.set(sb, V); return show(s); }
    if (route == "assign_buf") { ST::string s("x"); s = sb; return show(s); }
    if (route == "ctor_std") { SS ss = p ? SS(p, n) : SS(); return show(dflt ? ST::string(ss) : ST::string(ss, V)); }
    if (route == "set_std") { SS ss = p ? SS(p, n) : SS(); ST::string s; if (dflt) s.set(ss); else s.set(ss, V); return show(s); }
    if (route == "assign_std") { SS ss = p ? SS(p, n) : SS(); ST::string s; s = ss; return show(s); }
    if (route == "from_std") { SS ss = p ? SS(p, n) : SS(); return show(dflt ? ST::string::from_std_string(ss) : ST::string::from_std_string(ss, V)); }
    if (route == "ctor_view") { SV sv(p, n); return show(dflt ? ST::string(sv) : ST::string(sv, V)); }
    if (route == "set_view") { SV sv(p, n); ST::string s; if (dflt) s.set(sv); else s.set(sv, V); return show(s); }
    if (route == "from_view") { SV sv(p, n); return show(dflt ? ST::string::from_std_string(sv) : ST::string::from_std_string(sv, V)); }
    if constexpr (std::is_same<S, char>::value) {
        if (route == "ctor_bufmove") { ST::char_buffer t(sb); return show(dflt ? ST::string(std::move(t)) : ST::string(std::move(t), V)); }
        if (route == "set_bufmove") { ST::char_buffer t(sb); ST::string s("x"); if (dflt) s.set(std::move(t)); else s.set(std::move(t), V); return show(s); }
        if (route == "assign_bufmove") { ST::char_buffer t(sb); ST::string s("x"); s = std::move(t); return show(s); }
        if (route == "from_ptr") return show(dflt ? ST::string::from_utf8(p, n) : ST::string::from_utf8(p, n, V));
        if (route == "from_ptr_z") return show(ST::string::from_utf8(p));
        if (route == "from_buf") return show(dflt ? ST::string::from_utf8(sb) : ST::string::from_utf8(sb, V));
        if (route == "ctor_c8") return show(dflt ? ST::string((const char8_t *)p, n) : ST::string((const char8_t *)p, n, V));
        if (route == "from_c8") return show(dflt ? ST::string::from_utf8((const char8_t *)p, n) : ST::string::from_utf8((const char8_t *)p, n, V));
        if (route == "ctor_u8std") { std::u8string ss((const char8_t *)(p ? p : ""), n); return show(dflt ? ST::string(ss) : ST::string(ss, V)); }
        if (route == "literal") { using namespace ST::literals; return show(operator""_st(p ? p : "", n)); }
        if (route == "validated") return show(ST::string::from_validated(p ? p : "", n));
        if (route == "validated_c8") return show(ST::string::from_validated((const char8_t *)(p ? p : ""), n));
        if (route == "literal_c8") { using namespace ST::literals; return show(operator""_st((const char8_t *)(p ? p : ""), n)); }
        if (route == "ctor_c8_z") return show(ST::string((const char8_t *)p));
        if (route == "from_c8_z") return show(ST::string::from_utf8((const char8_t *)p));
        if (route == "stbuf") { using namespace ST::literals; return show(ST::string(operator""_stbuf(p ? p : "", n))); }
        if (route == "stbuf_c8") { using namespace ST::literals; return show(ST::string(operator""_stbuf((const char8_t *)(p ? p : ""), n))); }
    } else if constexpr (std::is_same<S, char16_t>::value) {
        if (route == "from_ptr") return show(dflt ? ST::string::from_utf16(p, n) : ST::string::from_utf16(p, n, V));
        if (route == "from_ptr_z") return show(ST::string::from_utf16(p));
        if (route == "from_buf") return show(dflt ? ST::string::from_utf16(sb) : ST::string::from_utf16(sb, V));
        if (route == "literal") { using namespace ST::literals; return show(operator""_st(p ? p : u"", n)); }
        if (route == "stbuf") { using namespace ST::literals; return show(ST::string::from_utf16(operator""_stbuf(p ? p : u"", n))); }
    } else if constexpr (std::is_same<S, char32_t>::value) {
        if (route == "from_ptr") return show(dflt ? ST::string::from_utf32(p, n) : ST::string::from_utf32(p, n, V));
        if (route == "from_ptr_z") return show(ST::string::from_utf32(p));
        if (route == "from_buf") return show(dflt ? ST::string::from_utf32(sb) : ST::string::from_utf32(sb, V));
        if (route == "literal") { using namespace ST::literals; return show(operator""_st(p ? p : U"", n)); }
        if (route == "stbuf") { using namespace ST::literals; return show(ST::string::from_utf32(operator""_stbuf(p ? p : U"", n))); }
    } else {
        if (route == "from_ptr") return show(dflt ? ST::string::from_wchar(p, n) : ST::string::from_wchar(p, n, V));
        if (route == "from_ptr_z") return show(ST::string::from_wchar(p));
        if (route == "from_buf") return show(dflt ? ST::string::from_wchar(sb) : ST::string::from_wchar(sb, V));
        if (route == "from_stdw") { SS ss(p ? p : L"", n); return show(dflt ? ST::string::from_std_wstring(ss) : ST::string::from_std_wstring(ss, V)); }
        if (route == "literal") { using namespace ST::literals; return show(operator""_st(p ? p : L"", n)); }
        if (route == "stbuf") { using namespace ST::literals; return show(ST::string::from_wchar(operator""_stbuf(p ? p : L"", n))); }
    }
    return "bad-route";
}

// ------------------------------------------------------------------ ST::string -> encoding routes
// (every route that writes into a caller-supplied object is given one that already holds text: seeded C01-H left the
//  old text in place for an empty source)
static std::string string_to(const std::string &dst, const std::string &route, bool sub, const std::vector<uint64_t> &in) {
    std::string bytes; for (auto x : in) bytes.push_back((char)x);
    ST::string s = raw_string(bytes);
    if (dst == "u8") {
        if (route == "member") return show(s.to_utf8());
        if (route == "buffer") { ST::char_buffer b("seed", 4); s.to_buffer(b); return show(b); }
        if (route == "std") return show_std(s.to_std_string());
        if (route == "std_ref") { std::string r("stale text of an earlier call"); s.to_std_string(r); return show_std(r); }
        if (route == "u8std_ref") { std::u8string r(u8"stale text of an earlier call"); s.to_std_string(r); return show_std(r); }
        if (route == "view") { auto v = s.view(); return "ok " + hex_units(v.data(), v.size()); }
        if (route == "u8std") return show_std(s.to_std_u8string());
    } else if (dst == "u16") {
        if (route == "member") return show(s.to_utf16());
        if (route == "buffer") { ST::utf16_buffer b(u"stale text of an earlier call", 29); s.to_buffer(b); return show(b); }
        if (route == "std") return show_std(s.to_std_u16string());
        if (route == "std_ref") { std::u16string r(u"stale text of an earlier call"); s.to_std_string(r); return show_std(r); }
    } else if (dst == "u32") {
        if (route == "member") return show(s.to_utf32());
        if (route == "buffer") { ST::utf32_buffer b(U"stale text of an earlier call", 29); s.to_buffer(b); return show(b); }
        if (route == "std") return show_std(s.to_std_u32string());
        if (route == "std_ref") { std::u32string r(U"stale text of an earlier call"); s.to_std_string(r); return show_std(r); }
    } else if (dst == "w") {
        if (route == "member") return show(s.to_wchar());
        if (route == "buffer") { ST::wchar_buffer b(L"stale text of an earlier call", 29); s.to_buffer(b); return show(b); }
        if (route == "std") return show_std(s.to_std_wstring());
        if (route == "std_ref") { std::wstring r(L"stale text of an earlier call"); s.to_std_string(r); return show_std(r); }
    } else if (dst == "l1") {
        if (route == "member") return show(sub ? same_as_default(s.to_latin_1(sub), s.to_latin_1()) : s.to_latin_1(sub));      // substitute_out_of_range defaults to true
        if (route == "buffer") { ST::char_buffer b("stale text of an earlier call", 29); s.to_buffer(b, false, sub); return show(b); }
        if (route == "std") return show_std(sub ? same_as_default(s.to_std_string(false, sub), s.to_std_string(false)) : s.to_std_string(false, sub));
        if (route == "std_ref") { std::string r("stale text of an earlier call"); s.to_std_string(r, false, sub); return show_std(r); }
    }
    return "bad-route";
}

static std::string run_conv(const std::string &kind, const std::string &src, const std::string &dst, const std::string &route,
                            const std::string &m, bool sub, const std::vector<uint64_t> &in, bool null) {
    return guarded([&]() -> std::string {
        if (kind == "free") {
            if (src == "u8" || src == "l1") return free_from<char>(dst, src, route, m, sub, in, null);
            if (src == "u16") return free_from<char16_t>(dst, src, route, m, sub, in, null);
            if (src == "u32") return free_from<char32_t>(dst, src, route, m, sub, in, null);
            return free_from<wchar_t>(dst, src, route, m, sub, in, null);
        }
        if (kind == "from") {
            if (src == "u8" || src == "l1") return string_from<char>(src, route, m, in, null);
            if (src == "u16") return string_from<char16_t>(src, route, m, in, null);
            if (src == "u32") return string_from<char32_t>(src, route, m, in, null);
            return string_from<wchar_t>(src, route, m, in, null);
        }
        return string_to(dst, route, sub, in);
    });
}

// independent encoders for generated inputs (the standard encodings; never the library's)
static void enc(const std::string &e, uint32_t c, std::vector<uint64_t> &out) {
    if (e == "u8") {
        if (c < 0x80) out.push_back(c);
        else if (c < 0x800) { out.push_back(0xC0 + c / 64); out.push_back(0x80 + c % 64); }
        else if (c < 0x10000) { out.push_back(0xE0 + c / 4096); out.push_back(0x80 + c / 64 % 64); out.push_back(0x80 + c % 64); }
        else { out.push_back(0xF0 + c / 262144); out.push_back(0x80 + c / 4096 % 64); out.push_back(0x80 + c / 64 % 64); out.push_back(0x80 + c % 64); }
    } else if (e == "u16") {
        if (c < 0x10000) out.push_back(c); else { out.push_back(0xD800 + (c - 0x10000) / 1024); out.push_back(0xDC00 + (c - 0x10000) % 1024); }
    } else out.push_back(c);
}
static std::string enc_hex(const std::string &e, const std::vector<uint32_t> &s) {
    std::vector<uint64_t> u; for (auto c : s) enc(e, c, u); return hex_u64s(u, width_of(e));
}

static std::string exec_case(const Args &a) {
    if (a.op == "conv") {
        bool null = a.get("in") == "N";
        std::vector<uint64_t> in = null ? std::vector<uint64_t>() : parse_units(a.get("in"), a.get("kind") == "to" ? 8 : width_of(a.get("src")));
        return run_conv(a.get("kind"), a.get("src"), a.get("dst"), a.get("route"), a.get("m"), a.num("sub", 1) != 0, in, null);
    }
    if (a.op == "reval") {
        // substitute_invalid output fed back through check_validity of the target encoding
        std::string src = a.get("src"), dst = a.get("dst");
        std::vector<uint64_t> in = parse_units(a.get("in"), width_of(src));
        std::string first = run_conv(dst == "u8" ? "from" : "free", src, dst, dst == "u8" && src == "u8" ? "set_buf" : (dst == "u8" ? "ctor_buf" : "ptr"), "s", true, in, false);
        if (first.rfind("ok ", 0) != 0) return "first:" + first.substr(0, first.find(' '));
        std::vector<uint64_t> mid = parse_units(first.substr(3), width_of(dst));
        std::string second = dst == "u8" ? run_conv("from", "u8", "u8", "ctor_buf", "c", true, mid, false)
                                         : run_conv("free", dst, "u8", "ptr", "c", true, mid, false);
        return second.rfind("ok", 0) == 0 ? "valid" : second == "throw unicode_error" ? "invalid" : "second:" + second;
    }
    if (a.op == "blk.conv") {
        std::string src = a.get("src"), kind = a.get("kind");
        std::string inenc = kind == "to" ? "u8" : src;
        int w = width_of(inenc);
        std::vector<uint64_t> pre = parse_units(a.get("pre"), w), suf = parse_units(a.get("suf"), w);
        uint64_t lo = a.num("lo"), n = a.num("n");
        Fnv f; std::string out = "\x01";
        for (uint64_t c = lo; c < lo + n; ++c) {
            if (c >= 0xD800 && c < 0xE000) continue;
            std::vector<uint64_t> in = pre; enc(inenc, (uint32_t)c, in); in.insert(in.end(), suf.begin(), suf.end());
            std::string r = run_conv(kind, src, a.get("dst"), a.get("route"), a.get("m"), a.num("sub", 1) != 0, in, false);
            if (a.has("expand"))
                out += "conv kind=" + kind + " src=" + src + " dst=" + a.get("dst") + " route=" + a.get("route") + " " + mtok(a.get("m")) + " sub=" + a.get("sub") +
                       " in=" + hex_u64s(in, w) + " => " + r + "\n";
            else f.str(r);
        }
        return a.has("expand") ? out : "digest " + f.hex();
    }
    return "bad-op";
}

// ------------------------------------------------------------------ generators
struct RouteSet {
    std::vector<std::string> from_routes(const std::string &src) const {
        std::vector<std::string> r = {"ctor_ptr", "ctor_ptr_z", "set_ptr", "set_ptr_z", "assign_ptr_z", "ctor_buf", "set_buf", "assign_buf", "ctor_std", "set_std",
                                      "assign_std", "from_std", "ctor_view", "set_view", "from_view", "from_ptr", "from_ptr_z", "from_buf", "literal"};
        if (src == "u8") for (const char *x : {"ctor_bufmove", "set_bufmove", "assign_bufmove", "ctor_c8", "from_c8", "ctor_u8std", "validated",
                                               "validated_c8", "literal_c8", "ctor_c8_z", "from_c8_z", "stbuf_c8"}) r.push_back(x);
        if (src == "w") r.push_back("from_stdw");
        r.push_back("stbuf");
        if (src != "u8") for (const char *x : {"plus_r", "plus_l", "pluseq"}) r.push_back(x);
        if (src == "l1") r = {"from_ptr", "from_buf", "from_ptr_z", "plus_r", "plus_l", "pluseq"};
        return r;
    }
    std::vector<std::string> to_routes(const std::string &dst) const {
        if (dst == "u8") return {"member", "buffer", "std", "std_ref", "view", "u8std", "u8std_ref"};
        if (dst == "l1") return {"member", "buffer", "std", "std_ref"};
        return {"member", "buffer", "std", "std_ref"};
    }
};

// which mode a route really applies when the line says m=X (routes without a mode parameter)
static bool route_takes_mode(const std::string &route) {
    return !(route.size() > 2 && route.substr(route.size() - 2) == "_z") && route.rfind("assign_", 0) != 0 && route != "literal" && route != "validated" &&
           route != "validated_c8" && route != "literal_c8" && route.rfind("stbuf", 0) != 0 && route.rfind("plus", 0) != 0;
}

static const std::vector<std::string> ENCS = {"u8", "u16", "u32", "w", "l1"};

static void emit_all_routes(Emitter &em, const std::string &src, const std::vector<uint64_t> &units, const std::vector<std::string> &modes, bool also_null) {
    RouteSet rs; int w = width_of(src);
    std::string in = hex_u64s(units, w);
    // free functions
    for (const auto &dst : ENCS) {
        if (dst == src || (src == "l1" && dst == "l1")) continue;
        if (src == "l1" && dst == "u8") {}
        for (const char *route : {"ptr", "buf"}) {
            if (src == "l1") { em.emit("conv kind=free src=l1 dst=" + dst + " route=" + route + " m=c sub=1 in=" + in); continue; }
            if (dst == "u8" && src == "u8") continue;
            for (const auto &m : modes)
                for (int sub = (dst == "l1" ? 0 : 1); sub <= 1; ++sub) {
                    if (m == "d" && sub == 0) continue;
                    em.emit("conv kind=free src=" + src + " dst=" + dst + " route=" + route + " " + mtok(m) + " sub=" + std::to_string(sub) + " in=" + in);
                }
        }
    }
    if (src == "u8") for (const auto &m : modes) em.emit("conv kind=free src=u8 dst=u16c8 route=ptr " + mtok(m) + " sub=1 in=" + in);
    // string construction
    for (const auto &route : rs.from_routes(src)) {
        if (route_takes_mode(route) && src != "l1") { for (const auto &m : modes) em.emit("conv kind=from src=" + src + " dst=u8 route=" + route + " " + mtok(m) + " sub=1 in=" + in); }
        else em.emit("conv kind=from src=" + src + " dst=u8 route=" + route + " " + mtok("d") + " sub=1 in=" + in);
    }
    if (also_null) {
        for (const auto &dst : ENCS) if (dst != src && !(src == "l1" && dst == "l1") && !(src == "u8" && dst == "u8"))
            em.emit("conv kind=free src=" + src + " dst=" + dst + " route=ptr m=c sub=1 in=N");
        for (const char *route : {"ctor_ptr", "set_ptr", "from_ptr", "ctor_ptr_z", "assign_ptr_z"})
            if (src != "l1" || std::string(route) == "from_ptr") em.emit("conv kind=from src=" + src + " dst=u8 route=" + route + " m=c sub=1 in=N");
    }
}

static void emit_to_routes(Emitter &em, const std::vector<uint64_t> &bytes) {
    RouteSet rs; std::string in = hex_u64s(bytes, 8);
    for (const auto &dst : ENCS)
        for (const auto &route : rs.to_routes(dst))
            for (int sub = (dst == "l1" ? 0 : 1); sub <= 1; ++sub)
                em.emit("conv kind=to src=u8 dst=" + dst + " route=" + route + " m=a sub=" + std::to_string(sub) + " in=" + in);
}

static void all_strings(const std::vector<uint64_t> &alpha, int maxlen, const std::function<void(const std::vector<uint64_t> &)> &f) {
    std::vector<uint64_t> cur;
    std::function<void(int)> rec = [&](int depth) {
        f(cur);
        if (depth == maxlen) return;
        for (auto a : alpha) { cur.push_back(a); rec(depth + 1); cur.pop_back(); }
    };
    rec(0);
}

static void gen(Emitter &em, const Options &opt) {
    Rng rng(opt.seed);
    bool thorough = opt.tier == "thorough";
    uint64_t k = 0;
    auto in_slice = [&]() { return (int)(k++ % opt.nslices) == opt.slice; };
    const std::vector<std::string> modes3 = {"c", "s", "a"}, modes4 = {"c", "s", "a", "d"};
    std::string prop = opt.prop;
    bool c01 = prop.empty() || prop == "C01", c02 = prop.empty() || prop == "C02", c03 = prop.empty() || prop == "C03";

    if (c01) {
        // (1) every scalar alone (quick) / in 5x5 contexts (thorough) through the core directions x 3 modes, as block digests
        std::vector<uint32_t> ctx = {0, 0x41, 0xE9, 0x20AC, 0x1F600};   // 0 = no neighbour
        struct Dir { const char *kind, *src, *dst, *route; };
        std::vector<Dir> dirs = {{"free", "u8", "u16", "ptr"}, {"free", "u8", "u32", "ptr"}, {"free", "u16", "u8", "ptr"}, {"free", "u16", "u32", "ptr"},
                                 {"free", "u32", "u8", "ptr"}, {"free", "u32", "u16", "ptr"}, {"free", "u8", "w", "buf"}, {"free", "w", "u8", "buf"},
                                 {"free", "w", "u16", "ptr"}, {"free", "u16", "w", "ptr"}, {"from", "u8", "u8", "ctor_ptr"}, {"from", "u16", "u8", "ctor_buf"},
                                 {"from", "u32", "u8", "from_ptr"}, {"from", "w", "u8", "ctor_std"}, {"to", "u8", "u16", "member"}, {"to", "u8", "u32", "std"},
                                 {"to", "u8", "w", "buffer"}, {"to", "u8", "u8", "member"}, {"free", "u8", "l1", "ptr"}, {"free", "u16", "l1", "ptr"}, {"free", "u32", "l1", "ptr"}};
        for (const auto &d : dirs)
            for (const auto &m : modes3) {
                if (std::string(d.kind) == "to" && m != "a") continue;
                for (uint32_t pc : ctx) for (uint32_t sc : ctx) {
                    if (!thorough && (pc || sc) && !(pc == 0x20AC && sc == 0x1F600)) continue;
                    std::string inenc = std::string(d.kind) == "to" ? "u8" : d.src;
                    std::string pre = pc ? enc_hex(inenc, {pc}) : "-", suf = sc ? enc_hex(inenc, {sc}) : "-";
                    for (uint32_t lo = 0; lo < 0x110000; lo += 8192) if (in_slice())
                        em.emit(std::string("blk.conv kind=") + d.kind + " src=" + d.src + " dst=" + d.dst + " route=" + d.route + " " + mtok(m) +
                                " sub=1 pre=" + pre + " suf=" + suf + " lo=" + std::to_string(lo) + " n=8192");
                }
            }
        // (2) boundary scalars and neighbours, in all 25 contexts, through *all* routes
        std::vector<uint32_t> bnd = {0, 1, 0x7F, 0x80, 0x7FF, 0x800, 0xD7FF, 0xE000, 0xFFFD, 0xFFFF, 0x10000, 0x10FFFF, 0xFF, 0x100};
        for (uint32_t c : bnd) for (uint32_t pc : ctx) for (uint32_t sc : ctx) {
            std::vector<uint32_t> s; if (pc) s.push_back(pc); s.push_back(c); if (sc) s.push_back(sc);
            if (!in_slice()) continue;
            for (const auto &src : ENCS) {
                if (src == "l1") continue;
                std::vector<uint64_t> u; for (auto x : s) enc(src, x, u);
                emit_all_routes(em, src, u, modes4, false);
            }
            std::vector<uint64_t> b; for (auto x : s) enc("u8", x, b);
            emit_to_routes(em, b);
        }
        // the empty string through every outward route (a destination that already holds text must end up empty)
        if (in_slice()) emit_to_routes(em, {});
        // (3) all 256 Latin-1 bytes in first / interior / last position
        for (int b = 0; b < 256; ++b) for (int pos = 0; pos < 3; ++pos) {
            std::vector<uint64_t> u = {0x41, 0xE9}; u.insert(u.begin() + pos, (uint64_t)b);
            if (!in_slice()) continue;
            emit_all_routes(em, "l1", u, {"c"}, b == 0 && pos == 0);
            // and back: UTF-8 of those code points -> Latin-1
            std::vector<uint64_t> e8; for (auto x : u) enc("u8", (uint32_t)x, e8);
            for (int sub = 0; sub <= 1; ++sub) em.emit("conv kind=to src=u8 dst=l1 route=member m=a sub=" + std::to_string(sub) + " in=" + hex_u64s(e8, 8));
        }
        // (4) random scalar sequences
        int nrand = thorough ? 60000 : 3000; std::map<int, int> widthmix;
        for (int i = 0; i < nrand; ++i) {
            size_t len = rng.below(41); std::vector<uint32_t> s;
            for (size_t j = 0; j < len; ++j) {
                uint32_t c; unsigned cls = (unsigned)rng.below(4);
                if (cls == 0) c = (uint32_t)rng.below(0x80); else if (cls == 1) c = 0x80 + (uint32_t)rng.below(0x780);
                else if (cls == 2) { do c = 0x800 + (uint32_t)rng.below(0xF800); while (c >= 0xD800 && c < 0xE000); } else c = 0x10000 + (uint32_t)rng.below(0x100000);
                s.push_back(c);
            }
            if (!in_slice()) continue;
            const std::string &src = ENCS[rng.below(4)];
            std::vector<uint64_t> u; for (auto x : s) enc(src, x, u);
            emit_all_routes(em, src, u, modes4, false);
            if (i % 4 == 0) { std::vector<uint64_t> b; for (auto x : s) enc("u8", x, b); emit_to_routes(em, b); }
        }
    }
    if (c02 || c03) {
        // exhaustive strings over critical alphabets, every route reading that encoding, every mode
        std::vector<uint64_t> a8 = {0x00, 0x41, 0x7F, 0x80, 0xBF, 0xC2, 0xDF, 0xE0, 0xED, 0xEF, 0xF0, 0xF4, 0xF7, 0xF8};
        std::vector<uint64_t> a8b = {0xC0, 0xC1, 0xF5, 0xFF, 0x80, 0x41};
        std::vector<uint64_t> a16 = {0x0041, 0xD7FF, 0xD800, 0xDBFF, 0xDC00, 0xDFFF, 0xE000, 0xFFFF};
        std::vector<uint64_t> a32 = {0x41, 0xD800, 0xFFFF, 0x10000, 0x10FFFF, 0x110000, 0x1FFFFF, 0x7FFFFFFF, 0xFFFFFFFF};
        int l8 = thorough ? 5 : 4, l16 = thorough ? 5 : 4, l32 = thorough ? 4 : 3;
        auto sweep = [&](const std::string &src, const std::vector<uint64_t> &alpha, int maxlen, bool full_routes_every) {
            uint64_t idx = 0;
            all_strings(alpha, maxlen, [&](const std::vector<uint64_t> &u) {
                ++idx;
                if (!in_slice()) return;
                // all routes for short strings and a rotating sample of long ones; the core routes for all
                if (u.size() <= 3 || full_routes_every || idx % 7 == 0) emit_all_routes(em, src, u, modes4, u.empty());
                else {
                    std::string in = hex_u64s(u, width_of(src));
                    for (const auto &m : modes3) {
                        for (const auto &dst : ENCS) if (dst != src && !(src == "u8" && dst == "u8") )
                            for (int sub = (dst == "l1" ? 0 : 1); sub <= 1; ++sub)
                                em.emit("conv kind=free src=" + src + " dst=" + dst + " route=ptr m=" + m + " sub=" + std::to_string(sub) + " in=" + in);
                        em.emit("conv kind=from src=" + src + " dst=u8 route=ctor_ptr " + mtok(m) + " sub=1 in=" + in);
                    }
                }
                if (src == "u8" && u.size() <= 4) emit_to_routes(em, u);   // ST::string holding arbitrary bytes (assume_valid) converted out
                if (src != "w" && u.size() <= 4 && c02)
                    for (const char *dst : {"u8", "u16", "u32"}) if (src != dst || src == "u8")
                        em.emit("reval src=" + src + " dst=" + dst + " in=" + hex_u64s(u, width_of(src)));
            });
        };
        sweep("u8", a8, l8, false);
        sweep("u8", a8b, 3, true);
        sweep("u16", a16, l16, false);
        sweep("u32", a32, l32, false);
        sweep("w", a32, thorough ? 3 : 2, true);
        // every sizing boundary of every target encoding (1/2/3/4-byte and 1/2-unit results), alone and repeated, so that a
        // measure pass and a fill pass that disagree at one boundary value are seen (one occurrence loses the terminator,
        // two overrun the block)
        {
            std::vector<uint32_t> bnd = {0x41, 0x7F, 0x80, 0xFF, 0x100, 0x7FF, 0x800, 0x801, 0xD7FF, 0xE000, 0xFFFF, 0x10000, 0x10001, 0x10FFFF};
            std::vector<uint64_t> bidx; for (size_t i = 0; i < bnd.size(); ++i) bidx.push_back(i);
            for (const auto &src : ENCS) {
                if (src == "l1") continue;
                all_strings(bidx, 2, [&](const std::vector<uint64_t> &ix) {
                    if (ix.empty() || !in_slice()) return;
                    std::vector<uint64_t> u; for (auto i : ix) enc(src, bnd[i], u);
                    emit_all_routes(em, src, u, modes3, false);
                    std::vector<uint64_t> rep; for (int r = 0; r < 3; ++r) for (auto i : ix) enc(src, bnd[i], rep);
                    emit_all_routes(em, src, rep, {"c"}, false);
                });
            }
        }
        // valid text with one malformed unit spliced at every position / cut at every unit (C03)
        std::vector<uint32_t> text = {0x41, 0xE9, 0x20AC, 0x1F600, 0x7A, 0x10FFFF, 0x7FF};
        for (const auto &src : {std::string("u8"), std::string("u16"), std::string("u32")}) {
            std::vector<uint64_t> u; for (auto x : text) enc(src, x, u);
            std::vector<uint64_t> bads = src == "u8" ? std::vector<uint64_t>{0x80, 0xC2, 0xE0, 0xF0, 0xF8, 0xFF, 0xED}
                                      : src == "u16" ? std::vector<uint64_t>{0xD800, 0xDC00, 0xDBFF, 0xDFFF} : std::vector<uint64_t>{0x110000, 0xFFFFFFFF, 0xD800};
            for (size_t pos = 0; pos <= u.size(); ++pos) {
                if (in_slice()) { std::vector<uint64_t> cut(u.begin(), u.begin() + pos); emit_all_routes(em, src, cut, modes4, false); }
                for (auto b : bads) {
                    if (!in_slice()) continue;
                    std::vector<uint64_t> v = u; v.insert(v.begin() + pos, b); emit_all_routes(em, src, v, modes3, false);
                    if (pos < u.size()) { std::vector<uint64_t> r = u; r[pos] = b; emit_all_routes(em, src, r, modes3, false); }
                }
            }
        }
        // random garbage
        int nrand = thorough ? 100000 : 6000;
        for (int i = 0; i < nrand; ++i) {
            const std::string &src = ENCS[rng.below(4)];
            size_t len = rng.below(24); std::vector<uint64_t> u;
            for (size_t j = 0; j < len; ++j) {
                uint64_t x;
                if (src == "u8") x = rng.chance(1, 3) ? rng.below(256) : rng.pick(a8);
                else if (src == "u16") x = rng.chance(1, 3) ? rng.below(65536) : rng.chance(1, 2) ? 0xD800 + rng.below(0x800) : rng.pick(a16);
                else x = rng.chance(1, 3) ? rng.below(0x200000) : rng.chance(1, 4) ? rng.next() & 0xFFFFFFFF : rng.pick(a32);
                u.push_back(x);
            }
            if (!in_slice()) continue;
            emit_all_routes(em, src, u, modes4, false);
            if (src == "u8") emit_to_routes(em, u);
        }
    }
}

int main(int argc, char **argv) { return run_main(argc, argv, gen, exec_case); }
