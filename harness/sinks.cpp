// Correspondence harness for C17 (every output sink emits the same bytes; stream insertion / extraction).
//   sk.fmt dm=<c|s|a> fmt=<hex|-|N> args=<a;b;c|-> [fr=<float renderings>]
//     => f=<R> p=<R> o=<R> l=<R> w=<R> h=<R> u=<R>        R = ok:<hex units> | throw:<kind>
//        f = ST::format(fmt, args…)                        (bytes of the returned string)
//        p = ST::printf(FILE*, fmt, args…) into open_memstream
//        o = ST::writef(std::ostringstream&, …)
//        l = ST::format_latin_1(fmt, args…)
//        w = ST::writef(std::wostringstream&, …)           (32-bit units)
//        h = ST::writef(std::basic_ostringstream<char16_t>&, …)
//        u = ST::writef(std::basic_ostringstream<char32_t>&, …)
//   sk.ins t=<c|w|h|u> s=<hex bytes> wd=<width> fill=<hex unit|-> adj=<l|r|i|->
//     => ok:<hex units> wd=<width() afterwards> good=<0|1>          stream << std::setw… << ST::string
//   sk.ext t=<c|w> dm=<c|s|a> in=<hex units>
//     => <tok>/<R>/<=|!> …      one group per `stream >> ST::string` until the extraction fails: the token a
//        std::basic_string extraction takes from an identical stream, the ST::string afterwards (or the exception),
//        and whether both streams are in the same state
// dm names the library's default validation in this build (ST_DEFAULT_VALIDATION); the observation repeats it and that
// copy is what the driver uses, so a recorded line replays in every build.  The argument syntax is that of
// harness/fmt.cpp (whose generator pieces are copied here, restricted to calls that cannot trip the char-padding
// assertion).
#include "st_common.hpp"
#include <string>
#include <string_view>
#include <sstream>
#include <iomanip>
#include <climits>
#include <cmath>
using namespace vh;

#ifndef VH_DEFAULT_MODE
#define VH_DEFAULT_MODE "c"
#endif

namespace vf {
struct AnyArg {
    std::string kind;
    long long sv = 0; unsigned long long uv = 0;
    std::string bytes; double d = 0; float f = 0;
    ST::string st;
    std::u16string u16; std::u32string u32; std::wstring ws; std::u8string u8;
};
// user-defined formatter (the documented extension point): forwards to the library's own overload for the C++
// type named by `kind`
inline void format_type(const ST::format_spec &format, ST::format_writer &output, const AnyArg &a) {
    const std::string &k = a.kind;
    if (k == "i8") ST::format_type(format, output, (signed char)a.sv);
    else if (k == "i16") ST::format_type(format, output, (short)a.sv);
    else if (k == "i32") ST::format_type(format, output, (int)a.sv);
    else if (k == "il") ST::format_type(format, output, (long)a.sv);
    else if (k == "ill") ST::format_type(format, output, (long long)a.sv);
    else if (k == "u8") ST::format_type(format, output, (unsigned char)a.uv);
    else if (k == "u16") ST::format_type(format, output, (unsigned short)a.uv);
    else if (k == "u32") ST::format_type(format, output, (unsigned int)a.uv);
    else if (k == "ul") ST::format_type(format, output, (unsigned long)a.uv);
    else if (k == "ull") ST::format_type(format, output, (unsigned long long)a.uv);
    else if (k == "c") ST::format_type(format, output, (char)a.sv);
    else if (k == "wc") ST::format_type(format, output, (wchar_t)a.sv);
    else if (k == "c8") ST::format_type(format, output, (char8_t)a.uv);
    else if (k == "c16") ST::format_type(format, output, (char16_t)a.uv);
    else if (k == "c32") ST::format_type(format, output, (char32_t)a.uv);
    else if (k == "b") ST::format_type(format, output, (bool)(a.uv != 0));
    else if (k == "cs") ST::format_type(format, output, (const char *)a.bytes.c_str());
    else if (k == "cn") ST::format_type(format, output, (const char *)nullptr);
    else if (k == "S") ST::format_type(format, output, a.st);
    else if (k == "ss") ST::format_type(format, output, a.bytes);
    else if (k == "sv") ST::format_type(format, output, std::string_view(a.bytes));
    else if (k == "p16") ST::format_type(format, output, (const char16_t *)a.u16.c_str());
    else if (k == "s16") ST::format_type(format, output, a.u16);
    else if (k == "v16") ST::format_type(format, output, std::u16string_view(a.u16));
    else if (k == "n16") ST::format_type(format, output, (const char16_t *)nullptr);
    else if (k == "p32") ST::format_type(format, output, (const char32_t *)a.u32.c_str());
    else if (k == "s32") ST::format_type(format, output, a.u32);
    else if (k == "v32") ST::format_type(format, output, std::u32string_view(a.u32));
    else if (k == "n32") ST::format_type(format, output, (const char32_t *)nullptr);
    else if (k == "pw") ST::format_type(format, output, (const wchar_t *)a.ws.c_str());
    else if (k == "sw") ST::format_type(format, output, a.ws);
    else if (k == "vw") ST::format_type(format, output, std::wstring_view(a.ws));
    else if (k == "nw") ST::format_type(format, output, (const wchar_t *)nullptr);
    else if (k == "p8") ST::format_type(format, output, (const char8_t *)a.u8.c_str());
    else if (k == "s8") ST::format_type(format, output, a.u8);
    else if (k == "v8") ST::format_type(format, output, std::u8string_view(a.u8));
    else if (k == "n8") ST::format_type(format, output, (const char8_t *)nullptr);
    else if (k == "d") ST::format_type(format, output, a.d);
    else if (k == "fl") ST::format_type(format, output, a.f);
}
} // namespace vf
using vf::AnyArg;

static bool is_float(const AnyArg &a) { return a.kind == "d" || a.kind == "fl"; }

static AnyArg parse_arg(const std::string &tok) {
    AnyArg a; size_t c = tok.find(':');
    a.kind = tok.substr(0, c);
    std::string v = c == std::string::npos ? "" : tok.substr(c + 1);
    const std::string &k = a.kind;
    if (k == "cs" || k == "S" || k == "ss" || k == "sv") { a.bytes = parse_bytes(v); if (k == "S") a.st = raw_string(a.bytes); }
    else if (k == "p16" || k == "s16" || k == "v16") { for (uint64_t u : parse_units(v, 16)) a.u16.push_back((char16_t)u); }
    else if (k == "p32" || k == "s32" || k == "v32") { for (uint64_t u : parse_units(v, 32)) a.u32.push_back((char32_t)u); }
    else if (k == "pw" || k == "sw" || k == "vw") { for (uint64_t u : parse_units(v, 32)) a.ws.push_back((wchar_t)u); }
    else if (k == "p8" || k == "s8" || k == "v8") { for (char ch : parse_bytes(v)) a.u8.push_back((char8_t)ch); }
    else if (k == "n16" || k == "n32" || k == "nw" || k == "n8") { }
    else if (k == "d") { uint64_t b = strtoull(v.c_str(), nullptr, 16); memcpy(&a.d, &b, 8); }
    else if (k == "fl") { uint32_t b = (uint32_t)strtoul(v.c_str(), nullptr, 16); memcpy(&a.f, &b, 4); }
    else if (k[0] == 'u' || k == "c8" || k == "c16" || k == "c32" || k == "b") a.uv = strtoull(v.c_str(), nullptr, 10);
    else a.sv = strtoll(v.c_str(), nullptr, 10);
    return a;
}
static std::vector<AnyArg> parse_args(const std::string &s) {
    std::vector<AnyArg> v;
    if (s.empty() || s == "-") return v;
    size_t i = 0;
    while (i <= s.size()) {
        size_t j = s.find(';', i); if (j == std::string::npos) j = s.size();
        v.push_back(parse_arg(s.substr(i, j - i)));
        i = j + 1;
    }
    return v;
}

// ------------------------------------------------------------------ the sinks
// result token: "ok:<hex>" or "throw:<kind>"
template <class F> static std::string tok(F f) {
    std::string r = guarded(f);
    size_t sp = r.find(' ');
    if (sp != std::string::npos) r[sp] = ':';
    return r;
}
static std::string show8(const ST::string &s) {
    if (s.c_str()[s.size()] != 0) return "!noterm";
    return "ok " + hex_units(s.c_str(), s.size());
}
template <class C> static std::string show_std(const std::basic_string<C> &s) { return "ok " + hex_units(s.data(), s.size()); }

// FILE* whose contents are collected in memory (open_memstream); closed and released on every path
struct MemFile {
    char *buf = nullptr; size_t len = 0; FILE *f;
    MemFile() { f = open_memstream(&buf, &len); if (!f) { fprintf(stderr, "harness: open_memstream failed\n"); _exit(2); } }
    std::string take() { if (f) { fclose(f); f = nullptr; } return std::string(buf, len); }
    ~MemFile() { if (f) fclose(f); free(buf); }
};

// Collecting stream buffer for the wide sinks.  libstdc++'s basic_stringbuf passes units through int_type when its
// put area is full: char_traits<char16_t>::to_int_type maps 0xFFFF to 0xFFFD and a unit equal to eof() (WEOF =
// wchar_t(-1), char32_t(-1)) is dropped.  That is the standard library's business, not the sink's; this buffer keeps a
// put area larger than any run of put() calls generated here and appends write() data directly, so every unit the
// library hands to the stream is recorded as it is.
template <class C> struct CollectBuf : std::basic_streambuf<C> {
    typedef std::char_traits<C> TR;
    enum { AREA = 1 << 18 };
    static C *area() { static C a[AREA]; return a; }      // one put area per character type, reused (one stream at a time)
    std::basic_string<C> data;
    CollectBuf() { this->setp(area(), area() + AREA); }
    void drain() { data.append(this->pbase(), this->pptr()); this->setp(area(), area() + AREA); }
    typename TR::int_type overflow(typename TR::int_type c) override {
        drain();
        if (!TR::eq_int_type(c, TR::eof())) { *this->pptr() = TR::to_char_type(c); this->pbump(1); }
        return TR::not_eof(c);
    }
    std::streamsize xsputn(const C *p, std::streamsize n) override { drain(); data.append(p, (size_t)n); return n; }
};
template <class C> struct Collect {
    CollectBuf<C> buf; std::basic_ostream<C> os;
    Collect() : os(&buf) {}
    std::basic_string<C> str() { buf.drain(); return buf.data; }
};
template <class C> static bool has_eof_unit(const std::basic_string<C> &s) {
    for (C c : s) if (std::char_traits<C>::eq_int_type(std::char_traits<C>::to_int_type(c), std::char_traits<C>::eof()) || (sizeof(C) == 2 && (uint16_t)c == 0xFFFF)) return true;
    return false;
}

// ST::writef into a stream of character type C: through the collecting buffer, and (when no unit is one the standard
// string buffer treats specially) through std::basic_ostringstream<C> as well; both must agree
template <class C, class... A> static std::string wide_sink(const char *f, const A &...a) {
    Collect<C> c; ST::writef(c.os, f, a...);
    if (!c.os.good()) return "!state";
    std::basic_string<C> got = c.str();
    if (!has_eof_unit(got)) {
        std::basic_ostringstream<C> os; ST::writef(os, f, a...);
        if (!os.good()) return "!state2";
        if (os.str() != got) return "!stringstream-differs";
    }
    return show_std(got);
}

template <class... A> static std::string all_sinks(const char *f, const A &...a) {
    std::string out;
    out += "f=" + tok([&]() { return show8(ST::format(f, a...)); });
    out += " p=" + tok([&]() { MemFile m; ST::printf(m.f, f, a...); return show_std(m.take()); });
    out += " o=" + tok([&]() { std::ostringstream os; ST::writef(os, f, a...); if (!os.good()) return std::string("!state"); return show_std(os.str()); });
    out += " l=" + tok([&]() { return show8(ST::format_latin_1(f, a...)); });
    out += " w=" + tok([&]() { return wide_sink<wchar_t>(f, a...); });
    out += " h=" + tok([&]() { return wide_sink<char16_t>(f, a...); });
    out += " u=" + tok([&]() { return wide_sink<char32_t>(f, a...); });
    out += std::string(" dm=") + VH_DEFAULT_MODE;      // the default validation of this build judges, whatever the input line says
    return out;
}

// the same call with the argument passed as its real C++ type (one argument): the route a user takes.  Which
// format_type overload an argument type selects is C10/C11's subject (harness/fmt.cpp makes every call both ways); the
// sinks are reached through the virtual format_writer interface whatever the argument type, so a representative of each
// renderer suffices here (and keeps the compile time of this harness in bounds).
static bool has_typed1(const std::string &k) { return k == "i32" || k == "cs" || k == "S" || k == "d" || k == "c8" || k == "b"; }
static std::string all_sinks_typed1(const char *f, const AnyArg &a) {
    const std::string &k = a.kind;
    if (k == "i32") return all_sinks(f, (int)a.sv);
    if (k == "c8") return all_sinks(f, (char8_t)a.uv);
    if (k == "b") return all_sinks(f, (bool)(a.uv != 0));
    if (k == "cs") return all_sinks(f, (const char *)a.bytes.c_str());
    if (k == "S") return all_sinks(f, a.st);
    if (k == "d") return all_sinks(f, a.d);
    return "bad-kind";
}

struct ExactFmt {
    char *p = nullptr;
    ExactFmt(const std::string &bytes, bool null) {
        if (null) return;
        p = new char[bytes.size() + 1];
        memcpy(p, bytes.data(), bytes.size()); p[bytes.size()] = 0;
    }
    ~ExactFmt() { delete[] p; }
};

static std::string exec_fmt(const Args &a) {
    std::string fs = a.get("fmt");
    bool null = fs == "N";
    ExactFmt ef(null ? std::string() : parse_bytes(fs), null);
    std::vector<AnyArg> args = parse_args(a.get("args"));
    const char *f = ef.p;
    switch (args.size()) {
    case 0: return all_sinks(f);
    case 1: {
        std::string r = all_sinks(f, args[0]);
        if (has_typed1(args[0].kind) && all_sinks_typed1(f, args[0]) != r) return "route-mismatch";
        return r;
    }
    case 2: return all_sinks(f, args[0], args[1]);
    case 3: return all_sinks(f, args[0], args[1], args[2]);
    default: return "too-many-args";
    }
}

// ------------------------------------------------------------------ insertion / extraction
template <class C, class OS> static void insert_into(OS &os, const ST::string &s, long wd, const std::string &fill, const std::string &adj) {
    if (adj == "l") os << std::left; else if (adj == "r") os << std::right; else if (adj == "i") os << std::internal;
    if (fill != "-" && !fill.empty()) os.fill((C)parse_units(fill, sizeof(C) * 8)[0]);
    if (wd > 0) os << std::setw((int)wd);
    os << s;
}
template <class C> static std::string do_insert(const ST::string &s, long wd, const std::string &fill, const std::string &adj) {
    Collect<C> c;
    insert_into<C>(c.os, s, wd, fill, adj);
    std::basic_string<C> got = c.str();
    if (!has_eof_unit(got)) {
        std::basic_ostringstream<C> os;
        insert_into<C>(os, s, wd, fill, adj);
        if (os.str() != got || os.good() != c.os.good() || os.width() != c.os.width()) return "!stringstream-differs";
    }
    return "ok:" + hex_units(got.data(), got.size()) + " wd=" + std::to_string((long)c.os.width()) + " good=" + (c.os.good() ? "1" : "0");
}
static std::string exec_ins(const Args &a) {
    ST::string s = raw_string(parse_bytes(a.get("s")));
    long wd = (long)a.num("wd"); std::string fill = a.get("fill"), adj = a.get("adj"), t = a.get("t");
    return guarded([&]() {
        if (t == "c") return do_insert<char>(s, wd, fill, adj);
        if (t == "w") return do_insert<wchar_t>(s, wd, fill, adj);
        if (t == "h") return do_insert<char16_t>(s, wd, fill, adj);
        return do_insert<char32_t>(s, wd, fill, adj);
    });
}

template <class C> static std::string do_extract(const std::vector<uint64_t> &in) {
    std::basic_string<C> text; for (uint64_t u : in) text.push_back((C)u);
    std::basic_istringstream<C> a(text), b(text);
    std::string out;
    for (int i = 0; i < 12; ++i) {
        std::basic_string<C> ref; b >> ref;
        ST::string s = ST_LITERAL("unset");
        std::string r = tok([&]() { a >> s; return show8(s); });
        if (!out.empty()) out += ' ';
        out += hex_units(ref.data(), ref.size()) + "/" + r + "/" + (a.rdstate() == b.rdstate() ? "=" : "!");
        if (b.fail()) break;
    }
    out += std::string(" dm=") + VH_DEFAULT_MODE;
    return out;
}
static std::string exec_ext(const Args &a) {
    std::string t = a.get("t");
    return guarded([&]() {
        if (t == "c") return do_extract<char>(parse_units(a.get("in"), 8));
        return do_extract<wchar_t>(parse_units(a.get("in"), 32));
    });
}

static std::string exec_case(const Args &a) {
    if (a.op == "sk.fmt") return exec_fmt(a);
    if (a.op == "sk.ins") return exec_ins(a);
    if (a.op == "sk.ext") return exec_ext(a);
    return "bad-op";
}

// ------------------------------------------------------------------ generators (format cases: after harness/fmt.cpp)
static std::string float_table(const std::string &fmt, const std::vector<AnyArg> &args) {
    bool any = false; for (auto &a : args) if (is_float(a)) any = true;
    if (!any) return "";
    std::set<long> precs; precs.insert(-1);
    for (size_t i = 0; i < fmt.size(); ++i)
        if (fmt[i] == '.') {
            long v = strtol(fmt.c_str() + i + 1, nullptr, 10);
            int p = (int)v;
            if (p >= 0 && p <= 2000) precs.insert(p);
        }
    std::string out;
    static char buf[8192];
    for (size_t i = 0; i < args.size(); ++i) {
        if (!is_float(args[i])) continue;
        double v = args[i].kind == "d" ? args[i].d : (double)args[i].f;
        for (long p : precs) for (int plus = 0; plus < 2; ++plus) for (char cls : {'g', 'f', 'e', 'E'}) {
            std::string f = "%"; if (plus) f += '+';
            if (p >= 0) { f += '.'; f += std::to_string(p); }
            f += cls;
            int n = snprintf(buf, sizeof buf, f.c_str(), v);
            if (n < 0 || (size_t)n >= sizeof buf) continue;
            if (!out.empty()) out += ',';
            out += std::to_string(i) + "." + (p < 0 ? std::string("n") : std::to_string(p)) + "." + std::to_string(plus) + "." + cls + ":" + hex_units(buf, (size_t)n);
        }
    }
    return out;
}

static std::string arg_tok(const std::string &kind, const std::string &v) { return kind + ":" + v; }
static std::string join_args(const std::vector<std::string> &v) {
    if (v.empty()) return "-";
    std::string s; for (size_t i = 0; i < v.size(); ++i) { if (i) s += ';'; s += v[i]; }
    return s;
}
static std::string dbits(double d) { uint64_t b; memcpy(&b, &d, 8); std::string o; put_hex(o, b, 16); return o; }
static std::string fbits(float d) { uint32_t b; memcpy(&b, &d, 4); std::string o; put_hex(o, b, 8); return o; }

struct Gen {
    Emitter &em; const Options &opt; uint64_t k = 0;
    Gen(Emitter &e, const Options &o) : em(e), opt(o) {}
    bool mine() { return (int)(k++ % opt.nslices) == opt.slice; }
    void put(const std::string &fmt, bool null, const std::vector<std::string> &args) {
        std::string line = std::string("sk.fmt dm=") + VH_DEFAULT_MODE + " fmt=" + (null ? std::string("N") : hex_bytes(fmt)) + " args=" + join_args(args);
        std::vector<AnyArg> pa; for (auto &t : args) pa.push_back(parse_arg(t));
        std::string ft = float_table(fmt, pa);
        if (!ft.empty()) line += " fr=" + ft;
        em.emit(line);
    }
};

static std::vector<std::string> int_values(const std::string &k) {
    auto S = [](long long v) { return std::to_string(v); };
    auto U = [](unsigned long long v) { return std::to_string(v); };
    if (k == "i8") return {S(0), S(1), S(-1), S(127), S(-128), S(65), S(-100), S(9), S(10)};
    if (k == "i16") return {S(0), S(1), S(-1), S(32767), S(-32768), S(255), S(256), S(-256), S(9999), S(10000)};
    if (k == "i32" || k == "wc") return {S(0), S(1), S(-1), S(INT_MAX), S(-INT_MAX), S(65), S(0x10FFFF), S(0x110000), S(0xD800), S(65535), S(65536), S(-65536), S(999999999), S(1000000000), S(8), S(233), S(8364), S(128512)};
    if (k == "il" || k == "ill") return {S(0), S(1), S(-1), S(LLONG_MAX), S(-LLONG_MAX), S(0x100000041LL), S(4294967295LL), S(4294967296LL), S(0x10FFFF), S(0x110000), S(233), S(65)};
    if (k == "u8" || k == "c8") return {U(0), U(1), U(254), U(65), U(128), U(127), U(9), U(10), U(64), U(195), U(169)};
    if (k == "u16" || k == "c16") return {U(0), U(1), U(65535), U(65), U(0xD800), U(0xDFFF), U(0x20AC), U(255), U(256), U(233)};
    if (k == "u32" || k == "c32") return {U(0), U(1), U(4294967295u), U(65), U(0x10FFFF), U(0x110000), U(0x1F600), U(2147483648u), U(0xFFFF), U(0x10000), U(0xD800), U(233)};
    if (k == "ul" || k == "ull") return {U(0), U(1), U(ULLONG_MAX), U(0x100000041ULL), U(9223372036854775808ULL), U(4294967296ULL), U(0x10FFFF), U(0x110000), U(0x1F600), U(65)};
    if (k == "c") return {S(0), S(65), S(127), S(-128), S(-2), S(32), S(-61), S(-87)};
    if (k == "b") return {U(0), U(1)};
    return {S(0)};
}
static const std::vector<std::string> INT_KINDS = {"i8", "i16", "i32", "il", "ill", "u8", "u16", "u32", "ul", "ull", "c", "wc", "c8", "c16", "c32", "b"};
static const std::vector<std::string> STR_KINDS = {"cs", "S", "ss", "sv"};
static const std::vector<std::string> TEXTS = {"", "a", "hello", "\xC3\xA9", "h\xC3\xA9llo w\xC3\xB6rld", "\xE2\x82\xAC" "5", "0123456789abcdefXYZ", "\x80", "tab\there", "{}",
                                               "\xF0\x9F\x98\x80!", "\xA9", "x\xC3", "\xED\xA0\x80", "\xF7\xBF\xBF\xBF", "\xE2\x82\xAC\xF0\x9F\x98\x80\xC3\xA9"};

// wide / char8_t text arguments (pointer, std::basic_string, std::basic_string_view, null pointers)
static std::string random_wide_arg(Rng &rng) {
    static const std::vector<std::string> K16 = {"p16", "s16", "v16"}, K32 = {"p32", "s32", "v32", "pw", "sw", "vw"}, K8 = {"p8", "s8", "v8"}, KN = {"n16", "n32", "nw", "n8"};
    static const std::vector<std::string> T16 = {"-", "0061", "00e9", "d83dde00", "d800", "20ac0035", "dc00d83d", "006800e9006c006c006f00200077", "0061d83dde000062", "004100000042"};
    static const std::vector<std::string> T32 = {"-", "00000061", "000000e9", "0001f600", "00110000", "000020ac00000035", "0000d800", "000000610001f60000000062", "000000410000000000000042"};
    switch (rng.below(8)) {
    case 0: case 1: case 2: return arg_tok(rng.pick(K16), rng.pick(T16));
    case 3: case 4: case 5: return arg_tok(rng.pick(K32), rng.pick(T32));
    case 6: return arg_tok(rng.pick(K8), hex_bytes(rng.pick(TEXTS)));
    default: return rng.pick(KN);
    }
}

static std::string random_arg(Rng &rng, bool allow_float) {
    unsigned c = (unsigned)rng.below(allow_float ? 13 : 11);
    if (c == 10 + (allow_float ? 2u : 0u)) return random_wide_arg(rng);
    if (c < 5) { const std::string &k = rng.pick(INT_KINDS); return arg_tok(k, rng.pick(int_values(k))); }
    if (c < 9) {
        const std::string &k = rng.pick(STR_KINDS);
        if (k != "cs" && rng.chance(1, 10)) return arg_tok(k, hex_bytes(std::string("a\0b\xC3\xA9", 5)));
        return arg_tok(k, hex_bytes(rng.pick(TEXTS)));
    }
    if (c == 9) return "cn";
    static const std::vector<double> DV = {0.0, -0.0, 1.5, -2.25, 1e10, 123456.789, 1e-5, INFINITY, NAN, 1e15, -1e15, 0.1, 1e-300};
    if (c == 10) return arg_tok("d", dbits(rng.pick(DV)));
    static const std::vector<float> FV = {0.0f, 1.5f, -2.25f, 16777216.0f, 0.1f, INFINITY, 3.4e38f};
    return arg_tok("fl", fbits(rng.pick(FV)));
}

static std::string safe_number(Rng &rng, bool first_nonzero, unsigned small_max) {
    switch (rng.below(12)) {
    case 0: return std::to_string(4294967296ULL + rng.below(small_max + 1));
    case 1: return "2147483648";
    case 2: return "9223372036854775807";
    case 3: return "99999999999999999999";
    case 5: return first_nonzero ? "1" : "0";
    case 6: return first_nonzero ? "10" : "007";
    default: { unsigned v = (unsigned)rng.below(small_max + 1); if (first_nonzero && v == 0) v = 1; return std::to_string(v); }
    }
}
static std::string num_form(Rng &rng, unsigned small_max) {
    std::string s;
    switch (rng.below(10)) { case 0: s += " "; break; case 1: s += "\t"; break; default: break; }
    switch (rng.below(8)) { case 0: s += "+"; break; case 1: s += "-"; break; default: break; }
    if (!rng.chance(1, 8)) s += safe_number(rng, false, small_max);
    return s;
}
// never combines the character class with padding (the documented assertion)
static std::string random_field(Rng &rng, int nargs, bool allow_bad) {
    std::string f = "{";
    int items = (int)rng.below(6);
    static const char FLAGS[] = "<>0#xX+dobcfeE";
    bool has_pad = false;
    for (int i = 0; i < items; ++i) {
        switch (rng.below(10)) {
        case 0: case 1: case 2: f += FLAGS[rng.below(sizeof FLAGS - 1)]; break;
        case 3: { static const std::vector<std::string> P = {"*", "0", " ", "}", "{", "_", "\x80", "\xC3", "\xA9", "1", ".", "&", "-", "\xFE"}; f += "_" + rng.pick(P); has_pad = true; break; }
        case 4: case 5: f += safe_number(rng, true, 40); has_pad = true; break;
        case 6: case 7: f += "." + num_form(rng, 12); break;
        case 8: f += "&" + num_form(rng, (unsigned)nargs + 1); break;
        default:
            if (allow_bad && rng.chance(1, 4)) { static const std::vector<std::string> B = {"a", " ", "-", "\x80", "{", "*", "g"}; f += rng.pick(B); }
            else f += FLAGS[rng.below(sizeof FLAGS - 1)];
            break;
        }
    }
    for (char ch : f) if (ch >= '0' && ch <= '9') has_pad = true;
    if (has_pad) for (char &ch : f) if (ch == 'c') ch = 'd';
    if (allow_bad && rng.chance(1, 16)) return f;   // unterminated
    return f + "}";
}
static std::string random_literal(Rng &rng) {
    static const std::vector<std::string> L = {"", "", "a", "{{", "}}", "}", " x ", "\xC3\xA9", "\x80", "}}}", "{{{{", "%d", "\\", "}{{", "\xA9", "\xC3", "\xE2\x82", "\xAC", "\xE2\x82\xAC", "\xF0\x9F\x98\x80", "\xC3{{\xA9"};
    return rng.pick(L);
}
static bool digit_runs_ok(const std::string &s, long limit) {
    for (size_t i = 0; i < s.size();) {
        if (s[i] < '0' || s[i] > '9') { ++i; continue; }
        size_t j = i; while (j < s.size() && s[j] >= '0' && s[j] <= '9') ++j;
        int v = (int)strtol(s.substr(i, j - i).c_str(), nullptr, 10);
        int w = (int)strtol(("-" + s.substr(i, j - i)).c_str(), nullptr, 10);
        if (v > limit || w > limit) return false;
        i = j;
    }
    return true;
}

struct FieldParts { std::string ref, align, pad, hash, plus, width, prec, cls; };
static std::string build_field(const FieldParts &f, unsigned order) {
    switch (order % 4) {
    case 0: return "{" + f.ref + f.align + f.pad + f.hash + f.plus + f.width + f.prec + f.cls + "}";
    case 1: return "{" + f.cls + f.plus + f.hash + f.pad + f.align + f.width + f.prec + f.ref + "}";
    case 2: return "{" + f.pad + f.width + f.cls + f.prec + f.align + f.ref + f.plus + f.hash + "}";
    default: return "{" + f.hash + f.pad + f.plus + f.align + f.width + f.cls + f.ref + f.prec + "}";
    }
}
static bool order_ok(const FieldParts &f, unsigned order) {
    auto digit_first = [](const std::string &x) { return !x.empty() && x[0] >= '0' && x[0] <= '9'; };
    std::vector<std::string> seq;
    switch (order % 4) {
    case 0: seq = {f.ref, f.align, f.pad, f.hash, f.plus, f.width, f.prec, f.cls}; break;
    case 1: seq = {f.cls, f.plus, f.hash, f.pad, f.align, f.width, f.prec, f.ref}; break;
    case 2: seq = {f.pad, f.width, f.cls, f.prec, f.align, f.ref, f.plus, f.hash}; break;
    default: seq = {f.hash, f.pad, f.plus, f.align, f.width, f.cls, f.ref, f.prec}; break;
    }
    std::vector<std::string> ne; for (auto &x : seq) if (!x.empty()) ne.push_back(x);
    for (size_t i = 0; i + 1 < ne.size(); ++i) {
        const std::string &a = ne[i], &b = ne[i + 1];
        bool a_num = (a[0] == '&' || a[0] == '.' || (a[0] >= '1' && a[0] <= '9'));
        if (a_num && digit_first(b)) return false;
    }
    return true;
}

// natural length of an argument's rendering under simple fields (decimal / text), used only to place widths
static long natural_len(const std::string &arg) {
    AnyArg a = parse_arg(arg);
    try { return (long)ST::format(ST::assume_valid, "{}", a).size(); } catch (...) { return 1; }
}

static void gen_fmt(Gen &g) {
    const Options &opt = g.opt;
    bool thorough = opt.tier == "thorough";
    const int NS = opt.nslices, SL = opt.slice;
    // ---- fixed cases: null format string, plain literals, the documented examples of the two recorded findings
    if (g.mine()) g.put("", true, {});
    if (g.mine()) g.put("", true, {"i32:5"});
    if (g.mine()) g.put("", false, {});
    if (g.mine()) g.put("plain text, no fields", false, {});
    if (g.mine()) g.put("h\xC3\xA9llo {{w\xC3\xB6rld}} \xE2\x82\xAC \xF0\x9F\x98\x80", false, {"i32:1"});
    if (g.mine()) g.put("{_\xC3>1}{_\xA9>1}", false, {"cs:-", "cs:-"});
    if (g.mine()) g.put("{.1}\xA9", false, {"cs:c3a9"});
    // ---- padding amounts: every small amount, multiples of 16 and 256 and their neighbours, amounts above any
    //      stack block (string_stream's 256-byte stack buffer, a 16-byte fill block, stdio's 4096/8192 buffers)
    std::vector<long> pads;
    for (long p = 0; p <= (thorough ? 300 : 70); ++p) pads.push_back(p);
    for (long p = 16; p <= (thorough ? 2048 : 512); p += 16) { pads.push_back(p); if (thorough) { pads.push_back(p - 1); pads.push_back(p + 1); } }
    for (long p : {255L, 256L, 257L, 511L, 512L, 513L, 768L, 1023L, 1024L, 1025L, 2047L, 2048L, 2049L, 4095L, 4096L, 4097L, 8191L, 8192L, 8193L, 16384L}) pads.push_back(p);
    if (thorough) for (long p = 256; p <= 8192; p += 256) { pads.push_back(p); pads.push_back(p + 16); }
    struct Form { const char *pre, *post; const char *arg; };
    const std::vector<Form> forms = {
        {"[{<", "}]", "cs:-"}, {"[{>", "}]", "cs:7879"}, {"{>", "_#}", "S:666f726d6174746564"}, {"{<", "_.}|", "sv:68c3a9"},
        {"{0", "x}", "u32:48879"}, {"{#0", "x}", "i32:-48879"}, {"{", "}", "i32:-42"}, {"{<", "_*}", "ill:-9223372036854775807"},
        {"{+0", "}", "i16:7"}, {"{>", "}", "b:1"}, {"{_ <", "}", "d:3ff8000000000000"}, {"a{{{>", "_-}}}b", "c:65"},
    };
    for (long p : pads)
        for (size_t fi = 0; fi < forms.size(); ++fi) {
            if (p > 600 && fi >= 5) continue;
            const Form &fm = forms[fi];
            long nat = natural_len(fm.arg);
            if (std::string(fm.pre).find('#') != std::string::npos) nat = 7;          // -0xbeef
            else if (std::string(fm.post).find('x') != std::string::npos) nat = 4;     // beef
            else if (std::string(fm.pre).find('+') != std::string::npos) nat = 2;      // +7
            if (!g.mine()) continue;
            g.put(std::string(fm.pre) + std::to_string(p + nat) + fm.post, false, {fm.arg});
        }
    // a few very large amounts (larger than any stdio / stringbuf block)
    for (long p : {65536L, 70001L, 131072L})
        for (int v = 0; v < 2; ++v) {
            if (!thorough && p > 70001) continue;
            if (!g.mine()) continue;
            if (v == 0) g.put("{<" + std::to_string(p) + "}", false, {"cs:-"});
            else g.put("x{>" + std::to_string(p + 2) + "_=}y", false, {"i32:42"});
        }
    // ---- the recorded classes: non-ASCII pad bytes, precision or literal boundaries inside a character
    {
        const std::vector<std::string> padb = {"\xC3", "\xA9", "\x80", "\xFF", "\xE2", "\xF0"};
        for (const std::string &pb : padb)
            for (long w : {1L, 2L, 3L, 16L, 17L})
                for (const char *al : {"<", ">"})
                    for (const char *arg : {"cs:-", "cs:61", "i32:5"}) {
                        if (!g.mine()) continue;
                        g.put("{_" + pb + al + std::to_string(w) + "}", false, {arg});
                    }
        const std::vector<std::pair<std::string, std::vector<std::string>>> cuts = {
            {"{_\xC3>1}{_\xA9>1}", {"cs:-", "cs:-"}}, {"{_\xE2>1}{_\x82>1}{_\xAC>1}", {"cs:-", "cs:-", "cs:-"}},
            {"{.1}\xA9", {"cs:c3a9"}}, {"{.1}{}", {"S:c3a9", "ss:a9"}}, {"{.1}{_\xA9>1}", {"sv:c3a9", "cs:-"}},
            {"\xC3{}", {"cs:a9"}}, {"\xE2\x82{}", {"cs:ac"}}, {"{}\xA9", {"cs:c3"}}, {"{.2}{.1}", {"cs:e282ac", "cs:ac"}},
            {"\xF0\x9F{}\x80", {"cs:98"}}, {"{c}{c}", {"c8:195", "c8:169"}}, {"{c}{c}", {"c:-61", "c:-87"}}, {"{c}", {"c8:233"}},
            {"{c}", {"c8:65"}}, {"{c}", {"c:65"}}, {"{c}{c}{c}", {"i32:8364", "c16:233", "c32:128512"}},
            {"\xC3{{\xA9", {}}, {"\xC3}}\xA9", {}}, {"a\xC3\xA9{{b}}\xE2\x82\xAC", {}},
        };
        for (auto &pr : cuts) if (g.mine()) g.put(pr.first, false, pr.second);
    }
    // ---- integers / characters / text: a sample of C11's flag cross product
    const std::vector<std::string> aligns = {"", "<", ">"};
    const std::vector<std::string> pads_s = {"", "_*", "0", "0_*", "_*0", "_0"};
    const std::vector<std::string> classes = {"", "d", "x", "X", "o", "b", "c"};
    uint64_t combo = 0;
    uint64_t keep_mod = thorough ? 5 : 60;
    for (const std::string &kind : INT_KINDS)
        for (const std::string &val : int_values(kind)) {
            std::string arg = arg_tok(kind, val);
            for (const std::string &cls : classes)
                for (int hash = 0; hash < 2; ++hash)
                    for (int plus = 0; plus < 2; ++plus) {
                        bool is_char_cls = cls == "c" && kind != "b";
                        for (const std::string &al : aligns)
                            for (const std::string &pd : pads_s)
                                for (long w : {0L, 1L, 5L, 16L, 21L, 40L, 70L}) {
                                    ++combo;
                                    if (is_char_cls && (w != 0 || !pd.empty())) continue;   // contract: no padding with 'c'
                                    if ((combo * 2654435761ULL + opt.seed) % keep_mod != 0) continue;
                                    FieldParts f; f.cls = cls; f.hash = hash ? "#" : ""; f.plus = plus ? "+" : "";
                                    f.align = al; f.pad = pd; f.width = w ? std::to_string(w) : "";
                                    unsigned order = (unsigned)(combo % 4);
                                    if (!order_ok(f, order)) order = 0;
                                    if (!order_ok(f, order)) continue;
                                    if (!g.mine()) continue;
                                    g.put(build_field(f, order), false, {arg});
                                }
                    }
        }
    std::vector<std::string> text_args;
    for (const std::string &t : TEXTS) for (const std::string &kd : STR_KINDS) text_args.push_back(arg_tok(kd, hex_bytes(t)));
    for (const char *kd : {"S", "ss", "sv"}) text_args.push_back(arg_tok(kd, hex_bytes(std::string("a\0b\xC3\xA9\0", 6))));
    text_args.push_back("b:1"); text_args.push_back("b:0"); text_args.push_back("cn");
    for (const std::string &arg : text_args) {
        AnyArg pa = parse_arg(arg);
        long tl = pa.kind == "b" ? (pa.uv ? 4 : 5) : (long)pa.bytes.size();
        std::vector<long> widths = {0, tl - 1, tl, tl + 1, tl + 16, 40};
        std::vector<std::string> precs = {"", ".0", ".1", ".2", ".3", "." + std::to_string(tl), "." + std::to_string(tl > 0 ? tl - 1 : 0), ".100", "."};
        for (const std::string &al : aligns)
            for (const std::string &pd : pads_s)
                for (long w : widths)
                    for (const std::string &pr : precs) {
                        ++combo;
                        if (w < 0) continue;
                        if ((combo * 2654435761ULL + opt.seed) % (thorough ? 2 : 12) != 0) continue;
                        FieldParts f; f.align = al; f.pad = pd; f.width = w ? std::to_string(w) : ""; f.prec = pr;
                        unsigned order = (unsigned)(combo % 4);
                        if (!order_ok(f, order)) order = 0;
                        if (!order_ok(f, order)) continue;
                        if (!g.mine()) continue;
                        g.put(build_field(f, order), false, {arg});
                    }
    }
    // ---- 1..3 fields in all orders with 1..3 arguments, literals (incl. multi-byte text cut by fields) between
    long nmulti = thorough ? 360000 : 24000;
    for (long r = SL; r < nmulti; r += NS) {
        Rng rng(opt.seed * 0x9E3779B97F4A7C15ULL + (uint64_t)r * 2654435761ULL + 1799);
        int nf = 1 + (int)rng.below(3);
        int nargs = 1 + (int)rng.below(3);
        if (nargs < nf && !rng.chance(1, 16)) nargs = nf;      // mostly enough arguments for the sequential fields
        std::vector<std::string> args; for (int i = 0; i < nargs; ++i) args.push_back(random_arg(rng, true));
        std::string s = random_literal(rng);
        for (int i = 0; i < nf; ++i) {
            FieldParts f;
            if (rng.chance(1, 2)) f.ref = "&" + std::to_string(rng.chance(1, 16) ? rng.below((uint64_t)nargs + 2) : 1 + rng.below((uint64_t)nargs));
            f.align = rng.pick(aligns); f.pad = rng.pick(pads_s);
            if (rng.chance(1, 12)) { static const std::vector<std::string> NP = {"_\xC3", "_\xA9", "_\x80", "_\xFE"}; f.pad = rng.pick(NP); }
            if (rng.chance(1, 3)) f.hash = "#";
            if (rng.chance(1, 3)) f.plus = "+";
            if (rng.chance(2, 3)) f.width = std::to_string(1 + rng.below(rng.chance(1, 6) ? 300 : 24));
            if (rng.chance(1, 3)) f.prec = "." + std::to_string(rng.below(8));
            f.cls = rng.pick(classes);
            if (f.cls == "c") { f.width = ""; f.pad = ""; }
            unsigned order = (unsigned)rng.below(4);
            if (!order_ok(f, order)) order = 0;
            if (!order_ok(f, order)) { f.ref = ""; }
            s += build_field(f, order_ok(f, order) ? order : 0);
            s += random_literal(rng);
        }
        g.put(s, false, args);
    }
    // ---- grammar-directed random format strings (many are rejected: every sink must reject them alike)
    long nrand = thorough ? 100000 : 8000;
    for (long r = SL; r < nrand; r += NS) {
        Rng rng(opt.seed * 0x9E3779B97F4A7C15ULL + (uint64_t)r * 2654435761ULL + 17);
        int nargs = (int)rng.below(4);
        std::vector<std::string> args; for (int i = 0; i < nargs; ++i) args.push_back(random_arg(rng, true));
        int nf = 1 + (int)rng.below(3);
        std::string s = random_literal(rng);
        for (int i = 0; i < nf; ++i) { s += random_field(rng, nargs, true); s += random_literal(rng); }
        bool has_float = false; for (auto &t : args) if (t[0] == 'd' || t[0] == 'f') has_float = true;
        if (!digit_runs_ok(s, has_float ? 40 : 3000)) continue;
        g.put(s, false, args);
    }
}

// ------------------------------------------------------------------ insertion / extraction generators
static void enc_utf8(std::string &out, uint32_t c) {
    if (c < 0x80) out.push_back((char)c);
    else if (c < 0x800) { out.push_back((char)(0xC0 | (c >> 6))); out.push_back((char)(0x80 | (c & 0x3F))); }
    else if (c < 0x10000) { out.push_back((char)(0xE0 | (c >> 12))); out.push_back((char)(0x80 | ((c >> 6) & 0x3F))); out.push_back((char)(0x80 | (c & 0x3F))); }
    else { out.push_back((char)(0xF0 | (c >> 18))); out.push_back((char)(0x80 | ((c >> 12) & 0x3F))); out.push_back((char)(0x80 | ((c >> 6) & 0x3F))); out.push_back((char)(0x80 | (c & 0x3F))); }
}
static uint32_t random_scalar(Rng &rng) {
    switch (rng.below(8)) {
    case 0: return (uint32_t)rng.below(0x80);
    case 1: return 0x80 + (uint32_t)rng.below(0x780);
    case 2: return 0x800 + (uint32_t)rng.below(0xD000);
    case 3: return 0xE000 + (uint32_t)rng.below(0x2000);
    case 4: return 0x10000 + (uint32_t)rng.below(0x100000);
    case 5: { static const uint32_t B[] = {0, 0x7F, 0x80, 0x7FF, 0x800, 0xD7FF, 0xE000, 0xFFFF, 0x10000, 0x10FFFF, 0xE9, 0x20AC, 0x1F600}; return B[rng.below(13)]; }
    default: return 0x20 + (uint32_t)rng.below(0x5F);
    }
}

static void gen_ins(Gen &g) {
    const Options &opt = g.opt;
    bool thorough = opt.tier == "thorough";
    struct Str { std::string bytes; long u16, u32; bool valid; };
    std::vector<Str> strs;
    auto from_scalars = [&](const std::vector<uint32_t> &sc) {
        Str s; s.u16 = 0; s.u32 = (long)sc.size(); s.valid = true;
        for (uint32_t c : sc) { enc_utf8(s.bytes, c); s.u16 += c >= 0x10000 ? 2 : 1; }
        strs.push_back(s);
    };
    from_scalars({});
    from_scalars({'a'});
    from_scalars({'h', 'e', 'l', 'l', 'o'});
    from_scalars({0xE9});
    from_scalars({'c', 'a', 'f', 0xE9});
    from_scalars({'h', 0x20AC, 'l', 'l', 'o', ' ', 0x1F600});
    from_scalars({0x1F600});
    from_scalars({0x10FFFF, 0x10000, 0xFFFF, 0xE000, 0xD7FF, 0x800, 0x7FF, 0x80, 0x7F});
    from_scalars({'a', 0, 'b'});
    from_scalars({0});
    from_scalars({0, 0xE9, 0, 0x1F600, 0});
    { std::vector<uint32_t> v; for (int i = 0; i < 300; ++i) v.push_back(i % 7 == 0 ? 0x20AC : i % 11 == 0 ? 0x1F600 : 'a' + i % 26); from_scalars(v); }
    { std::vector<uint32_t> v; for (int i = 0; i < 17; ++i) v.push_back(0x1F600 + i); from_scalars(v); }   // 68 bytes, 34 / 17 units
    Rng rng(opt.seed * 77 + 5);
    for (int i = 0; i < (thorough ? 400 : 60); ++i) {
        std::vector<uint32_t> v; int n = (int)rng.below(i % 5 == 0 ? 40 : 9);
        for (int j = 0; j < n; ++j) v.push_back(random_scalar(rng));
        from_scalars(v);
    }
    // contents an ST::string can hold without being UTF-8 (assume_valid / from_validated): the conversion repairs them
    for (const char *raw : {"\x80", "\xC3", "a\xC3", "\xF7\xBF\xBF\xBF", "\xED\xA0\x80", "\xE2\x82", "ab\xFFzz", "\xC0\x80"}) {
        Str s; s.bytes = raw; s.u16 = s.u32 = -1; s.valid = false; strs.push_back(s);
    }
    for (const Str &s : strs)
        for (const char *t : {"c", "w", "h", "u"}) {
            std::string T = t;
            long units = T == "c" ? (long)s.bytes.size() : T == "h" ? s.u16 : s.u32;
            std::vector<long> widths = {0};
            if (s.valid) {
                for (long w : {1L, units - 1, units}) if (w > 0 && w <= units) widths.push_back(w);
                // padding needs the stream's ctype facet (widen(' ')), which libstdc++ only has for char and wchar_t
                if (T == "c" || T == "w") for (long w : {units + 1, units + 5, units + 16, 40L, 300L}) widths.push_back(w);
            }
            for (long w : widths)
                for (const char *adj : {"-", "l", "r", "i"})
                    for (int fl = 0; fl < 3; ++fl) {
                        if ((T == "h" || T == "u") && fl != 0) continue;
                        if (w == 0 && (fl != 0 || std::string(adj) != "-")) { if (std::string(adj) != "l" || fl != 1) continue; }
                        std::string fill = fl == 0 ? "-" : fl == 1 ? (T == "c" ? "2a" : "0000002a") : (T == "c" ? "e9" : "000020ac");
                        if (!g.mine()) continue;
                        g.em.emit("sk.ins t=" + T + " s=" + hex_bytes(s.bytes) + " wd=" + std::to_string(w) + " fill=" + fill + " adj=" + adj);
                    }
        }
}

static void gen_ext(Gen &g) {
    const Options &opt = g.opt;
    bool thorough = opt.tier == "thorough";
    auto emit8 = [&](const std::string &s) { if (g.mine()) g.em.emit(std::string("sk.ext t=c dm=") + VH_DEFAULT_MODE + " in=" + hex_bytes(s)); };
    auto emit32 = [&](const std::vector<uint64_t> &v) { if (g.mine()) g.em.emit(std::string("sk.ext t=w dm=") + VH_DEFAULT_MODE + " in=" + hex_u64s(v, 32)); };
    const std::vector<std::string> fixed8 = {
        "", " ", "a", "hello world", "  lead and trail \t\n", "one\ttwo\nthree\vfour\ffive\rsix seven",
        "caf\xC3\xA9 \xE2\x82\xAC" "5 \xF0\x9F\x98\x80", "bad\x80token ok", "\xC3 \xA9", "x\xC3 y", "\xF8 z", "\xFF", "a\xC3\xA9\xA9 b",
        std::string("nul\0inside tok", 14), std::string("\0", 1), "\xED\xA0\x80 \xF7\xBF\xBF\xBF \xC0\x80", " \t\n\v\f\r", "a b c d e f g h i j k l m n o p",
        "\x1Fx \x7F \x0E \x08", "\xC2\xA0" "nbsp \xC2\x85",
    };
    for (auto &s : fixed8) emit8(s);
    const std::vector<std::vector<uint64_t>> fixed32 = {
        {}, {32}, {'a'}, {'h', 'i', 32, 0x20AC, 0x1F600, 9, 'x'}, {32, 32, 0xE9, 10}, {0x110000, 32, 'a'}, {'a', 0x110000, 'b', 32, 'c'},
        {0xD800, 'x', 32, 0xDFFF}, {0xFFFFFFFE}, {0x7FFFFFFF, 32, 0x80000000}, {'a', 0, 'b', 32, 0}, {9, 10, 11, 12, 13, 32}, {0x10FFFF, 11, 0xFFFF, 12, 0x10000},
        {0x1F, 'x', 32, 0x7F, 32, 0x0E, 32, 8},
    };
    for (auto &v : fixed32) emit32(v);
    Rng rng(opt.seed * 131 + 9);
    static const std::vector<std::string> A8 = {"a", "Z", "\xC3\xA9", "\xE2\x82\xAC", "\xF0\x9F\x98\x80", "\x80", "\xC3", "\xFF", "\xE2\x82", " ", " ", "\t", "\n", "\v", "\f", "\r", std::string("\0", 1), "0", "{"};
    static const std::vector<uint64_t> A32 = {'a', 'Z', 0xE9, 0x20AC, 0x1F600, 0x10FFFF, 0x110000, 0xD800, 0xDC00, 0xFFFFFFFE, 32, 32, 9, 10, 11, 12, 13, 0, '0', 0x7F, 0x100};
    for (int i = 0; i < (thorough ? 6000 : 500); ++i) {
        std::string s; int n = (int)rng.below(24);
        for (int j = 0; j < n; ++j) s += rng.pick(A8);
        emit8(s);
        std::vector<uint64_t> v; n = (int)rng.below(24);
        for (int j = 0; j < n; ++j) v.push_back(rng.pick(A32));
        emit32(v);
    }
}

static void gen(Emitter &em, const Options &opt) {
    Gen g(em, opt);
    gen_fmt(g);
    gen_ins(g);
    gen_ext(g);
}

int main(int argc, char **argv) {
    std::vector<char *> av; av.push_back(argv[0]);
    static char t0[] = "--timeout", t1[] = "12";
    av.push_back(t0); av.push_back(t1);
    for (int i = 1; i < argc; ++i) av.push_back(argv[i]);
    return run_main((int)av.size(), av.data(), gen, exec_case);
}
