// Correspondence harness for C20 (concurrent use needs no locking).  Built with -fsanitize=thread.
//
// One case = N threads (2, 4, 8) released together by a spin barrier, each executing a seeded
// program: const members and free functions on SHARED immutable ST::string / buffer objects, plus
// arbitrary operations on its own objects (strings, a string_stream, an ostringstream, an
// open_memstream FILE*).  Every thread digests every result.  The same programs are then run one
// after the other on one thread and the per-thread digests are compared:
//
//     conc n=4 seed=<hex> len=300 mix=ci y=0 rounds=2 => race=none same=1 ops=1200 seq=<digest> conc=<digest>
//
// race = class of the first ThreadSanitizer report (`data_race` …) or `none`; same = every thread
// obtained exactly the results it obtains when run alone.  On a difference the first differing
// operation is named (`first=t2:op17:printf`).
//
// Each case runs in a child process of the runner's worker, forked while the worker is still
// single-threaded: the library has executed nothing in that process except the assume_valid
// constructors of the shared objects, so the *first* use of every code path (lazily initialised
// tables!) happens concurrently.  The counting operator new of common.hpp is not thread-safe and
// is compiled out (-DVH_NO_NEW_INTERPOSE).
#include "st_common.hpp"
#include <atomic>
#include <thread>
#include <sstream>
#include <sched.h>

namespace {

bool g_replay = false;

// ---------------------------------------------------------------- shared immutable objects
struct SharedData {
    std::vector<ST::string> strs;          // subjects
    std::vector<ST::string> needles;       // short patterns / separators
    std::vector<ST::string> numbers;       // numeric texts
    std::vector<ST::string> encoded;       // hex / base64 texts (valid and invalid)
    std::vector<ST::char_buffer> bufs;     // raw byte buffers
    std::vector<ST::utf16_buffer> u16s;
    std::vector<ST::utf32_buffer> u32s;
    std::vector<std::string> cstrs;        // NUL-terminated texts (const char* operands)
    std::vector<const char *> fmts;        // format strings without padding
};

const char *const TEXTS[] = {
    "", "a", "Hello, World", "hello, world", "HELLO, WORLD", "The quick brown fox jumps over the lazy dog",
    "THE QUICK BROWN FOX JUMPS OVER THE LAZY DOG", "sixteen chars...", "fifteen chars..", "seventeen chars...",
    "  \t padded with space \r\n", "a,b,,c,D,e,,F", "key=value;KEY=VALUE;Key=Value", "na\xc3\xafve caf\xc3\xa9 \xe2\x82\xac 10",
    "\xf0\x9f\x98\x80 emoji \xf0\x9f\x98\x80", "AbCdEfGhIjKlMnOpQrStUvWxYz", "abcdefghijklmnopqrstuvwxyz", "ZZZZZZZZZZZZZZZZZZZZZZZZZZZZZZZZZZZZZZZZ",
    "xxABxxabxxAbxxaBxx", "one two  three\tfour\nfive", "--sep--SEP--Sep--", "Mixed CASE mixed case MIXED case",
};
const char *const NEEDLES[] = { "", "a", "A", "o", "O", ",", "ab", "AB", "Ab", "the", "THE", "fox", "FOX", "World", "WORLD", "sep", "SEP", "--", "case", "CASE", "x", "Z", " ", "\xc3\xa9" };
const char *const NUMBERS[] = { "0", "42", "-42", "+17", "2147483647", "-2147483648", "9223372036854775807", "18446744073709551615", "0x7fFF", "0XDEADbeef",
                                "0755", "  123  ", "12abc", "", "3.14159", "-2.5e10", "1e-5", "INF", "nan", "0x1.8p3", "true", "TRUE", "False", "yes", "1", "1e400" };
const char *const ENCODED[] = { "", "00", "DEADbeef", "0123456789abcdefABCDEF", "4a6f686e", "xyz", "abc", "SGVsbG8=", "SGVsbG8sIFdvcmxk", "QQ==", "QUI=", "Zm9v!", "====", "AAECAwQFBgcICQ==" };
const char *const FMTS[] = { "{}", "[{}]", "{} and {}", "{x}", "{X}", "{#x}", "{o}", "{b}", "{+}", "{d}", "{c}", "{.3}", "{.3f}", "{e}", "{.2E}", "{f}", "{&1} {&1}" };
const char PADS[] = { '*', '#', '.', '-', '=', '~', '^', '!' };

void build_shared(SharedData &S, uint64_t seed) {
    vh::Rng rng(seed ^ 0x5eed5eedULL);
    for (const char *t : TEXTS) S.strs.push_back(vh::raw_string(t));
    for (int i = 0; i < 6; ++i) {           // seeded mixed-case ASCII of assorted lengths (around the small-string limit too)
        std::string s; size_t n = (size_t)rng.below(i < 3 ? 20 : 80);
        for (size_t k = 0; k < n; ++k) { int c = (int)rng.below(60); s.push_back(c < 26 ? 'a' + c : c < 52 ? 'A' + (c - 26) : " ,-ab"[c % 5]); }
        S.strs.push_back(vh::raw_string(s));
    }
    for (const char *t : NEEDLES) S.needles.push_back(vh::raw_string(t));
    for (const char *t : NUMBERS) S.numbers.push_back(vh::raw_string(t));
    for (const char *t : ENCODED) S.encoded.push_back(vh::raw_string(t));
    for (const char *t : TEXTS) { S.bufs.push_back(ST::char_buffer(t, strlen(t))); S.cstrs.push_back(t); }
    { std::string b; for (int i = 0; i < 256; ++i) b.push_back((char)i); S.bufs.push_back(ST::char_buffer(b.data(), b.size())); }
    for (const char *t : NEEDLES) S.cstrs.push_back(t);
    const char16_t u16a[] = u"UTF-16 text é€ \U0001F600 end"; S.u16s.push_back(ST::utf16_buffer(u16a, sizeof u16a / 2 - 1));
    const char16_t u16b[] = u"short"; S.u16s.push_back(ST::utf16_buffer(u16b, 5));
    const char16_t u16c[] = { 'b', 'a', 'd', 0xD800, 'x', 0 }; S.u16s.push_back(ST::utf16_buffer(u16c, 5));
    const char32_t u32a[] = U"UTF-32 text é€ \U0001F600 end"; S.u32s.push_back(ST::utf32_buffer(u32a, sizeof u32a / 4 - 1));
    const char32_t u32b[] = { 'o', 'u', 't', 0x110000, 'x', 0 }; S.u32s.push_back(ST::utf32_buffer(u32b, 5));
    for (const char *f : FMTS) S.fmts.push_back(f);
}

// ---------------------------------------------------------------- one thread's program
enum Op : int {
    O_compare, O_compare_i, O_compare_n, O_find, O_find_char, O_find_last, O_contains, O_starts_ends, O_substr, O_trim, O_case,
    O_replace, O_split, O_tokenize, O_convert, O_hash, O_to_num, O_codec, O_format, O_printf, O_sstream, O_ostream, O_before_after,
    O_buf_compare, O_from_num, O_l_assign, O_l_move, O_l_append, O_l_set, O_l_const, O_l_concat, O_COUNT
};
const char *const OP_NAMES[] = {
    "compare", "compare_i", "compare_n", "find", "find_char", "find_last", "contains", "starts_ends", "substr", "trim", "case",
    "replace", "split", "tokenize", "convert", "hash", "to_num", "codec", "format", "printf", "string_stream", "ostream", "before_after",
    "buffer_compare", "from_num", "local_assign", "local_move", "local_append", "local_set", "local_const", "local_concat" };

struct Mix { const char *name; std::vector<int> ops; };
const std::vector<Mix> &mixes() {
    static const std::vector<Mix> m = {
        { "all", {} },
        { "ci", { O_compare_i, O_compare_n, O_find, O_find_char, O_find_last, O_contains, O_starts_ends, O_case, O_replace, O_split, O_hash, O_before_after } },
        { "fmt", { O_format, O_printf, O_sstream, O_ostream, O_from_num } },
        { "printf", { O_printf, O_printf, O_printf, O_format } },
        { "conv", { O_convert, O_codec, O_to_num, O_from_num, O_buf_compare } },
        { "slice", { O_substr, O_trim, O_split, O_tokenize, O_replace, O_find, O_before_after, O_compare } },
        { "local", { O_l_assign, O_l_move, O_l_append, O_l_set, O_l_const, O_l_concat, O_compare, O_find } },
    };
    return m;
}

struct Trace {
    std::vector<uint64_t> after;      // running digest after each operation
    std::vector<uint8_t> op;
    uint64_t final = 0;
};

struct Thread {
    const SharedData &S; int tid; vh::Rng rng; vh::Rng yrng; vh::Fnv f;
    std::vector<ST::string> loc;
    ST::string_stream ss; std::ostringstream os;
    FILE *fp = nullptr; char *mem = nullptr; size_t memsz = 0, memseen = 0;
    char pad; std::vector<std::string> padfmt;

    Thread(const SharedData &s, uint64_t seed, int t) : S(s), tid(t), rng(seed * 0x9E3779B97F4A7C15ULL + 0x1000 + (uint64_t)t), yrng(seed + 77 * (uint64_t)t), loc(4) {
        pad = PADS[t % 8];
        // per-thread format strings with this thread's pad character (std::string only: no library call before the barrier)
        for (int w : { 17, 24, 33, 40, 64, 6, 12 }) {
            std::string p(1, pad), ws = std::to_string(w);
            padfmt.push_back("{>" + ws + "_" + p + "}|{" + ws + "_" + p + "}\n");
            padfmt.push_back("{<" + ws + "_" + p + "}|{_" + p + ws + "x}|{_" + p + ">" + ws + ".2f}\n");
        }
    }
    ~Thread() { if (fp) fclose(fp); free(mem); }

    void d(const ST::string &s) { f.u64(s.size()); for (size_t i = 0; i < s.size(); ++i) f.byte((unsigned char)s.c_str()[i]); f.byte(s.c_str()[s.size()] == 0 ? 0xFE : 0xEE); }
    template <class T> void d(const ST::buffer<T> &b) { f.u64(b.size()); for (size_t i = 0; i < b.size(); ++i) f.u64(vh::unit_val(b.data()[i])); f.byte(b.data()[b.size()] == 0 ? 0xFE : 0xEE); }
    void d(const std::vector<ST::string> &v) { f.u64(v.size()); for (auto &x : v) d(x); }
    void d(const std::string &s) { f.str(s); }
    void di(int64_t v) { f.u64((uint64_t)v); }
    void dd(double v) { uint64_t b; memcpy(&b, &v, 8); f.u64(b); }

    const ST::string &subj() { return S.strs[rng.below(S.strs.size())]; }
    const ST::string &needle() { return S.needles[rng.below(S.needles.size())]; }
    const std::string &cstr() { return S.cstrs[rng.below(S.cstrs.size())]; }
    ST::case_sensitivity_t cs() { return rng.chance(2, 3) ? ST::case_insensitive : ST::case_sensitive; }
    // a subject that is either shared or one of this thread's own strings
    const ST::string &any() { return rng.chance(1, 4) ? loc[rng.below(loc.size())] : subj(); }

    void flush_mem() {
        fflush(fp);
        f.u64(memsz - memseen);
        for (size_t i = memseen; i < memsz; ++i) f.byte((unsigned char)mem[i]);
        memseen = memsz;
    }

    void step(int op) {
        switch (op) {
        case O_compare: { const ST::string &a = any(), &b = any(); di(a.compare(b)); di(a.compare(cstr().c_str())); di(a == b); di(a < b); di(a != b); break; }
        case O_compare_i: { const ST::string &a = any(), &b = any(); di(a.compare_i(b)); di(a.compare(b, ST::case_insensitive)); di(a.compare_i(cstr().c_str()));
                            di(ST::less_i()(a, b)); di(ST::equal_i()(a, b)); break; }
        case O_compare_n: { const ST::string &a = any(), &b = any(); size_t n = rng.below(20); di(a.compare_n(b, n)); di(a.compare_ni(b, n)); di(a.compare_ni(cstr().c_str(), n)); break; }
        case O_find: { const ST::string &a = any(); const ST::string &n = needle(); auto c = cs(); di(a.find(n, c)); di(a.find(rng.below(a.size() + 2), n, c)); di(a.find(cstr().c_str(), c)); break; }
        case O_find_char: { const ST::string &a = any(); char ch = "aAoOzZ, x"[rng.below(9)]; auto c = cs(); di(a.find(ch, c)); di(a.find(rng.below(a.size() + 2), ch, c)); di(a.find_last(ch, c)); break; }
        case O_find_last: { const ST::string &a = any(); const ST::string &n = needle(); auto c = cs(); di(a.find_last(n, c)); di(a.find_last(rng.below(a.size() + 2), n, c)); di(a.find_last(cstr().c_str(), c)); break; }
        case O_contains: { const ST::string &a = any(); auto c = cs(); di(a.contains(needle(), c)); di(a.contains(cstr().c_str(), c)); di(a.contains("aAoOzZ, x"[rng.below(9)], c)); break; }
        case O_starts_ends: { const ST::string &a = any(); const ST::string &n = needle(); auto c = cs(); di(a.starts_with(n, c)); di(a.ends_with(n, c)); di(a.starts_with(cstr().c_str(), c)); di(a.ends_with(cstr().c_str(), c)); break; }
        case O_substr: { const ST::string &a = any(); d(a.substr((ST_ssize_t)rng.below(a.size() + 3) - 1, rng.below(a.size() + 3))); d(a.left(rng.below(a.size() + 2))); d(a.right(rng.below(a.size() + 2))); break; }
        case O_trim: { const ST::string &a = any(); d(a.trim()); d(a.trim_left()); d(a.trim_right(" \r\n.,-")); d(a.trim("aAbBZz ")); break; }
        case O_case: { const ST::string &a = any(); d(a.to_upper()); d(a.to_lower()); break; }
        case O_replace: { const ST::string &a = any(); const ST::string &n = needle(); auto c = cs(); d(a.replace(n, needle(), c)); d(a.replace(cstr().c_str(), "<>", c)); d(a.replace(n, "", c)); break; }
        case O_split: { const ST::string &a = any(); auto c = cs(); d(a.split(needle(), rng.chance(1, 3) ? rng.below(4) : ST_AUTO_SIZE, c)); d(a.split(",oO xA"[rng.below(6)], ST_AUTO_SIZE, c));
                        d(a.split(cstr().c_str(), ST_AUTO_SIZE, c)); break; }
        case O_tokenize: { const ST::string &a = any(); d(a.tokenize()); d(a.tokenize(" ,;=-")); break; }
        case O_convert: { const ST::string &a = any(); d(a.to_utf16()); d(a.to_utf32()); d(a.to_wchar()); d(a.to_utf8());
                          try { d(a.to_latin_1(rng.chance(1, 2))); } catch (const ST::unicode_error &) { f.byte(0xE1); }
                          d(a.to_std_string()); { std::u16string u = a.to_std_u16string(); f.u64(u.size()); }
                          const ST::utf16_buffer &u = S.u16s[rng.below(S.u16s.size())];
                          try { d(ST::string::from_utf16(u, rng.chance(1, 2) ? ST::substitute_invalid : ST::check_validity)); } catch (const ST::unicode_error &) { f.byte(0xE2); }
                          const ST::utf32_buffer &w = S.u32s[rng.below(S.u32s.size())];
                          try { d(ST::string::from_utf32(w, rng.chance(1, 2) ? ST::substitute_invalid : ST::check_validity)); } catch (const ST::unicode_error &) { f.byte(0xE3); }
                          d(ST::utf16_to_utf32(u, ST::substitute_invalid)); d(ST::utf32_to_utf16(w, ST::substitute_invalid));
                          const ST::char_buffer &b = S.bufs[rng.below(S.bufs.size())];
                          d(ST::string::from_latin_1(b)); d(ST::string::from_utf8(b, ST::substitute_invalid));
                          try { d(ST::string::from_utf8(b, ST::check_validity)); } catch (const ST::unicode_error &) { f.byte(0xE4); }
                          break; }
        case O_hash: { const ST::string &a = any(); di((int64_t)ST::hash()(a)); di((int64_t)ST::hash_i()(a)); di((int64_t)std::hash<ST::string>()(a)); break; }
        case O_to_num: { const ST::string &a = S.numbers[rng.below(S.numbers.size())]; int base = (int)(rng.chance(1, 2) ? 0 : std::vector<int>{ 10, 16, 8, 2, 36 }[rng.below(5)]);
                         ST::conversion_result r; di(a.to_int(r, base)); di(r.ok()); di(r.full_match()); di(a.to_uint(base)); di(a.to_long_long(r, base)); di(r.full_match());
                         di((int64_t)a.to_ulong_long(base)); di(a.to_short(base)); dd(a.to_double(r)); di(r.ok()); di(r.full_match()); dd(a.to_float()); di(a.to_bool(r)); di(r.ok()); break; }
        case O_codec: { const ST::char_buffer &b = S.bufs[rng.below(S.bufs.size())]; d(ST::hex_encode(b)); d(ST::base64_encode(b)); d(ST::base64_encode(b.data(), rng.below(b.size() + 1)));
                        const ST::string &e = S.encoded[rng.below(S.encoded.size())];
                        try { d(ST::hex_decode(e)); } catch (const ST::codec_error &) { f.byte(0xE5); }
                        try { d(ST::base64_decode(e)); } catch (const ST::codec_error &) { f.byte(0xE6); }
                        char out[64]; memset(out, 0x5A, sizeof out); ST_ssize_t n = ST::base64_decode(e, out, sizeof out); di(n); for (ST_ssize_t i = 0; i < n && i < 64; ++i) f.byte((unsigned char)out[i]);
                        n = ST::hex_decode(e, out, sizeof out); di(n); for (ST_ssize_t i = 0; i < n && i < 64; ++i) f.byte((unsigned char)out[i]);
                        break; }
        case O_format: { const ST::string &a = any(); int64_t v = (int64_t)rng.next() >> rng.below(64); double x = (double)(int64_t)rng.next() / (double)(1 + rng.below(1000000));
                         try {
                             switch (rng.below(12)) {
                             case 0: d(ST::format("{}|{}|{}", a, cstr().c_str(), std::string("std"))); break;
                             case 1: d(ST::format("{}|{x}|{X}|{o}|{b}|{+}", (int)v, (unsigned)v, (unsigned long)v, (unsigned short)v, (unsigned char)v, (long)v)); break;
                             case 2: d(ST::format("{}|{}|{}|{}", (short)v, (long long)v, (unsigned long long)v, (signed char)v)); break;
                             case 3: d(ST::format("{}|{.3}|{f}|{e}|{.2E}|{10.4f}", x, x, x, x, (float)x, x)); break;
                             case 4: d(ST::format("{}|{c}|{c}|{}", 'q', (int)('A' + rng.below(26)), U'€', true)); break;
                             case 5: d(ST::format(padfmt[rng.below(padfmt.size()) & ~1u].c_str(), a, (int)v)); break;
                             case 6: d(ST::format(padfmt[rng.below(padfmt.size()) | 1u].c_str(), cstr().c_str(), (unsigned)v, x)); break;
                             case 7: d(ST::format("{&2} {&1} {&2}", a, (int)v)); break;
                             case 8: d(ST::format("{>20}|{<20}|{08}|{#x}|{#o}", a, needle(), (int)v, (unsigned)v, (unsigned)v)); break;
                             case 9: d(ST::format(ST::substitute_invalid, "{}{}", S.bufs[rng.below(S.bufs.size())].c_str(), L"wide é")); break;
                             case 10: d(ST::format_latin_1("{}|{}", a, (int)v)); break;
                             default: d(ST::format(S.fmts[rng.below(S.fmts.size())], (int)v, a)); break;
                             }
                         } catch (const ST::bad_format &) { f.byte(0xE7); } catch (const ST::unicode_error &) { f.byte(0xE8); }
                         break; }
        case O_printf: { const ST::string &a = any(); int v = (int)rng.next(); double x = (double)(int)rng.next() / 97.0;
                         if (!fp) fp = open_memstream(&mem, &memsz);
                         if (rng.chance(1, 2)) ST::printf(fp, padfmt[rng.below(padfmt.size()) & ~1u].c_str(), a, v);
                         else ST::printf(fp, padfmt[rng.below(padfmt.size()) | 1u].c_str(), cstr().c_str(), (unsigned)v, x);
                         flush_mem(); break; }
        case O_sstream: { const ST::string &a = any(); ss << a << '|' << (int)rng.next() << '|' << (unsigned long)rng.next() << '|' << (double)(int)rng.next() / 7.0 << cstr().c_str() << L"wé" << u"u16" << (long long)-(int64_t)rng.below(1u << 30);
                          if (rng.chance(1, 3)) { d(ss.to_string()); ss.truncate(); } else f.u64(ss.size());
                          if (rng.chance(1, 8)) ss.append_char(pad, 1 + rng.below(40)); break; }
        case O_ostream: { const ST::string &a = any(); os << a << '|' << needle(); d(os.str()); os.str(std::string()); break; }
        case O_before_after: { const ST::string &a = any(); const ST::string &n = needle(); auto c = cs(); d(a.before_first(n, c)); d(a.after_first(n, c)); d(a.before_last(n, c)); d(a.after_last(n, c));
                               d(a.before_first(',', c)); d(a.after_last(cstr().c_str(), c)); break; }
        case O_buf_compare: { const ST::char_buffer &a = S.bufs[rng.below(S.bufs.size())], &b = S.bufs[rng.below(S.bufs.size())]; di(a.compare(b)); di(a.compare_n(b, rng.below(20))); di(a == b);
                              ST::char_buffer c = a; d(c); di(c.compare(a)); break; }
        case O_from_num: { int64_t v = (int64_t)rng.next() >> rng.below(64); d(ST::string::from_int((int)v, (int)(2 + rng.below(35)), rng.chance(1, 2))); d(ST::string::from_uint((unsigned)v, 16));
                           d(ST::string::from_double((double)v / 3.0, "fge"[rng.below(3)])); d(ST::string::from_bool(v & 1)); d(ST::string::fill(rng.below(40), pad)); break; }
        case O_l_assign: { ST::string &l = loc[rng.below(loc.size())]; l = subj(); d(l); ST::string c(l); d(c); break; }
        case O_l_move: { size_t i = rng.below(loc.size()), j = rng.below(loc.size()); if (i != j) { loc[i] = std::move(loc[j]); loc[j] = needle(); } d(loc[i]); break; }
        case O_l_append: { ST::string &l = loc[rng.below(loc.size())]; if (l.size() > 400) l.clear(); l += subj(); l += "+"; l += (char32_t)(0x40 + rng.below(0x2000)); d(l); break; }
        case O_l_set: { ST::string &l = loc[rng.below(loc.size())];
                        switch (rng.below(4)) {
                        case 0: l.set(S.u16s[rng.below(2)]); break;
                        case 1: l = ST::string::from_latin_1(S.bufs[rng.below(S.bufs.size())]); break;
                        case 2: l.clear(); break;
                        default: try { l.set(S.bufs[rng.below(S.bufs.size())], ST::check_validity); } catch (const ST::unicode_error &) { f.byte(0xE9); } break;
                        }
                        d(l); break; }
        case O_l_const: { const ST::string &l = loc[rng.below(loc.size())]; const ST::string &n = needle(); di(l.find(n, ST::case_insensitive)); d(l.to_upper()); d(l.replace(n, subj(), ST::case_insensitive)); di((int64_t)ST::hash_i()(l)); break; }
        case O_l_concat: { ST::string r = subj() + needle(); r = r + "|" + loc[rng.below(loc.size())].left(30); d(r); ST::string &l = loc[rng.below(loc.size())]; l = r.substr(0, 100); break; }
        }
    }

    void run(size_t len, const std::vector<int> &menu, int ymode, Trace &tr) {
        tr.after.reserve(len); tr.op.reserve(len);
        for (size_t i = 0; i < len; ++i) {
            int op = menu.empty() ? (int)rng.below(O_COUNT) : menu[rng.below(menu.size())];
            f.byte((unsigned)op);
            // an exception that an operation lets escape is a result like any other (same kind in both runs, or a difference)
            try { step(op); }
            catch (const ST::unicode_error &) { f.byte(0xF1); }
            catch (const ST::codec_error &) { f.byte(0xF2); }
            catch (const ST::bad_format &) { f.byte(0xF3); }
            catch (const std::out_of_range &) { f.byte(0xF4); }
            catch (const std::invalid_argument &) { f.byte(0xF5); }
            catch (const std::bad_alloc &) { f.byte(0xF6); }
            catch (const std::exception &) { f.byte(0xF7); }
            tr.after.push_back(f.h); tr.op.push_back((uint8_t)op);
            if (ymode == 1 && yrng.chance(1, 6)) sched_yield();
        }
        if (fp) flush_mem();
        try { d(ss.to_string()); } catch (const ST::unicode_error &) { f.byte(0xF1); }    // a slice may have cut a multi-byte sequence
        for (auto &l : loc) d(l);
        tr.final = f.h;
    }
};

struct CaseSpec { int n; uint64_t seed; size_t len; std::string mix; int y; int rounds; };

std::atomic<int> g_ready(0);
std::atomic<bool> g_go(false);

// the body of the child process: returns the observation text
std::string child_body(const CaseSpec &c) {
    const Mix *mix = nullptr;
    for (auto &m : mixes()) if (c.mix == m.name) mix = &m;
    if (!mix) return "error unknown-mix";
    SharedData S;
    build_shared(S, c.seed);          // assume_valid / raw-buffer constructors only
    std::vector<Trace> conc_tr;
    std::string first;
    int bad_round = -1;
    std::vector<Trace> seq;
    for (int round = 0; round < c.rounds && bad_round < 0; ++round) {
        std::vector<Trace> tr(c.n);
        g_ready.store(0); g_go.store(false);
        std::vector<std::thread> th;
        for (int t = 0; t < c.n; ++t)
            th.emplace_back([&, t] {
                Thread me(S, c.seed, t);
                g_ready.fetch_add(1);
                // released together: spin on the atomic; on an oversubscribed machine fall back to very short sleeps so that
                // the threads that have not arrived yet get a core (the release is still seen within a few tens of microseconds)
                unsigned spins = 0;
                while (!g_go.load(std::memory_order_acquire)) { if (++spins > 4000) { timespec ts = { 0, 20000 }; nanosleep(&ts, nullptr); } }
                if (c.y == 2) { for (volatile int k = 0; k < 3000 * t; ++k) { } }      // staggered start
                me.run(c.len, mix->ops, c.y, tr[t]);
            });
        while (g_ready.load() != c.n) { timespec ts = { 0, 20000 }; nanosleep(&ts, nullptr); }
        g_go.store(true, std::memory_order_release);
        for (auto &x : th) x.join();
        if (seq.empty()) {
            // the same programs, one after the other, on this thread
            seq.resize(c.n);
            for (int t = 0; t < c.n; ++t) { Thread me(S, c.seed, t); me.run(c.len, mix->ops, 0, seq[t]); }
        }
        for (int t = 0; t < c.n && bad_round < 0; ++t) {
            if (tr[t].final == seq[t].final && tr[t].after == seq[t].after) continue;
            bad_round = round;
            size_t i = 0; while (i < tr[t].after.size() && i < seq[t].after.size() && tr[t].after[i] == seq[t].after[i]) ++i;
            first = "t" + std::to_string(t) + ":op" + std::to_string(i) + ":" + (i < seq[t].op.size() ? OP_NAMES[seq[t].op[i]] : "final");
        }
        conc_tr = tr;
    }
    vh::Fnv fs, fc; std::map<int, long> cnt;
    for (int t = 0; t < c.n; ++t) { fs.u64(seq[t].final); fc.u64(conc_tr[t].final); }
    std::string o = "race=none same=" + std::string(bad_round < 0 ? "1" : "0") + " ops=" + std::to_string((size_t)c.n * c.len) + " seq=" + fs.hex() + " conc=" + fc.hex();
    if (bad_round >= 0) o += " first=" + first + " round=" + std::to_string(bad_round);
    return o;
}

std::string read_all(int fd) {
    std::string s; char buf[4096]; ssize_t n;
    while ((n = read(fd, buf, sizeof buf)) > 0 || (n < 0 && errno == EINTR)) if (n > 0) s.append(buf, (size_t)n);
    return s;
}

std::string exec_case(const vh::Args &a) {
    if (a.op != "conc") return "error unknown-op";
    CaseSpec c;
    c.n = (int)a.num("n", 2); c.seed = strtoull(a.get("seed").c_str(), nullptr, 16); c.len = (size_t)a.num("len", 100);
    c.mix = a.get("mix"); c.y = (int)a.num("y", 0); c.rounds = (int)a.num("rounds", 1);
    if (c.n < 1 || c.n > 64 || c.len > 1000000 || c.rounds < 1) return "error bad-arguments";
    if (g_replay) {                   // a replayed line is given more chances to exhibit a scheduling-dependent failure,
        long per_round = (long)c.n * (long)c.len + 1;      // within a budget that keeps the case well below the runner's time limit
        long r = std::min<long>(c.rounds * 4L, std::max<long>(c.rounds, 12000 / per_round));
        c.rounds = (int)std::max<long>(r, 1);
    }
    int po[2], pe[2];
    if (pipe(po) || pipe(pe)) return "error pipe";
    pid_t pid = fork();
    if (pid < 0) return "error fork";
    if (pid == 0) {
        close(po[0]); close(pe[0]); dup2(pe[1], 2); close(pe[1]);
        std::string o;
        try { o = child_body(c); } catch (const std::exception &e) { o = std::string("error exception:") + typeid(e).name(); }
        size_t off = 0; while (off < o.size()) { ssize_t w = write(po[1], o.data() + off, o.size() - off); if (w <= 0) break; off += (size_t)w; }
#ifdef VH_COVERAGE
        vh::__gcov_dump();
#endif
        _exit(0);
    }
    close(po[1]); close(pe[1]);
    // both pipes are small: read stdout first (one short line), then the report
    std::string out = read_all(po[0]); close(po[0]);
    std::string err = read_all(pe[0]); close(pe[0]);
    int status = 0; while (waitpid(pid, &status, 0) < 0 && errno == EINTR) { }
    size_t p = err.find("ThreadSanitizer: ");
    if (p != std::string::npos) {
        size_t e = err.find_first_of("(\n", p + 17);
        std::string cls = err.substr(p + 17, e - (p + 17));
        while (!cls.empty() && cls.back() == ' ') cls.pop_back();
        for (char &ch : cls) if (ch == ' ' || ch == '\t') ch = '_';
        // first frame inside the library's headers, if the report is symbolized
        std::string at = "?";
        size_t h = err.find("/include/st_", p);
        if (h != std::string::npos) { size_t e2 = err.find_first_of(" \n)", h); at = err.substr(h + 9, e2 - (h + 9)); size_t c2 = at.find(':'); if (c2 != std::string::npos) { size_t c3 = at.find(':', c2 + 1); if (c3 != std::string::npos) at.resize(c3); } }
        return "race=" + cls + " same=- at=" + at;
    }
    if (!(WIFEXITED(status) && WEXITSTATUS(status) == 0) || out.empty()) {
        // anything else that killed the child (assertion, signal): let the runner attribute it to this case
        fputs(err.c_str(), stderr); fflush(stderr);
        if (WIFSIGNALED(status)) { signal(WTERMSIG(status), SIG_DFL); raise(WTERMSIG(status)); }
        _exit(WIFEXITED(status) ? WEXITSTATUS(status) : 98);
    }
    return out;
}

void gen(vh::Emitter &em, const vh::Options &opt) {
    bool thorough = opt.tier == "thorough";
    vh::Rng rng(opt.seed * 1000003ULL + 17);
    long idx = 0;
    auto emit = [&](int n, const char *mix, size_t len, int y, int rounds) {
        uint64_t seed = rng.next() & 0xffffffffULL;
        if (idx++ % opt.nslices != opt.slice) return;
        std::string s = "conc n=" + std::to_string(n) + " seed="; vh::put_hex(s, seed, 8);
        s += " len=" + std::to_string(len) + " mix=" + mix + " y=" + std::to_string(y) + " rounds=" + std::to_string(rounds);
        em.emit(s);
    };
    // every mix x thread count x start discipline
    int reps = thorough ? 100 : 3;
    for (int rep = 0; rep < reps; ++rep)
        for (int n : { 2, 4, 8 })
            for (auto &m : mixes()) {
                std::string name = m.name;
                size_t len = name == "printf" ? (thorough ? 500 : 300) : (thorough ? 300 : 150);
                for (int y = 0; y < 3; ++y)
                    emit(n, m.name, len, y, name == "printf" ? 2 : 1);
            }
    // longer single-class runs with many threads (each case stays far below the runner's per-case time limit)
    for (int rep = 0; rep < (thorough ? 150 : 4); ++rep) {
        emit(8, "printf", thorough ? 1000 : 500, 0, 2);
        emit(8, "ci", thorough ? 1000 : 500, 2, 1);
        emit(4, "all", thorough ? 1500 : 800, 1, 1);
    }
}

} // namespace

int main(int argc, char **argv) {
    for (int i = 1; i < argc; ++i) if (std::string(argv[i]) == "--replay") g_replay = true;
    return vh::run_main(argc, argv, gen, exec_case);
}
