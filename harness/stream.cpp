// Correspondence harness for C16 (and the string_stream part of C19): histories of ST::string_stream
// operations over a pool of 3 streams in raw storage, with a snapshot of every live stream after every step.
//   sshist g=<generator> ops=<op;op;…>               => [x<i>=unicode_error] [r<i>=<to_string result>] s<i>=<snapshot> … end=<leak|clean>
//   ssfault g=… ops=<prefix ops> op=<op> k=<n>       => as sshist for the prefix, then the last op with its k-th allocation failing:
//                                                       f=<completed|bad_alloc|unicode_error> sf=<snapshot> end=…
//   a history that a C++ program may not perform (member call on a dead stream, …; only shrinking produces these) => inadmissible
// ops: D<o> ctor | X<o> dtor | M<o>,<s> move ctor | m<o>,<s> move assign
//      a<o>:<hex> append(ptr,size) | z<o>:<hex|N> append(cstr) | g<o>,<n>,<seed> append(ptr,n) of LCG bytes | c<o>,<count>,<ch> append_char
//      t<o>,<n> truncate(n) | u<o> truncate() | e<o>,<n> erase(n) | s<o>,<utf8>,<a|s|c|d> to_string
//      o<o>,<kind>[,<value>][:<payload>]  operator<< : kind = cstr wcs u16s u32s u8s (pointer forms, payload N = null) | char,<c> |
//            st std wstd u16std u32std u8std sv wsv u16sv u32sv u8sv path | int uint long ulong llong ullong,<decimal>:<expected rendering> |
//            float double,<bit pattern hex>:<expected rendering>
// snapshot: live streams in id order, "o<id>:<size>:<bytes>:<where>", bytes = hex up to 32 bytes, else #<fnv-1a of the bytes>,
//      where = S (raw_buffer() inside this very object) | A<id>/Z<id> (inside ANOTHER live/dead stream) | H<n> (elsewhere: heap block,
//      numbered by first appearance in this snapshot); "-" if none alive;
//      bytes = !dangling / !oversize when raw_buffer()[0,size()) is not inside live storage: nothing is read, the history stops with end=abandoned
#include "st_common.hpp"
// exported by the ASan runtime (gcc ships no <sanitizer/allocator_interface.h>)
extern "C" int __sanitizer_get_ownership(const volatile void *p);
extern "C" size_t __sanitizer_get_allocated_size(const volatile void *p);
#include <climits>
#include <cfloat>
#include <cmath>
#include <memory>
using namespace vh;

typedef ST::string_stream SS;
static const int NOBJ = 3;

static std::string repr(const char *p, size_t n) {
    if (n <= 32) return hex_units(p, n);
    Fnv f; for (size_t i = 0; i < n; ++i) f.byte((unsigned char)p[i]);
    return "#" + f.hex();
}

static void lcg_bytes(std::string &out, uint64_t seed, size_t n) {
    uint64_t x = seed & 0x7fffffffULL;
    out.resize(n);
    for (size_t i = 0; i < n; ++i) { x = (x * 1103515245ULL + 12345ULL) & 0x7fffffffULL; out[i] = (char)((x >> 16) & 0xFF); }
}

static std::vector<std::string> split(const std::string &s, char sep) {
    std::vector<std::string> v; size_t i = 0;
    while (i <= s.size()) { size_t j = s.find(sep, i); if (j == std::string::npos) j = s.size(); if (j > i) v.push_back(s.substr(i, j - i)); i = j + 1; }
    return v;
}

// exact-size heap copy of units (optionally NUL-terminated), so ASan sees a one-unit over-read
template <class T> static std::unique_ptr<T[]> exact(const std::vector<uint64_t> &us, bool nul) {
    std::unique_ptr<T[]> p(new T[us.size() + (nul ? 1 : 0) + ((us.empty() && !nul) ? 1 : 0)]);
    for (size_t i = 0; i < us.size(); ++i) p[i] = (T)us[i];
    if (nul) p[us.size()] = 0;
    return p;
}

// everything an operation needs, parsed and allocated BEFORE the library is called (fault positions count library allocations only)
struct Prep {
    char c = 0; int o = 0; long a1 = 0; unsigned long long a2 = 0; std::string kind, val;
    bool null = false; size_t n = 0;
    std::vector<uint64_t> us;
    std::unique_ptr<char[]> p8; std::unique_ptr<wchar_t[]> pw; std::unique_ptr<char16_t[]> p16; std::unique_ptr<char32_t[]> p32;
    std::string s8; std::wstring sw; std::u16string s16; std::u32string s32; std::u8string su8;
    ST::string st; std::filesystem::path path;
};

static int width_of_kind(const std::string &k) {
    if (k == "wcs" || k == "u32s" || k == "wstd" || k == "u32std" || k == "wsv" || k == "u32sv") return 32;
    if (k == "u16s" || k == "u16std" || k == "u16sv") return 16;
    return 8;
}

static void prepare(Prep &p, const std::string &op) {
    p.c = op[0]; p.o = atoi(op.c_str() + 1);
    size_t colon = op.find(':');
    std::string head = op.substr(1, colon == std::string::npos ? std::string::npos : colon - 1);
    std::string payload = colon == std::string::npos ? "" : op.substr(colon + 1);
    std::vector<std::string> f = split(head, ',');
    if (p.c == 'o') { p.kind = f.size() > 1 ? f[1] : ""; p.val = f.size() > 2 ? f[2] : ""; }
    else { if (f.size() > 1) p.a1 = atol(f[1].c_str()); if (f.size() > 1) p.a2 = strtoull(f[1].c_str(), nullptr, 10); }
    std::string f2 = f.size() > 2 ? f[2] : "";
    switch (p.c) {
    case 'a': p.us = parse_units(payload, 8); p.n = p.us.size(); p.p8 = exact<char>(p.us, false); break;
    case 'z': if (payload == "N") p.null = true; else { p.us = parse_units(payload, 8); p.p8 = exact<char>(p.us, true); } break;
    case 'g': { lcg_bytes(p.s8, strtoull(f2.c_str(), nullptr, 10), (size_t)p.a1); p.n = p.s8.size();
                p.p8.reset(new char[p.n ? p.n : 1]); memcpy(p.p8.get(), p.s8.data(), p.n); break; }
    case 'c': p.val = f2; break;
    case 's': p.val = f2; break;
    case 'o': {
        int w = width_of_kind(p.kind);
        if (payload == "N") { p.null = true; break; }
        p.us = parse_units(payload, w); p.n = p.us.size();
        const std::string &k = p.kind;
        if (k == "cstr" || k == "u8s") p.p8 = exact<char>(p.us, true);
        else if (k == "wcs") p.pw = exact<wchar_t>(p.us, true);
        else if (k == "u16s") p.p16 = exact<char16_t>(p.us, true);
        else if (k == "u32s") p.p32 = exact<char32_t>(p.us, true);
        else if (k == "st") { std::string b; for (auto u : p.us) b.push_back((char)u); p.st = raw_string(b); }
        else if (k == "std") { for (auto u : p.us) p.s8.push_back((char)u); }
        else if (k == "u8std") { for (auto u : p.us) p.su8.push_back((char8_t)u); }
        else if (k == "wstd") { for (auto u : p.us) p.sw.push_back((wchar_t)u); }
        else if (k == "u16std") { for (auto u : p.us) p.s16.push_back((char16_t)u); }
        else if (k == "u32std") { for (auto u : p.us) p.s32.push_back((char32_t)u); }
        else if (k == "sv" || k == "u8sv") p.p8 = exact<char>(p.us, false);
        else if (k == "wsv") p.pw = exact<wchar_t>(p.us, false);
        else if (k == "u16sv") p.p16 = exact<char16_t>(p.us, false);
        else if (k == "u32sv") p.p32 = exact<char32_t>(p.us, false);
        else if (k == "path") { std::string b; for (auto u : p.us) b.push_back((char)u); p.path = std::filesystem::path(b); }
        break; }
    default: break;
    }
}

struct Arm {   // the k-th allocation from here fails (k < 0: never)
    explicit Arm(long k) { if (k >= 0) { alloc_ctl().count = 0; alloc_ctl().fail_at = k; } }
    ~Arm() { alloc_ctl().fail_at = -1; }
};

struct SPool {
    alignas(SS) unsigned char raw[NOBJ][sizeof(SS)];
    bool live[NOBJ] = {};
    SS *at(int o) { return reinterpret_cast<SS *>(raw[o]); }

    bool insane = false;   // some live stream's (raw_buffer(), size()) cannot be read safely: the history is abandoned

    // can raw_buffer()[0,size()) of stream o be read?  "" = yes; otherwise what is wrong (nothing is read then, so a broken
    // stream shows up as a readable observation instead of a sanitizer abort of the harness)
    std::string unsafe(int o, std::string &where, std::vector<const void *> &blocks) {
        SS *s = at(o);
        const char *p = s->raw_buffer(); size_t n = s->size();
        const unsigned char *pc = reinterpret_cast<const unsigned char *>(p);
        for (int q = 0; q < NOBJ; ++q)
            if (pc >= raw[q] && pc < raw[q] + sizeof(SS)) {
                where = q == o ? "S" : (live[q] ? "A" : "Z") + std::to_string(q);
                return n > (size_t)(raw[q] + sizeof(SS) - pc) ? "!oversize" : "";
            }
        size_t k = 0; while (k < blocks.size() && blocks[k] != p) ++k;
        if (k == blocks.size()) blocks.push_back(p);
        where = "H" + std::to_string(k);
        if (p == nullptr || !__sanitizer_get_ownership(p)) return "!dangling";
        if (n > __sanitizer_get_allocated_size(p)) return "!oversize";
        return "";
    }

    std::string snapshot() {
        std::string out; std::vector<const void *> blocks;
        for (int o = 0; o < NOBJ; ++o) {
            if (!live[o]) continue;
            std::string where, bad = unsafe(o, where, blocks);
            size_t n = at(o)->size();
            if (!bad.empty()) insane = true;
            if (!out.empty()) out += ",";
            out += "o" + std::to_string(o) + ":" + std::to_string(n) + ":" + (bad.empty() ? repr(at(o)->raw_buffer(), n) : bad) + ":" + where;
        }
        return out.empty() ? "-" : out;
    }

    // forget every stream without running destructors (after an insane snapshot a destructor may release a foreign block)
    void abandon() { for (int o = 0; o < NOBJ; ++o) live[o] = false; insane = false; }

    // runs one prepared operation; `threw` reports a unicode_error; bad_alloc (fault mode) propagates
    void invoke(Prep &p, long k, bool &threw, std::string &result) {
        int o = p.o; int src = (int)p.a1;
        if (p.c == 's') {   // to_string: an observation, outside the allocation accounting
            SS *s = at(o);
            bool utf8 = p.a1 != 0;
            result = guarded([&]() -> std::string {
                ST::string r;
                if (p.val == "d") r = utf8 ? s->to_string() : s->to_string(false);
                else r = s->to_string(utf8, p.val == "a" ? ST::assume_valid : p.val == "s" ? ST::substitute_invalid : ST::check_validity);
                if (r.c_str()[r.size()] != 0) return "!noterm";
                return "ok:" + std::to_string(r.size()) + ":" + repr(r.c_str(), r.size());
            });
            if (result.rfind("throw ", 0) == 0) result = "throw:" + result.substr(6);
            return;
        }
        CountScope scope;
        try {
            Arm arm(k);
            switch (p.c) {
            case 'D': new (raw[o]) SS(); live[o] = true; break;
            case 'X': at(o)->~SS(); live[o] = false; break;
            case 'M': new (raw[o]) SS(std::move(*at(src))); live[o] = true; break;
            case 'm': *at(o) = std::move(*at(src)); break;
            case 'a': at(o)->append(p.p8.get(), p.n); break;
            case 'g': at(o)->append(p.p8.get(), p.n); break;
            case 'z': if (p.null) at(o)->append(nullptr); else at(o)->append(p.p8.get()); break;
            case 'c': at(o)->append_char((char)atoi(p.val.c_str()), (size_t)p.a2); break;
            case 't': at(o)->truncate((size_t)p.a2); break;
            case 'u': at(o)->truncate(); break;
            case 'e': at(o)->erase((size_t)p.a2); break;
            case 'o': {
                SS &s = *at(o); const std::string &kd = p.kind;
                if (kd == "cstr") s << (p.null ? (const char *)nullptr : p.p8.get());
                else if (kd == "u8s") s << (p.null ? (const char8_t *)nullptr : reinterpret_cast<const char8_t *>(p.p8.get()));
                else if (kd == "wcs") s << (p.null ? (const wchar_t *)nullptr : p.pw.get());
                else if (kd == "u16s") s << (p.null ? (const char16_t *)nullptr : p.p16.get());
                else if (kd == "u32s") s << (p.null ? (const char32_t *)nullptr : p.p32.get());
                else if (kd == "char") s << (char)atoi(p.val.c_str());
                else if (kd == "st") s << p.st;
                else if (kd == "std") s << p.s8;
                else if (kd == "u8std") s << p.su8;
                else if (kd == "wstd") s << p.sw;
                else if (kd == "u16std") s << p.s16;
                else if (kd == "u32std") s << p.s32;
                else if (kd == "sv") s << std::string_view(p.p8.get(), p.n);
                else if (kd == "u8sv") s << std::u8string_view(reinterpret_cast<const char8_t *>(p.p8.get()), p.n);
                else if (kd == "wsv") s << std::wstring_view(p.pw.get(), p.n);
                else if (kd == "u16sv") s << std::u16string_view(p.p16.get(), p.n);
                else if (kd == "u32sv") s << std::u32string_view(p.p32.get(), p.n);
                else if (kd == "path") s << p.path;
                else if (kd == "int") s << (int)strtoll(p.val.c_str(), nullptr, 10);
                else if (kd == "uint") s << (unsigned int)strtoull(p.val.c_str(), nullptr, 10);
                else if (kd == "long") s << (long)strtoll(p.val.c_str(), nullptr, 10);
                else if (kd == "ulong") s << (unsigned long)strtoull(p.val.c_str(), nullptr, 10);
                else if (kd == "llong") s << (long long)strtoll(p.val.c_str(), nullptr, 10);
                else if (kd == "ullong") s << (unsigned long long)strtoull(p.val.c_str(), nullptr, 10);
                else if (kd == "float") { uint32_t b = (uint32_t)strtoull(p.val.c_str(), nullptr, 16); float v; memcpy(&v, &b, 4); s << v; }
                else if (kd == "double") { uint64_t b = strtoull(p.val.c_str(), nullptr, 16); double v; memcpy(&v, &b, 8); s << v; }
                break; }
            default: break;
            }
        } catch (const ST::unicode_error &) { threw = true; }
    }

    // may a C++ program perform this operation now?  (no member call on a dead stream, no construction over a live one,
    // no self-move-assignment: outside the property)
    bool admissible(const Prep &p) const {
        int o = p.o, src = (int)p.a1;
        if (o < 0 || o >= NOBJ) return false;
        switch (p.c) {
        case 'D': return !live[o];
        case 'M': return !live[o] && src >= 0 && src < NOBJ && live[src];
        case 'm': return live[o] && src >= 0 && src < NOBJ && live[src] && src != o;
        default: return live[o];
        }
    }

    void destroy_all() { CountScope scope; for (int o = 0; o < NOBJ; ++o) if (live[o]) { at(o)->~SS(); live[o] = false; } }
};

static SPool pool;       // storage reused across cases; always left empty

static std::string abandon_history(std::string &out, long live_before) {
    pool.abandon(); alloc_ctl().live = live_before;
    out += "end=abandoned";
    return out;
}

static std::string run_hist(const Args &a) {
    std::string out; int step = 0;
    std::vector<std::string> ops = split(a.get("ops"), ';');
    out.reserve(4096);
    const long live_before = alloc_ctl().live;
    bool is_fault = a.op == "ssfault";
    for (const auto &op : ops) {
        ++step;
        bool threw = false; std::string result;
        { Prep p; prepare(p, op);
          if (!pool.admissible(p)) { pool.destroy_all(); alloc_ctl().live = live_before; return "inadmissible"; }
          pool.invoke(p, -1, threw, result); }
        if (threw) out += "x" + std::to_string(step) + "=unicode_error ";
        if (!result.empty()) out += "r" + std::to_string(step) + "=" + result + " ";
        out += "s" + std::to_string(step) + "=" + pool.snapshot() + " ";
        if (pool.insane) return abandon_history(out, live_before);
    }
    if (is_fault) {
        long k = (long)a.num("k");
        std::string res = "completed";
        {
            Prep p; prepare(p, a.get("op"));
            if (!pool.admissible(p)) { pool.destroy_all(); alloc_ctl().live = live_before; return "inadmissible"; }
            bool threw = false; std::string result;
            try { pool.invoke(p, k, threw, result); if (threw) res = "unicode_error"; }
            catch (const std::bad_alloc &) { res = "bad_alloc"; }
            catch (...) { res = "other"; }
        }
        out += "f=" + res + " sf=" + pool.snapshot() + " ";
        if (pool.insane) return abandon_history(out, live_before);
    }
    pool.destroy_all();
    // leak accounting: every block the library obtained through operator new during the history must be gone now.
    // (Exact, and complete for string_stream, whose only allocations are new char[]/delete[].  LeakSanitizer's
    // stop-the-world check is deliberately not called here: under machine load it was seen to stall for several
    // seconds, which the runner reports as a hang of an innocent case.)
    ops.clear(); ops.shrink_to_fit();
    bool leak = alloc_ctl().live != live_before;
    alloc_ctl().live = live_before;
    out += std::string("end=") + (leak ? "leak" : "clean");
    return out;
}

static std::string exec_case(const Args &a) {
    static_assert(sizeof(SS) >= ST_STACK_STRING_SIZE, "stream layout");
    return guarded([&]() -> std::string { return run_hist(a); });
}

// ------------------------------------------------------------------ generators
struct G { bool live[NOBJ] = {}; size_t size[NOBJ] = {}; };

static std::string S(long long v) { return std::to_string(v); }
static std::string U(unsigned long long v) { return std::to_string(v); }

static std::string rand_hex(Rng &rng, size_t n, bool nonzero) {
    if (n == 0) return "-";
    std::string out; for (size_t i = 0; i < n; ++i) put_hex(out, nonzero ? 1 + rng.below(255) : rng.below(256), 2); return out;
}

// an append of exactly n bytes to stream o, in one of the four forms
static std::string app(Rng &rng, G &g, int o, size_t n, int form = -1) {
    g.size[o] += n;
    if (form < 0) form = (int)rng.below(4);
    if (n > 48 && form < 2) form = 2 + (int)rng.below(2);
    switch (form) {
    case 0: return "a" + S(o) + ":" + rand_hex(rng, n, false);
    case 1: return "z" + S(o) + ":" + rand_hex(rng, n, true);
    case 2: return "g" + S(o) + "," + U(n) + "," + U(1 + rng.below(1000000));
    default: return "c" + S(o) + "," + U(n) + "," + U(1 + rng.below(255));
    }
}

static const size_t LAND[] = {255, 256, 257, 511, 512, 513, 1023, 1024, 1025};
static const size_t BIG[] = {300, 1000, 5000, 70000};

// an append that lands stream o's cumulative size on `target` (which must be >= current size)
static std::string land(Rng &rng, G &g, int o, size_t target) { return app(rng, g, o, target - g.size[o]); }

static size_t utf8_len(uint32_t c) { return c < 0x80 ? 1 : c < 0x800 ? 2 : c < 0x10000 ? 3 : 4; }

// text payload of `nsc` scalars in the unit width of `kind`; returns hex payload and adds the UTF-8 length to *u8len
static std::string text_payload(Rng &rng, int w, size_t nsc, size_t *u8len, bool ascii_only = false) {
    static const uint32_t pickc[] = {0x41, 0x7F, 0x80, 0xE9, 0x7FF, 0x800, 0x20AC, 0xD7FF, 0xE000, 0xFFFD, 0xFFFF, 0x10000, 0x1F600, 0x10FFFF};
    std::vector<uint64_t> us; *u8len = 0;
    for (size_t i = 0; i < nsc; ++i) {
        uint32_t c = ascii_only ? (uint32_t)(0x20 + rng.below(0x5F)) : (rng.chance(1, 2) ? pickc[rng.below(14)] : (uint32_t)(1 + rng.below(0x7E)));
        if (w == 8) {
            if (c < 0x80) us.push_back(c);
            else if (c < 0x800) { us.push_back(0xC0 | (c >> 6)); us.push_back(0x80 | (c & 0x3F)); }
            else if (c < 0x10000) { us.push_back(0xE0 | (c >> 12)); us.push_back(0x80 | ((c >> 6) & 0x3F)); us.push_back(0x80 | (c & 0x3F)); }
            else { us.push_back(0xF0 | (c >> 18)); us.push_back(0x80 | ((c >> 12) & 0x3F)); us.push_back(0x80 | ((c >> 6) & 0x3F)); us.push_back(0x80 | (c & 0x3F)); }
        } else if (w == 16) {
            if (c < 0x10000) us.push_back(c); else { uint32_t d = c - 0x10000; us.push_back(0xD800 | (d >> 10)); us.push_back(0xDC00 | (d & 0x3FF)); }
        } else us.push_back(c);
        *u8len += utf8_len(c);
    }
    return hex_u64s(us, w);
}

static const char *TEXT_KINDS[] = {"cstr", "u8s", "wcs", "u16s", "u32s", "st", "std", "u8std", "wstd", "u16std", "u32std", "sv", "u8sv", "wsv", "u16sv", "u32sv", "path"};
static const int N_TEXT_KINDS = 17;
static bool is_ptr_kind(const std::string &k) { return k == "cstr" || k == "u8s" || k == "wcs" || k == "u16s" || k == "u32s"; }

// operator<< of well-formed text of nsc scalars
static std::string shl_text(Rng &rng, G &g, int o, const std::string &kind, size_t nsc, bool ascii_only = false) {
    size_t u8 = 0; std::string pl = text_payload(rng, width_of_kind(kind), nsc, &u8, ascii_only);
    g.size[o] += u8;
    return "o" + S(o) + "," + kind + ":" + pl;
}

static std::string hex_of(const char *s) { return hex_units(s, strlen(s)); }

// operator<< of a number, with the rendering the C library gives (the expectation handed to the driver)
static std::string shl_num(Rng &rng, G &g, int o, int which = -1) {
    char buf[128]; std::string kind, val;
    if (which < 0) which = (int)rng.below(8);
    auto pick64 = [&](bool sgn) -> uint64_t {
        switch (rng.below(6)) {
        case 0: return rng.below(10);
        case 1: return rng.below(100000);
        case 2: return rng.next() >> (rng.below(64));
        case 3: return sgn ? 0x7fffffffffffffffULL : 0xffffffffffffffffULL;
        case 4: return 0x7fffffffULL + rng.below(3) - 1;
        default: return 1ULL << rng.below(63);
        }
    };
    switch (which) {
    case 0: { int v = (int)(uint32_t)pick64(true); if (rng.chance(1, 12)) v = INT_MIN; kind = "int"; val = S(v); snprintf(buf, sizeof buf, "%d", v); break; }
    case 1: { unsigned v = (unsigned)pick64(false); kind = "uint"; val = U(v); snprintf(buf, sizeof buf, "%u", v); break; }
    case 2: { long v = (long)pick64(true); if (v != LONG_MIN && rng.chance(1, 2)) v = -v; if (rng.chance(1, 12)) v = LONG_MIN; kind = "long"; val = S(v); snprintf(buf, sizeof buf, "%ld", v); break; }
    case 3: { unsigned long v = pick64(false); kind = "ulong"; val = U(v); snprintf(buf, sizeof buf, "%lu", v); break; }
    case 4: { long long v = (long long)pick64(true); if (v != LLONG_MIN && rng.chance(1, 2)) v = -v; if (rng.chance(1, 12)) v = LLONG_MIN; kind = "llong"; val = S(v); snprintf(buf, sizeof buf, "%lld", v); break; }
    case 5: { unsigned long long v = pick64(false); kind = "ullong"; val = U(v); snprintf(buf, sizeof buf, "%llu", v); break; }
    case 6: { static const float fv[] = {0.0f, -0.0f, 1.0f, -1.5f, 0.1f, 3.4028235e38f, 1.17549435e-38f, 1e-45f, 123456.0f, 1234567.0f, INFINITY, -INFINITY, 16777216.0f};
              float v = rng.chance(1, 2) ? fv[rng.below(13)] : (float)((double)(int64_t)rng.next() / 1e9);
              uint32_t b; memcpy(&b, &v, 4); kind = "float"; std::string h; put_hex(h, b, 8); val = h; snprintf(buf, sizeof buf, "%g", (double)v); break; }
    default: { static const double dv[] = {0.0, -0.0, 1.0, -2.25, 0.1, 1e100, -1e100, 1e-100, DBL_MAX, DBL_MIN, 4.9e-324, 123456.0, 1234567.0, 1e21, INFINITY, -INFINITY, 9007199254740993.0};
               double v = rng.chance(1, 2) ? dv[rng.below(17)] : (double)(int64_t)rng.next() / 1e6;
               uint64_t b; memcpy(&b, &v, 8); kind = "double"; std::string h; put_hex(h, b, 16); val = h; snprintf(buf, sizeof buf, "%g", v); break; }
    }
    g.size[o] += strlen(buf);
    return "o" + S(o) + "," + kind + "," + val + ":" + hex_of(buf);
}

static std::string to_str(Rng &rng, int o) {
    static const char *modes[] = {"a", "s", "c", "d"};
    return "s" + S(o) + "," + S(rng.below(2)) + "," + modes[rng.below(4)];
}

// one random operation valid in state g
static std::string rand_op(Rng &rng, G &g) {
    for (;;) {
        int o = (int)rng.below(NOBJ), s = (int)rng.below(NOBJ);
        unsigned kind = (unsigned)rng.below(20);
        if (!g.live[o]) {
            if (kind < 10) { g.live[o] = true; g.size[o] = 0; return "D" + S(o); }
            if (!g.live[s]) continue;
            g.live[o] = true; g.size[o] = g.size[s]; g.size[s] = 0; return "M" + S(o) + "," + S(s);
        }
        switch (kind) {
        case 0: g.live[o] = false; return "X" + S(o);
        case 1: case 2: case 3: { if (!g.live[s] || s == o) continue; g.size[o] = g.size[s]; g.size[s] = 0; return "m" + S(o) + "," + S(s); }
        case 4: case 5: case 6: {   // land on a boundary class at or above the current size
            std::vector<size_t> t; for (size_t x : LAND) if (x > g.size[o]) t.push_back(x);
            if (t.empty()) continue;
            return land(rng, g, o, t[rng.below(t.size() < 3 ? t.size() : 3)]); }
        case 7: case 8: return app(rng, g, o, rng.below(40));
        case 9: return app(rng, g, o, rng.chance(1, 8) ? BIG[rng.below(3)] : 100 + rng.below(300));
        case 10: case 11: { size_t n = g.size[o]; const size_t c[] = {0, 1, n > 0 ? n - 1 : 0, n, n + 1, 255, 256, 257, 512, ~(size_t)0};
                            size_t k = c[rng.below(10)]; if (k < n) g.size[o] = k; return "t" + S(o) + "," + U(k); }
        case 12: case 13: { size_t n = g.size[o]; const size_t c[] = {0, 1, n > 0 ? n - 1 : 0, n, n + 1, n > 256 ? n - 256 : 2, n > 255 ? n - 255 : 3, ~(size_t)0};
                            size_t k = c[rng.below(8)]; g.size[o] = k < n ? n - k : 0; return "e" + S(o) + "," + U(k); }
        case 14: case 15: return shl_text(rng, g, o, TEXT_KINDS[rng.below(N_TEXT_KINDS)], rng.below(12));
        case 16: return shl_num(rng, g, o);
        case 17: { g.size[o] += 1; return "o" + S(o) + ",char," + S(1 + rng.below(127)); }
        default: return to_str(rng, o);
        }
    }
}

struct Out {
    Emitter &em; const Options &opt; uint64_t k = 0; bool fault;
    Out(Emitter &e, const Options &o) : em(e), opt(o), fault(o.prop == "C19") {}
    // is the next history case in this slice?  (lets a generator skip building lines it would not emit)
    bool want_hist() { if (fault) return false; return (int)(k++ % opt.nslices) == opt.slice; }
    void emit_hist(const char *gen, const std::string &ops) { em.emit(std::string("sshist g=") + gen + " ops=" + ops); }
    void hist(const char *gen, const std::string &ops) { if (want_hist()) emit_hist(gen, ops); }
    void flt(const char *gen, const std::string &ops, const std::string &op, int kk) {
        if (!fault) return;
        if ((int)(k++ % opt.nslices) == opt.slice) em.emit(std::string("ssfault g=") + gen + " ops=" + ops + " op=" + op + " k=" + S(kk));
    }
};

static void join(std::string &ops, const std::string &op) { if (!ops.empty()) ops += ";"; ops += op; }

// wide text with one malformed unit at position `bad` among `len` units (the others valid, of several encoded widths): the
// insertion throws unicode_error and the stream must still hold exactly what it held (also when the text is long enough for
// an implementation to convert it piecewise: positions around 64, 128, 256 units)
static void gen_failed_insertions(Out &out, Rng &rng, bool thorough) {
    const size_t bads[] = {0, 1, 5, 15, 16, 63, 64, 65, 127, 128, 129, 255, 256, 300};
    for (int ki = 0; ki < N_TEXT_KINDS; ++ki) {
        std::string kind = TEXT_KINDS[ki]; int w = width_of_kind(kind);
        if (w == 8) continue;
        for (size_t pre : {(size_t)0, (size_t)5, (size_t)250, (size_t)256, (size_t)700}) for (size_t bad : bads) for (size_t tail : {(size_t)0, (size_t)1, (size_t)70}) {
            if (!thorough && ((pre == 5 || pre == 256) && tail == 1)) continue;
            std::vector<uint64_t> us;
            for (size_t i = 0; i < bad + 1 + tail; ++i) {
                if (i == bad) { us.push_back(w == 16 ? (rng.chance(1, 2) ? 0xD800 : 0xDC00) : (rng.chance(1, 2) ? 0x110000 : 0xFFFFFFFFu)); continue; }
                switch (rng.below(4)) { case 0: us.push_back(0x41 + rng.below(26)); break; case 1: us.push_back(0xE9); break; case 2: us.push_back(0x20AC); break;
                                        default: if (w == 16) { us.push_back(0x4E2D); } else us.push_back(0x1F600); break; }
            }
            // UTF-16: a low surrogate directly in front of a high one would pair up (tolerated by design): keep the unit after a DC00 plain
            G g; g.live[0] = true; std::string ops = "D0";
            if (pre) join(ops, app(rng, g, 0, pre));
            join(ops, "o0," + kind + ":" + hex_u64s(us, w));
            join(ops, "s0,1,c"); join(ops, app(rng, g, 0, 1)); join(ops, "s0,1,d");
            out.hist("shl.fail", ops);
        }
    }
}

static void gen(Emitter &em, const Options &opt) {
    if (ST_DEFAULT_VALIDATION != ST::check_validity) { fprintf(stderr, "harness: built with a non-default ST_DEFAULT_VALIDATION\n"); _exit(2); }
    Rng rng(opt.seed * 104729 + 31);
    bool thorough = opt.tier == "thorough";
    Out out(em, opt);
    if (opt.prop == "C18") { gen_failed_insertions(out, rng, thorough); return; }      // C18 looks at this family for failed insertions only

    // (0) corpus: witnesses of repaired defects run first
    out.hist("corpus", "D0;z0:48656c6c6f;M1,0;a0:21");                         // defect #14: append to a moved-from stream
    out.hist("corpus", "D0;z0:48656c6c6f;D1;m1,0;c0,1,33");
    out.hist("corpus", "D0;g0,300,7;M1,0;a0:21;X1;a0:22");                      // … in heap mode (aliasing, then use after free)
    out.hist("corpus", "D0;g0,300,7;D1;g1,600,9;m1,0;g0,300,8;m0,1;a1:21;a0:22");

    // (0b) degenerate arguments: null pointers, zero sizes and counts, in both storage modes
    for (size_t pre : {(size_t)0, (size_t)256, (size_t)300}) {
        std::string ops = "D0"; if (pre) ops += ";g0," + U(pre) + ",9";
        out.hist("degenerate", ops + ";z0:N;z0:-;a0:-;c0,0,65;o0,cstr:N;o0,u8s:N;s0,1,d;a0:41;z0:N;s0,1,c;t0," + U(pre + 1) + ";e0,0;u0;z0:N;s0,0,d");
    }

    // (1) landing: cumulative sizes at every boundary, reached by 1..4 appends of every form, then one of every kind of follow-up
    for (size_t target : LAND) for (int parts = 1; parts <= 4; ++parts) for (int variant = 0; variant < (thorough ? 24 : 6); ++variant) {
        G g; g.live[0] = true; std::string ops = "D0";
        size_t remaining = target;
        for (int p = parts; p >= 1; --p) {
            size_t n;
            if (p == 1) n = remaining;
            else { const size_t c[] = {1, 2, 255, 256, 257, remaining / 2, remaining > 1 ? remaining - 1 : 0, rng.below(remaining + 1)};
                   n = c[rng.below(8)]; if (n > remaining) n = remaining; }
            join(ops, app(rng, g, 0, n, (variant + p) % 4)); remaining -= n;
        }
        switch (variant % 6) {
        case 0: join(ops, app(rng, g, 0, 1)); join(ops, app(rng, g, 0, 1)); break;
        case 1: join(ops, "M1,0"); join(ops, "a1:21"); join(ops, "a0:22"); break;
        case 2: join(ops, "D1"); join(ops, "g1,300,5"); join(ops, "m1,0"); join(ops, "c0,2,65"); join(ops, "c1,2,66"); break;
        case 3: join(ops, "t0," + U(target - 1)); join(ops, "a0:41"); join(ops, "a0:42"); break;
        case 4: join(ops, "e0,1"); join(ops, "o0,char,67"); join(ops, "o0,char,68"); break;
        default: join(ops, "s0,1,a"); join(ops, "s0,0,d"); join(ops, app(rng, g, 0, BIG[rng.below(3)])); break;
        }
        out.hist("land", ops);
    }

    // (2) single appends larger than several doublings, onto every storage mode, then follow-ups
    for (size_t big : BIG) for (size_t pre : {(size_t)0, (size_t)1, (size_t)255, (size_t)256, (size_t)257, (size_t)600}) for (int form = 2; form < 4; ++form)
        for (int tail = 0; tail < 5; ++tail) {
            if (big == 70000 && !thorough && (tail > 1 || (pre != 0 && pre != 257))) continue;
            G g; g.live[0] = true; std::string ops = "D0";
            if (pre) join(ops, app(rng, g, 0, pre));
            join(ops, app(rng, g, 0, big, form));
            switch (tail) {
            case 0: join(ops, app(rng, g, 0, 1)); break;
            case 1: join(ops, "M1,0"); join(ops, "a0:21"); join(ops, "a1:22"); join(ops, "m0,1"); join(ops, "a1:23"); break;
            case 2: join(ops, "t0,256"); join(ops, "a0:21"); join(ops, "e0,257"); join(ops, "a0:22"); break;
            case 3: join(ops, "D1"); join(ops, "m0,1"); join(ops, "a0:21"); join(ops, "a1:22"); break;
            default: join(ops, app(rng, g, 0, big, form)); join(ops, "s0,0,d"); break;
            }
            out.hist("big", ops);
        }

    // (3) every operator<< overload x payload class x storage state
    for (int ki = 0; ki < N_TEXT_KINDS; ++ki) for (size_t pre : {(size_t)0, (size_t)250, (size_t)256, (size_t)700}) for (int cls = 0; cls < 8; ++cls) {
        std::string kind = TEXT_KINDS[ki]; int w = width_of_kind(kind);
        G g; g.live[0] = true; std::string ops = "D0";
        if (pre) join(ops, app(rng, g, 0, pre));
        std::string op;
        switch (cls) {
        case 0: op = "o0," + kind + ":-"; break;                                             // empty
        case 1: if (!is_ptr_kind(kind)) continue; op = "o0," + kind + ":N"; break;            // null pointer
        case 2: op = shl_text(rng, g, 0, kind, 1 + rng.below(5)); break;
        case 3: op = shl_text(rng, g, 0, kind, 6 + rng.below(10)); break;                      // around the conversion's short-buffer limit
        case 4: op = shl_text(rng, g, 0, kind, 300, kind == "path"); break;                   // crosses a boundary by itself
        case 5: if (w == 8) continue;                                                         // malformed wide text: throws, nothing appended
                op = "o0," + kind + ":" + (w == 16 ? "0041d8000042" : "0000004100110000"); break;
        case 6: if (w == 8) continue;
                op = "o0," + kind + ":" + (w == 16 ? "dc00" : "0000d800"); break;
        default: if (is_ptr_kind(kind) || kind == "path") continue;                            // interior NUL through the sized overloads
                 op = "o0," + kind + ":" + hex_u64s({0x41, 0, 0x42}, w); g.size[0] += 3; break;
        }
        join(ops, op);
        join(ops, to_str(rng, 0)); join(ops, "s0,1,c");
        join(ops, app(rng, g, 0, 1));
        out.hist("shl.text", ops);
    }
    if (!out.fault) gen_failed_insertions(out, rng, thorough);
    for (int which = 0; which < 8; ++which) for (int rep = 0; rep < (thorough ? 400 : 40); ++rep) {
        G g; g.live[0] = true; std::string ops = "D0";
        const size_t pres[] = {0, 250, 255, 256, 300};
        size_t pre = pres[rep % 5]; if (pre) join(ops, app(rng, g, 0, pre));
        join(ops, shl_num(rng, g, 0, which)); join(ops, shl_num(rng, g, 0, which)); join(ops, "s0,1,d");
        out.hist("shl.num", ops);
    }
    // numbers whose rendering ends exactly at, one before and one after the capacity (256, then the doubled heap blocks):
    // a rendering made in place in the unused tail needs its terminator too (seeded C13-G), a sign needs its own byte (C16-G)
    for (int which = 0; which < 8; ++which) for (size_t cap : {(size_t)256, (size_t)512, (size_t)1024}) for (int rep = 0; rep < (thorough ? 12 : 3); ++rep) {
        G scratch; scratch.live[0] = true;
        std::string op = shl_num(rng, scratch, 0, which);
        size_t len = (op.size() - op.find(':') - 1) / 2;
        for (int d = -1; d <= 1; ++d) {
            if (cap < len + 1) continue;
            G g; g.live[0] = true; std::string ops = "D0";
            size_t pre = cap - len + d;
            if (pre) join(ops, app(rng, g, 0, pre));
            join(ops, op); g.size[0] += len;
            join(ops, app(rng, g, 0, 1)); join(ops, "s0,1,d");
            out.hist("shl.num.edge", ops);
        }
    }
    for (int c = -128; c < 128; c += (thorough ? 1 : 5)) {
        std::string ops = "D0;o0,char," + S(c) + ";c0,3," + S(c) + ";s0,1,a;s0,0,d;s0,1,s";
        out.hist("shl.char", ops);
    }

    // (4) truncate / erase to every size class from every size class, then growth again
    {
        const size_t from[] = {0, 1, 255, 256, 257, 511, 512, 513, 1024, 1025, 5000};
        for (size_t n : from) for (int te = 0; te < 2; ++te) {
            const size_t to[] = {0, 1, n > 0 ? n - 1 : 0, n, n + 1, 255, 256, 257, 512, ~(size_t)0, ~(size_t)0 - 1, (size_t)1 << 63, ((size_t)1 << 63) - 1};
            for (size_t k : to) for (int tail = 0; tail < 3; ++tail) {
                G g; g.live[0] = true; std::string ops = "D0";
                if (n) join(ops, app(rng, g, 0, n));
                if (te == 0) { join(ops, (k == 0 && tail == 1) ? std::string("u0") : "t0," + U(k)); if (k < n) g.size[0] = k; }
                else { join(ops, "e0," + U(k)); g.size[0] = k < n ? n - k : 0; }
                switch (tail) {
                case 0: join(ops, app(rng, g, 0, 1)); break;
                case 1: { size_t t = 0; for (size_t x : LAND) if (x > g.size[0]) { t = x; break; } if (t) join(ops, land(rng, g, 0, t)); join(ops, app(rng, g, 0, 2)); break; }
                default: join(ops, "M1,0"); join(ops, "a0:21"); join(ops, "a1:22"); break;
                }
                out.hist(te == 0 ? "truncate" : "erase", ops);
            }
        }
    }

    // (5) moves in both storage modes, followed by append / assign / destroy of either side
    {
        const size_t srcs[] = {0, 5, 255, 256, 257, 1000};
        const long dsts[] = {-1, 0, 5, 256, 300, 1000};       // -1: move construction
        static const char *tails[] = {"a0:21;a1:22", "g0,300,3;g1,300,4", "a1:21;a0:22", "X0;a1:21", "X1;a0:21", "D2;a2:5a;m0,2;a0:21;a2:22",
                                      "m0,1;a0:21;a1:22", "s0,1,d;s1,1,d;c0,256,48;c1,256,49", "X1;M1,0;a1:21;a0:22", "t0,0;e1,1;a0:21;a1:22",
                                      "D2;g2,700,6;m2,0;m0,2;a0:21;a2:22", "X0;D0;a0:21;a1:22"};
        for (size_t sn : srcs) for (long dn : dsts) for (int t = 0; t < 12; ++t) {
            G g; g.live[0] = true; std::string ops = "D0";
            if (sn) join(ops, app(rng, g, 0, sn));
            if (dn >= 0) { g.live[1] = true; join(ops, "D1"); if (dn) join(ops, app(rng, g, 1, (size_t)dn)); join(ops, "m1,0"); }
            else join(ops, "M1,0");
            join(ops, tails[t]);
            out.hist("move", ops);
        }
    }

    // (6) every sequence of `depth` operations from a fixed menu over three live streams in all size-class combinations
    {
        std::vector<std::string> menu = {
            "a0:21", "g0,300,11", "c0,1,65", "c1,2,66", "g1,255,12", "t0,0", "t0,100", "t1,256", "e0,1", "e1,300",
            "m0,1", "m1,0", "m0,2", "m2,0", "m1,2", "X2;M2,0", "X2;M2,1", "X0;M0,1", "X1;M1,2", "X0;D0", "X2;D2",
            "o0,u16std:00e9d83dde00", "o1,int,-17:2d3137", "g2,600,13", "s0,1,d", "a1:22"};
        int depth = thorough ? 3 : 2;
        std::vector<size_t> c0s = {0, 5, 256, 257, 600};
        std::vector<size_t> c1s = {0, 255, 300};
        std::vector<size_t> c2s = {0, 700};
        for (size_t c0 : c0s) for (size_t c1 : c1s) for (size_t c2 : c2s) {
            std::string pro = "D0"; if (c0) pro += ";g0," + U(c0) + ",1";
            pro += ";D1"; if (c1) pro += ";g1," + U(c1) + ",2";
            pro += ";D2"; if (c2) pro += ";g2," + U(c2) + ",3";
            std::vector<size_t> idx(depth, 0);
            for (;;) {
                if (out.want_hist()) {
                    std::string ops = pro; for (int d = 0; d < depth; ++d) ops += ";" + menu[idx[d]];
                    out.emit_hist("menu", ops);
                }
                int d = depth - 1; while (d >= 0 && ++idx[d] == menu.size()) idx[d--] = 0;
                if (d < 0) break;
            }
        }
    }

    // (7) seeded random long histories
    {
        int nrand = thorough ? 100000 : 20000;
        for (int i = 0; i < nrand; ++i) {
            G g; std::string ops;
            for (int j = 0; j < 30; ++j) join(ops, rand_op(rng, g));
            out.hist("random", ops);
        }
    }

    // (8) fault cases (C19): the k-th allocation of the last operation fails
    if (out.fault) {
        const size_t pres[] = {0, 5, 250, 255, 256, 257, 511, 512, 600};
        static const char *lastops[] = {"a0:2122", "g0,300,5", "g0,5000,6", "c0,1,65", "c0,700,66", "o0,int,-12345:2d3132333435", "o0,long,-1:2d31", "o0,int,-7:2d37", "o0,llong,-123456789012:2d313233343536373839303132", "o0,llong,5:35",
                                        "o0,u16std:004100e9d83dde00", "o0,wcs:000000410001f600", "o0,std:4142", "o0,char,67", "z0:414243",
                                        "m0,1", "m1,0", "t0,3", "e0,2", "X0;D0"};
        for (size_t pre : pres) for (const char *lo : lastops) for (int k = 1; k <= 2; ++k) for (int other = 0; other < 2; ++other) {
            std::string ops = "D0"; if (pre) ops += ";g0," + U(pre) + ",4";
            ops += other ? ";D1;g1,400,8" : ";D1";
            std::string last = lo; size_t sc = last.find(';');
            if (sc != std::string::npos) { ops += ";" + last.substr(0, sc); last = last.substr(sc + 1); }
            out.flt("fault", ops, last, k);
        }
        // a stream that went to the heap and was then emptied or shrunk (capacity stays): the next growth beyond that capacity fails
        for (size_t pre : {(size_t)300, (size_t)600, (size_t)1100}) {
            std::vector<std::string> shrinks = {"t0,0", "u0", "e0," + U(pre), "e0," + U(pre + 7), "t0,1", "t0,255", "t0,256", "e0," + U(pre - 1), "t0,0;a0:21", "u0;D2;M2,0;X2"};
            for (const std::string &sh : shrinks) for (const char *lo : {"g0,5000,6", "c0,3000,66", "g0,2049,7", "o0,std:" "4142434445464748494a4b4c4d4e4f50"}) for (int k = 1; k <= 2; ++k) {
                std::string ops = "D0;g0," + U(pre) + ",4;D1;" + sh;
                out.flt("fault.shrunk", ops, lo, k);
            }
        }
        // long wide text: the conversion's own buffer is the first allocation, the stream's growth the second
        for (size_t pre : {(size_t)0, (size_t)250, (size_t)600}) for (int k = 1; k <= 3; ++k) for (const char *kind : {"u16std", "wsv", "u32s"}) {
            G g; std::string ops = "D0"; if (pre) ops += ";g0," + U(pre) + ",4";
            std::string last = shl_text(rng, g, 0, kind, 40);
            out.flt("fault.text", ops, last, k);
        }
        int nrand = thorough ? 20000 : 2000;
        for (int i = 0; i < nrand; ++i) {
            G g; std::string ops;
            for (int j = 0; j < 12; ++j) join(ops, rand_op(rng, g));
            std::string last;
            for (;;) { last = rand_op(rng, g); if (last[0] != 's' && last.find(",path") == std::string::npos) break; }
            out.flt("fault.random", ops, last, 1 + (int)rng.below(2));
        }
    }
}

int main(int argc, char **argv) { return run_main(argc, argv, gen, exec_case); }
