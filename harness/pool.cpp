// Correspondence harness for C05 (and the buffer part of C04/C19): histories of ST::buffer<T> operations
// over a pool of objects in raw storage, with a full snapshot of every live object after every step.
//   hist w=<8|16|32|w> ops=<op;op;…>     => s1=<snapshot> s2=<snapshot> … end=<leak|clean>
//   fault w=… ops=<prefix ops> op=<op> k=<n>  => s1=… sm=… f=<bad_alloc|completed> allocs=<a> sf=<snapshot> end=<leak|clean>
//        (C19, buffer level) the prefix as in hist, then <op> with the k-th allocation made *by the library call* failing
//        (the harness's own temporaries are allocated before the fault is armed); a = allocations the call attempted;
//        sf = snapshot after the call returned or threw; then every live object is destroyed (ASan: bad free, double
//        free, use after free abort the case and are attributed to it by the runner)
// ops: D<o> default ctor | U<o>:<hex> ctor(ptr,size) | C<o>,<s> copy ctor | M<o>,<s> move ctor | X<o> dtor | R<o> clear
//      c<o>,<s> copy assign | m<o>,<s> move assign | A<o>,<n> allocate | F<o>,<n>,<v> allocate(fill) | W<o>,<at>:<hex> write via data()
//      f<o>,<n>,<v> fill constructor buffer(count, fill)
// snapshot: objects in id order, "o<id>:<size>:<units>:<terminator>:<where>", where = L (own in-object array) |
//      A<id> (points into ANOTHER live object) | H<n> (heap block, numbered by first appearance in this snapshot) ;  "-" if none alive
#include "st_common.hpp"
#include <sanitizer/lsan_interface.h>
using namespace vh;

static const int NOBJ = 8;

template <class T> struct PoolT {
    typedef ST::buffer<T> B;
    alignas(B) unsigned char raw[NOBJ][sizeof(B)];
    bool live[NOBJ] = {};
    long arm = -1;          // >= 1: the next apply() runs its library call with that allocation failing
    long attempted = 0;     // allocations attempted by the last armed library call
    B *at(int o) { return reinterpret_cast<B *>(raw[o]); }
    // arms the fault for exactly the library call in its scope
    struct Armed {
        PoolT &p; bool on;
        explicit Armed(PoolT &pp) : p(pp), on(pp.arm >= 1) { if (on) { alloc_ctl().count = 0; alloc_ctl().fail_at = p.arm; } }
        ~Armed() { if (on) { p.attempted = alloc_ctl().count; alloc_ctl().fail_at = -1; p.arm = -1; } }
    };

    std::string snapshot() {
        std::string out; std::vector<const void *> blocks;
        for (int o = 0; o < NOBJ; ++o) {
            if (!live[o]) continue;
            B *b = at(o);
            const T *p = b->data();
            std::string where;
            const unsigned char *pc = reinterpret_cast<const unsigned char *>(p);
            if (pc >= raw[o] && pc < raw[o] + sizeof(B)) where = "L";
            else {
                for (int q = 0; q < NOBJ && where.empty(); ++q)
                    if (q != o && pc >= raw[q] && pc < raw[q] + sizeof(B)) where = (live[q] ? "A" : "Z") + std::to_string(q);
                if (where.empty()) {
                    size_t k = 0; while (k < blocks.size() && blocks[k] != p) ++k;
                    if (k == blocks.size()) blocks.push_back(p);
                    where = "H" + std::to_string(k);
                }
            }
            size_t n = b->size();
            // every other observer is a function of (data(), size()): a disagreement shows as a where-flag the model never produces
            {
                const B &cb = *b; const char *bad = nullptr;
                if (cb.data() != p || cb.c_str() != p || b->begin() != p || cb.begin() != p || cb.cbegin() != p) bad = "!ptr-observers";
                else if (b->end() != p + n || cb.end() != p + n || cb.cend() != p + n) bad = "!end";
                else if (cb.empty() != (n == 0)) bad = "!empty";
                else if (&b->front() != p || &cb.front() != p || &b->back() != (n ? p + n - 1 : p) || &cb.back() != (n ? p + n - 1 : p)) bad = "!front-back";
                else if (b->rbegin().base() != p + n || cb.rbegin().base() != p + n || cb.crbegin().base() != p + n ||
                         b->rend().base() != p || cb.rend().base() != p || cb.crend().base() != p) bad = "!reverse-iterators";
                else {
                    static const T sub_text[1] = {T(0)};
                    if (cb.c_str(sub_text) != (n ? p : sub_text)) bad = "!c_str-substitute";
                    else if (cb.view().data() != p || cb.view().size() != n || cb.view(0).size() != n || (n >= 2 && (cb.view(1).data() != p + 1 || cb.view(1).size() != n - 1 || cb.view(1, 1).size() != 1))) bad = "!view";
                    for (size_t i = 0; i < n && !bad; ++i) if (&b->at(i) != p + i || &cb.at(i) != p + i || &(*b)[i] != p + i || &cb[i] != p + i) bad = "!at";
                    if (!bad) {
                        for (size_t i : {n, n + 1, (size_t)-1}) {
                            bool threw = false, threw_c = false;
                            try { (void)b->at(i); } catch (const std::out_of_range &) { threw = true; }
                            try { (void)cb.at(i); } catch (const std::out_of_range &) { threw_c = true; }
                            if (!threw || !threw_c) bad = "!at-range";
                        }
                    }
                    // equality and ordering are functions of (data(), size()) too: compared with a fresh object holding the same units
                    // (in-object sizes only, so the probe never allocates; seeded C06-G compared the raw in-object arrays)
                    if (!bad && n < 12) {
                        const B same(p, n);
                        if (!(cb == same) || (cb != same) || !(same == cb) || (same != cb) || cb.compare(same) != 0 || same.compare(cb) != 0) bad = "!equality";
                    }
                }
                if (bad) where = bad;
            }
            if (!out.empty()) out += ",";
            out += "o" + std::to_string(o) + ":" + std::to_string(n) + ":" + hex_units(p, n) + ":";
            put_hex(out, unit_val(p[n]), 2 * sizeof(T));
            out += ":" + where;
        }
        return out.empty() ? "-" : out;
    }

    // an operation is applicable when its constructor target is not alive, every other object it names is alive and a
    // store through data() stays within size() (the model's `pre`); shrunk or hand-written replays may violate this
    bool applicable(const std::string &op) {
        char c = op[0];
        int o = atoi(op.c_str() + 1);
        size_t comma = op.find(','), colon = op.find(':');
        long a1 = comma != std::string::npos ? atol(op.c_str() + comma + 1) : 0;
        if (o < 0 || o >= NOBJ) return false;
        bool ctor = c == 'D' || c == 'U' || c == 'C' || c == 'M' || c == 'f';
        if (ctor ? live[o] : !live[o]) return false;
        if (c == 'C' || c == 'M' || c == 'c' || c == 'm') { if (a1 < 0 || a1 >= NOBJ || !live[a1]) return false; }
        if (c == 'W') {
            size_t n = colon == std::string::npos || op.substr(colon + 1) == "-" ? 0 : (op.size() - colon - 1) / (2 * (sizeof(T) > 4 ? 4 : sizeof(T)));
            if (a1 < 0 || (size_t)a1 + n > at(o)->size()) return false;
        }
        return std::string("DUCMXRcmAFWf").find(c) != std::string::npos;
    }

    void apply(const std::string &op) {
        char c = op[0];
        int o = atoi(op.c_str() + 1);
        size_t comma = op.find(','), colon = op.find(':');
        long a1 = comma != std::string::npos ? atol(op.c_str() + comma + 1) : 0;
        long a2 = 0; if (comma != std::string::npos) { size_t c2 = op.find(',', comma + 1); if (c2 != std::string::npos) a2 = atol(op.c_str() + c2 + 1); }
        std::vector<uint64_t> us; if (colon != std::string::npos) us = parse_units(op.substr(colon + 1), 8 * sizeof(T) > 32 ? 32 : 8 * sizeof(T));
        std::vector<T> tv(us.begin(), us.end());
        CountScope scope;
        // the harness's own temporary (source units of the pointer constructor) exists before the fault is armed
        struct Tmp { T *p = nullptr; ~Tmp() { delete[] p; } } tmp;
        if (c == 'U') { size_t n = tv.size(); tmp.p = new T[n ? n : 1]; for (size_t i = 0; i < n; ++i) tmp.p[i] = tv[i]; }
        switch (c) {
        case 'D': { Armed f(*this); new (raw[o]) B(); } live[o] = true; break;
        case 'U': { Armed f(*this); new (raw[o]) B(tmp.p, tv.size()); } live[o] = true; break;
        case 'C': { Armed f(*this); new (raw[o]) B(*at((int)a1)); } live[o] = true; break;
        case 'M': { Armed f(*this); new (raw[o]) B(std::move(*at((int)a1))); } live[o] = true; break;
        case 'X': { Armed f(*this); at(o)->~B(); } live[o] = false; break;
        case 'R': { Armed f(*this); at(o)->clear(); } break;
        case 'c': { Armed f(*this); *at(o) = *at((int)a1); } break;
        case 'm': { Armed f(*this); *at(o) = std::move(*at((int)a1)); } break;
        case 'A': { Armed f(*this); at(o)->allocate((size_t)a1); }
                  // contents are unspecified after allocate(): canonicalise them to the model's marker
                  for (long i = 0; i < a1; ++i) at(o)->data()[i] = (T)0xCD; break;
        case 'F': { Armed f(*this); at(o)->allocate((size_t)a1, (T)a2); } break;
        case 'f': { Armed f(*this); new (raw[o]) B((size_t)a1, (T)a2); } live[o] = true; break;      // buffer(count, fill)
        case 'W': { T *d = at(o)->data(); for (size_t i = 0; i < tv.size(); ++i) d[a1 + i] = tv[i]; break; }
        }
    }
    void destroy_all() { CountScope scope; for (int o = 0; o < NOBJ; ++o) if (live[o]) { at(o)->~B(); live[o] = false; } }
};

static std::vector<std::string> split(const std::string &s, char sep) {
    std::vector<std::string> v; size_t i = 0;
    while (i <= s.size()) { size_t j = s.find(sep, i); if (j == std::string::npos) j = s.size(); if (j > i) v.push_back(s.substr(i, j - i)); i = j + 1; }
    return v;
}

template <class T> static std::string run_hist(const Args &a) {
    static PoolT<T> pool;   // storage reused across cases; always left empty
    std::string out; int step = 0;
    std::vector<std::string> ops = split(a.get("ops"), ';');
    out.reserve(4096);
    const long live_before = alloc_ctl().live;
    bool is_fault = a.op == "fault";
    for (const auto &op : ops) {
        ++step;
        if (!pool.applicable(op)) { pool.destroy_all(); return "invalid step=" + std::to_string(step); }
        pool.apply(op);
        out += "s" + std::to_string(step) + "=" + pool.snapshot() + " ";
    }
    if (is_fault && !pool.applicable(a.get("op"))) { pool.destroy_all(); return "invalid step=" + std::to_string(step + 1); }
    if (is_fault) {
        // run the last operation with its k-th allocation failing; the pre-state is the one just built
        long k = (long)a.num("k");
        pool.arm = k < 1 ? 1 : k; pool.attempted = 0;
        std::string res = "completed";
        try { pool.apply(a.get("op")); }
        catch (const std::bad_alloc &) { res = "bad_alloc"; }
        catch (...) { res = "other"; }
        alloc_ctl().fail_at = -1; pool.arm = -1;
        out += "f=" + res + " allocs=" + std::to_string(pool.attempted) + " sf=" + pool.snapshot() + " ";
    }
    pool.destroy_all();
    // leak accounting: every block obtained through operator new during the history must be gone now
    // (exact and cheap; LeakSanitizer's stop-the-world check costs ~15 ms per call and runs every 256th history)
    ops.clear(); ops.shrink_to_fit();
    static unsigned long counter = 0;
    bool leak = alloc_ctl().live != live_before;
    if (!leak && (++counter % 256) == 0) leak = __lsan_do_recoverable_leak_check() != 0;
    out += std::string("end=") + (leak ? "leak" : "clean");
    return out;
}

static std::string exec_case(const Args &a) {
    const std::string &w = a.get("w");
    return guarded([&]() -> std::string {
        if (w == "8") return run_hist<char>(a);
        if (w == "16") return run_hist<char16_t>(a);
        if (w == "32") return run_hist<char32_t>(a);
        return run_hist<wchar_t>(a);
    });
}

// ------------------------------------------------------------------ generators
struct GenState {
    int L; int w; bool live[NOBJ] = {}; size_t size[NOBJ] = {};
};

static std::string rand_units(Rng &rng, size_t n, int w) {
    std::vector<uint64_t> v; for (size_t i = 0; i < n; ++i) v.push_back(1 + rng.below(w == 8 ? 255 : 0xFFFF));
    return hex_u64s(v, w);
}

static size_t pick_len(Rng &rng, int L) {
    const size_t cls[] = {0, 1, (size_t)L - 2, (size_t)L - 1, (size_t)L, (size_t)L + 1, (size_t)3 * L, 200};
    return cls[rng.below(8)];
}

// one random op valid in state g (pool of `nobj` slots); updates g
static std::string rand_op(Rng &rng, GenState &g, int nobj) {
    for (;;) {
        int o = (int)rng.below(nobj), s = (int)rng.below(nobj);
        unsigned kind = (unsigned)rng.below(12);
        if (!g.live[o]) {
            if (kind < 2) { g.live[o] = true; g.size[o] = 0; return "D" + std::to_string(o); }
            if (kind < 3) { size_t n = pick_len(rng, g.L); g.live[o] = true; g.size[o] = n; return "f" + std::to_string(o) + "," + std::to_string(n) + "," + std::to_string(rng.chance(1, 4) ? 0 : 1 + rng.below(200)); }
            if (kind < 7) { size_t n = pick_len(rng, g.L); g.live[o] = true; g.size[o] = n; return "U" + std::to_string(o) + ":" + rand_units(rng, n, g.w); }
            if (!g.live[s]) continue;
            if (kind < 10) { g.live[o] = true; g.size[o] = g.size[s]; return "C" + std::to_string(o) + "," + std::to_string(s); }
            g.live[o] = true; g.size[o] = g.size[s]; g.size[s] = 0; return "M" + std::to_string(o) + "," + std::to_string(s);
        }
        switch (kind) {
        case 0: g.live[o] = false; return "X" + std::to_string(o);
        case 1: g.size[o] = 0; return "R" + std::to_string(o);
        case 2: case 3: if (!g.live[s]) continue; g.size[o] = g.size[s]; return "c" + std::to_string(o) + "," + std::to_string(s);
        case 4: case 5: case 6: { if (!g.live[s]) continue; size_t t = g.size[o]; g.size[o] = g.size[s]; g.size[s] = t; return "m" + std::to_string(o) + "," + std::to_string(s); }
        case 7: case 8: { size_t n = pick_len(rng, g.L); g.size[o] = n; std::string r = "A" + std::to_string(o) + "," + std::to_string(n);
                          // allocate leaves the contents unspecified: always follow with a full write so snapshots are deterministic
                          return n ? r + ";W" + std::to_string(o) + ",0:" + rand_units(rng, n, g.w) : r; }
        case 9: { size_t n = pick_len(rng, g.L); g.size[o] = n; return "F" + std::to_string(o) + "," + std::to_string(n) + "," + std::to_string(rng.chance(1, 3) ? 0 : 1 + rng.below(200)); }
        default: { if (g.size[o] == 0) continue; size_t at = rng.below(g.size[o]); size_t n = 1 + rng.below(g.size[o] - at);
                   return "W" + std::to_string(o) + "," + std::to_string(at) + ":" + rand_units(rng, n, g.w); }
        }
    }
}

// C19, buffer level: every menu operation on targets/sources of every size class (and after random histories), with the
// k-th allocation of the library call failing.  A buffer member performs at most one allocation, so k = 1 covers
// "every k = 1..n" and k = 2 is the control in which the fault never fires and the call must complete.
struct FaultTy { const char *w; int bits; int L; };
template <class InSlice> static void gen_faults(Emitter &em, const Options &opt, InSlice in_slice, Rng &rng) {
    bool thorough = opt.tier == "thorough";
    std::vector<FaultTy> types = {{"8", 8, 16}, {"16", 16, 16}, {"32", 32, 12}, {"w", 32, 12}};
    for (const auto &ty : types) {
        if (!thorough && std::string(ty.w) != "8" && std::string(ty.w) != "32") continue;
        int L = ty.L;
        std::vector<size_t> classes = {0, 1, (size_t)L - 1, (size_t)L, (size_t)L + 1, (size_t)3 * L};
        for (size_t c0 : classes) for (size_t c1 : classes) {
            Rng r2(c0 * 977 + c1 * 31 + 11);
            std::string pro = "U0:" + rand_units(r2, c0, ty.bits) + ";U1:" + rand_units(r2, c1, ty.bits);
            // prefixes: plain; target moved-from; source moved-from; target cleared after being long
            std::vector<std::string> prefixes = {pro, pro + ";M3,0;X3", pro + ";M3,1;X3", pro + ";m0,0", pro + ";c0,1;R0"};
            if (!thorough) prefixes.resize(2);
            std::vector<std::string> menu = {"D2", "C2,1", "C2,0", "M2,1", "M2,0", "X0", "R0", "c0,1", "c0,0", "c1,0", "m0,1", "m1,0", "m0,0"};
            for (size_t n : classes) {
                menu.push_back("U2:" + rand_units(r2, n, ty.bits));
                menu.push_back("A0," + std::to_string(n));
                menu.push_back("F0," + std::to_string(n) + ",65");
                menu.push_back("f2," + std::to_string(n) + ",71");
                menu.push_back("A1," + std::to_string(n));
            }
            for (const auto &pre : prefixes) for (const auto &op : menu) for (int k = 1; k <= 2; ++k)
                if (in_slice())
                    em.emit(std::string("fault w=") + ty.w + " L=" + std::to_string(L) + " ops=" + pre + " op=" + op + " k=" + std::to_string(k));
        }
    }
    // random histories followed by one random operation with its allocation failing
    int nrand = thorough ? 24000 : 3000;
    for (int i = 0; i < nrand; ++i) {
        const FaultTy &ty = types[i % 4];
        GenState g; g.L = ty.L; g.w = ty.bits;
        int nobj = 3 + (int)rng.below(4), len = 1 + (int)rng.below(20);
        std::string ops;
        for (int j = 0; j < len; ++j) { if (j) ops += ";"; ops += rand_op(rng, g, nobj); }
        std::string op = rand_op(rng, g, nobj);
        size_t semi = op.find(';'); if (semi != std::string::npos) op.resize(semi);   // "A..;W.." -> the allocate alone
        int k = 1 + (int)rng.below(8) / 7;    // mostly the first allocation, sometimes the control
        if (in_slice()) em.emit(std::string("fault w=") + ty.w + " L=" + std::to_string(ty.L) + " ops=" + ops + " op=" + op + " k=" + std::to_string(k));
    }
}

static void gen(Emitter &em, const Options &opt) {
    Rng rng(opt.seed * 7919 + 17);
    bool thorough = opt.tier == "thorough";
    uint64_t k = 0;
    auto in_slice = [&]() { return (int)(k++ % opt.nslices) == opt.slice; };
    struct Ty { const char *w; int bits; int L; };
    std::vector<Ty> types = {{"8", 8, 16}, {"16", 16, 16}, {"32", 32, 12}, {"w", 32, 12}};
    const bool want_hist = opt.prop.empty() || opt.prop == "C05" || opt.prop == "C04";
    const bool want_fault = opt.prop.empty() || opt.prop == "C19";
    if (want_fault) gen_faults(em, opt, in_slice, rng);
    if (!want_hist) return;
    // (1) exhaustive short histories over 3 objects and the size classes, for char (quick) / all types (thorough):
    //     every sequence of `depth` operations drawn from a fixed menu, after a fixed prologue that creates the objects
    for (const auto &ty : types) {
        if (!thorough && std::string(ty.w) != "8" && std::string(ty.w) != "32") continue;
        int L = ty.L;
        std::vector<size_t> classes = {0, 1, (size_t)L - 1, (size_t)L, (size_t)L + 1, (size_t)3 * L};
        std::vector<std::string> menu;
        for (int o = 0; o < 2; ++o) {
            menu.push_back("R" + std::to_string(o));
            for (int s = 0; s < 3; ++s) { menu.push_back("c" + std::to_string(o) + "," + std::to_string(s)); menu.push_back("m" + std::to_string(o) + "," + std::to_string(s)); }
            menu.push_back("A" + std::to_string(o) + ",0"); menu.push_back("F" + std::to_string(o) + "," + std::to_string(L - 1) + ",65");
            menu.push_back("F" + std::to_string(o) + "," + std::to_string(L) + ",66"); menu.push_back("F" + std::to_string(o) + "," + std::to_string(2 * L) + ",67");
        }
        menu.push_back("X0;C0,1"); menu.push_back("X0;M0,1"); menu.push_back("X1;M1,2"); menu.push_back("X2;D2"); menu.push_back("X1;C1,0");
        // allocate(n, 0) relies on nothing: the in-object array may hold stale characters of an earlier short value
        menu.push_back("F0," + std::to_string(L - 1) + ",0"); menu.push_back("F1,2,0"); menu.push_back("F0," + std::to_string(L) + ",0");
        // the fill constructor at every size class around the limit
        for (size_t n : {(size_t)0, (size_t)L - 1, (size_t)L, (size_t)L + 1}) menu.push_back("X2;f2," + std::to_string(n) + ",70");
        menu.push_back("X0;f0," + std::to_string(L) + ",0");
        // thorough: depth 3 for char and char32_t (third object short / long), depth 2 for char16_t and wchar_t, which share
        // every line of code with them (8.5 M histories for depth 3 on all four types took 27 min; this is 3 M)
        bool deep = thorough && (std::string(ty.w) == "8" || std::string(ty.w) == "32");
        int depth = deep ? 3 : 2;
        std::vector<size_t> third = deep ? std::vector<size_t>{(size_t)L - 1, (size_t)2 * L} : std::vector<size_t>{0, (size_t)L - 1, (size_t)2 * L};
        for (size_t c0 : classes) for (size_t c1 : classes) for (size_t c2 : third) {
            Rng r2(c0 * 131 + c1 * 17 + c2 + 5);
            std::string pro = "U0:" + rand_units(r2, c0, ty.bits) + ";U1:" + rand_units(r2, c1, ty.bits) + ";U2:" + rand_units(r2, c2, ty.bits);
            std::vector<size_t> idx(depth, 0);
            for (;;) {
                if (in_slice()) {
                    std::string ops = pro; for (int d = 0; d < depth; ++d) ops += ";" + menu[idx[d]];
                    em.emit(std::string("hist w=") + ty.w + " L=" + std::to_string(L) + " ops=" + ops);
                }
                int d = depth - 1; while (d >= 0 && ++idx[d] == menu.size()) idx[d--] = 0;
                if (d < 0) break;
            }
        }
    }
    // (2) random long histories, every element type
    int nrand = thorough ? 60000 : 4000;
    for (int i = 0; i < nrand; ++i) {
        const Ty &ty = types[i % 4];
        GenState g; g.L = ty.L; g.w = ty.bits;
        int nobj = 3 + (int)rng.below(4), len = 30;
        std::string ops;
        for (int j = 0; j < len; ++j) { if (j) ops += ";"; ops += rand_op(rng, g, nobj); }
        if (in_slice()) em.emit(std::string("hist w=") + ty.w + " L=" + std::to_string(ty.L) + " ops=" + ops);
    }
}

int main(int argc, char **argv) {
    // Every case here is microseconds of work, but LeakSanitizer's stop-the-world pass and a heavily loaded machine can
    // stall a worker for seconds; no buffer member contains a loop that could spin, so a generous per-case limit
    // (instead of the runner's 4 s default) only removes false "hang" verdicts.  An explicit --timeout still wins.
    std::vector<char *> args(argv, argv + argc);
    static char flag[] = "--timeout", val[] = "30";
    bool given = false; for (int i = 1; i < argc; ++i) if (std::string(argv[i]) == "--timeout") given = true;
    if (!given) { args.push_back(flag); args.push_back(val); }
    return run_main((int)args.size(), args.data(), gen, exec_case);
}
