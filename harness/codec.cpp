// Correspondence harness for C14 / C15 (hex and base64 codecs).
#include "st_common.hpp"
using namespace vh;

static std::string do_enc(bool b64, const std::string &in) {
    return guarded([&]() -> std::string {
        // exact-size heap copy: ASan flags any read outside [p, p+n)
        char *p = new char[in.size()]; memcpy(p, in.data(), in.size());
        ST::string r1 = b64 ? ST::base64_encode(p, in.size()) : ST::hex_encode(p, in.size());
        delete[] p;
        ST::char_buffer cb(in.data(), in.size());
        ST::string r2 = b64 ? ST::base64_encode(cb) : ST::hex_encode(cb);
        if (r1 != r2) return "route-mismatch";
        std::string sh = shape(r1.to_utf8()); if (!sh.empty()) return sh;
        return "ok " + hex_bytes(str_bytes(r1));
    });
}

// caller-buffer decoder with a capacity the caller only *claims* (SIZE_MAX, 2^63 ...: "it is big enough"): the real block has
// room for every correct decoding of the text plus slack and a canary behind; writes beyond it are ASan's to report
static std::string do_dec_claimed(bool b64, const std::string &in, size_t claimed) {
    ST::string s = raw_string(in);
    size_t real = in.size() + 16;
    unsigned char *buf = new unsigned char[real];
    memset(buf, 0xA5, real);
    ST_ssize_t r = b64 ? ST::base64_decode(s, buf, claimed) : ST::hex_decode(s, buf, claimed);
    std::string out = "ret=" + std::to_string((long)r) + " out=";
    if (r > (ST_ssize_t)real) out += "!ret>block";
    else out += hex_units(buf, r > 0 ? (size_t)r : 0);
    // (a rejected text may have been partly decoded into the buffer before the bad character was met: within bounds, allowed)
    if (r >= 0) { for (size_t i = (size_t)r; i < real; ++i) if (buf[i] != 0xA5) { out += " !wrote-beyond-ret"; break; } }
    delete[] buf;
    return out;
}

// caller-buffer decoder; cap < 0 means null output
static std::string do_dec_into(bool b64, const std::string &in, long cap) {
    ST::string s = raw_string(in);
    if (cap < 0) {
        ST_ssize_t r = b64 ? ST::base64_decode(s, nullptr, 0) : ST::hex_decode(s, nullptr, 0);
        return "ret=" + std::to_string((long)r) + " out=-";
    }
    // exact-size heap block (ASan red zones on both sides) filled with a canary
    unsigned char *buf = new unsigned char[cap];
    memset(buf, 0xA5, cap);
    ST_ssize_t r = b64 ? ST::base64_decode(s, buf, cap) : ST::hex_decode(s, buf, cap);
    std::string out = "ret=" + std::to_string((long)r) + " out=";
    if (r > (ST_ssize_t)cap) out += "!ret>cap";
    else out += hex_units(buf, r > 0 ? (size_t)r : 0);
    // bytes beyond the reported length must be untouched on success
    if (r >= 0) for (long i = r; i < cap; ++i) if (buf[i] != 0xA5) { out += " !wrote-beyond-ret"; break; }
    delete[] buf;
    return out;
}

static std::string do_dec_alloc(bool b64, const std::string &in) {
    return guarded([&]() -> std::string {
        ST::string s = raw_string(in);
        ST::char_buffer r = b64 ? ST::base64_decode(s) : ST::hex_decode(s);
        std::string sh = shape(r); if (!sh.empty()) return sh;
        return "ok " + hex_units(r.data(), r.size());
    });
}

static void digest_item(Fnv &f, bool b64, const std::string &bytes) {
    std::string e = do_enc(b64, bytes);
    f.str(e);
    if (e.rfind("ok ", 0) == 0) {
        std::string txt = parse_bytes(e.substr(3));
        f.str(do_dec_alloc(b64, txt));
        f.str(do_dec_into(b64, txt, (long)bytes.size()));
    }
}

static std::string item_bytes(const std::string &kind, uint64_t i) {
    std::string b;
    if (kind == "g3") { b.push_back(char(i >> 16)); b.push_back(char(i >> 8)); b.push_back(char(i)); }
    else if (kind == "g2") { b.push_back(char(i >> 8)); b.push_back(char(i)); }
    else b.push_back(char(i));
    return b;
}

static std::string group_text(const std::string &alpha, uint64_t i, int len) {
    std::string g(len, ' ');
    for (int k = len - 1; k >= 0; --k) { g[k] = alpha[i % alpha.size()]; i /= alpha.size(); }
    return g;
}

static std::string exec_case(const Args &a) {
    const std::string &op = a.op;
    if (op == "hexenc") return do_enc(false, parse_bytes(a.get("in")));
    if (op == "b64enc") return do_enc(true, parse_bytes(a.get("in")));
    if (op == "hexencN" || op == "b64encN") {   // null data pointer: empty for size 0, std::invalid_argument otherwise (documented)
        size_t n = (size_t)a.num("size");
        return guarded([&]() -> std::string {
            ST::string r = op == "b64encN" ? ST::base64_encode(nullptr, n) : ST::hex_encode(nullptr, n);
            return "ok " + hex_bytes(str_bytes(r));
        });
    }
    if (op == "hexdec" || op == "b64dec") {
        if (a.get("cap") != "null" && a.num("cap") > ((uint64_t)1 << 40)) return do_dec_claimed(op == "b64dec", parse_bytes(a.get("in")), (size_t)a.num("cap"));
        long cap = a.get("cap") == "null" ? -1 : (long)a.num("cap");
        return do_dec_into(op == "b64dec", parse_bytes(a.get("in")), cap);
    }
    if (op == "hexdecA") return do_dec_alloc(false, parse_bytes(a.get("in")));
    if (op == "b64decA") return do_dec_alloc(true, parse_bytes(a.get("in")));
    if (op == "blk.enc") {   // kind=g3|g2|g1 codec=hex|b64 lo= n= : encode + both decoders, digest
        bool b64 = a.get("codec") == "b64"; uint64_t lo = a.num("lo"), n = a.num("n");
        if (a.has("expand")) {
            std::string out = "\x01", nm = b64 ? "b64" : "hex";
            for (uint64_t i = lo; i < lo + n; ++i) {
                std::string b = item_bytes(a.get("kind"), i), e = do_enc(b64, b);
                out += nm + "enc in=" + hex_bytes(b) + " => " + e + "\n";
                if (e.rfind("ok ", 0) == 0) {
                    std::string txt = parse_bytes(e.substr(3));
                    out += nm + "decA in=" + hex_bytes(txt) + " => " + do_dec_alloc(b64, txt) + "\n";
                    out += nm + "dec in=" + hex_bytes(txt) + " cap=" + std::to_string(b.size()) + " => " + do_dec_into(b64, txt, (long)b.size()) + "\n";
                }
            }
            return out;
        }
        Fnv f; for (uint64_t i = lo; i < lo + n; ++i) digest_item(f, b64, item_bytes(a.get("kind"), i));
        return "digest " + f.hex();
    }
    if (op == "blk.dec") {   // codec= pre=<hex> alpha=<hex> len= lo= n= capd=<delta> : decoders on pre++group
        bool b64 = a.get("codec") == "b64"; uint64_t lo = a.num("lo"), n = a.num("n");
        std::string pre = parse_bytes(a.get("pre")), alpha = parse_bytes(a.get("alpha"));
        int len = (int)a.num("len"); long capd = a.snum("capd");
        if (a.has("expand")) {
            std::string out = "\x01", nm = b64 ? "b64" : "hex";
            for (uint64_t i = lo; i < lo + n; ++i) {
                std::string txt = pre + group_text(alpha, i, len);
                ST::string s = raw_string(txt);
                long need = b64 ? (long)ST::base64_decode(s, nullptr, 0) : (long)ST::hex_decode(s, nullptr, 0);
                long cap = need < 0 ? 8 : need + capd; if (cap < 0) cap = 0;
                out += nm + "decA in=" + hex_bytes(txt) + " => " + do_dec_alloc(b64, txt) + "\n";
                out += nm + "dec in=" + hex_bytes(txt) + " cap=null => " + do_dec_into(b64, txt, -1) + "\n";
                out += nm + "dec in=" + hex_bytes(txt) + " cap=" + std::to_string(cap) + " => " + do_dec_into(b64, txt, cap) + "\n";
            }
            return out;
        }
        Fnv f;
        for (uint64_t i = lo; i < lo + n; ++i) {
            std::string txt = pre + group_text(alpha, i, len);
            f.str(do_dec_alloc(b64, txt));
            ST::string s = raw_string(txt);
            long need = b64 ? (long)ST::base64_decode(s, nullptr, 0) : (long)ST::hex_decode(s, nullptr, 0);
            f.u64((uint64_t)need);
            long cap = need < 0 ? 8 : need + capd; if (cap < 0) cap = 0;
            f.str(do_dec_into(b64, txt, cap));
        }
        return "digest " + f.hex();
    }
    return "bad-op";
}

static void gen(Emitter &em, const Options &opt) {
    Rng rng(opt.seed);
    bool thorough = opt.tier == "thorough";
    auto in_slice = [&](uint64_t k) { return (int)(k % opt.nslices) == opt.slice; };
    uint64_t blk = 0;
    bool c14 = opt.prop.empty() || opt.prop == "C14", c15 = opt.prop.empty() || opt.prop == "C15";
    if (c14) {
    // ---- C14: exhaustive groups (block digests)
    for (const char *codec : {"b64", "hex"}) {
        // hex is byte-wise: the 3-byte sweep adds nothing over g2 in the quick tier
        if (std::string(codec) == "b64" || thorough)
        for (uint64_t lo = 0; lo < (1u << 24); lo += 4096) if (in_slice(blk++))
            em.emit(std::string("blk.enc codec=") + codec + " kind=g3 lo=" + std::to_string(lo) + " n=4096");
        for (uint64_t lo = 0; lo < (1u << 16); lo += 4096) if (in_slice(blk++))
            em.emit(std::string("blk.enc codec=") + codec + " kind=g2 lo=" + std::to_string(lo) + " n=4096");
        if (in_slice(blk++)) em.emit(std::string("blk.enc codec=") + codec + " kind=g1 lo=0 n=256");
    }
    // ---- the encoders' null data pointer (size 0: empty text; otherwise the documented std::invalid_argument)
    for (const char *op : {"hexencN", "b64encN"}) for (int n : {0, 1, 2, 3, 4, 17}) if (in_slice(blk++)) em.emit(std::string(op) + " size=" + std::to_string(n));
    // ---- C14: every length 0..70 with random content, individually (result crosses the SSO limit)
    int reps = thorough ? 40 : 6;
    for (int rep = 0; rep < reps; ++rep)
        for (int len = 0; len <= 70; ++len) {
            std::string b; for (int i = 0; i < len; ++i) b.push_back((char)rng.below(256));
            if (!in_slice(blk++)) continue;
            em.emit("hexenc in=" + hex_bytes(b));
            em.emit("b64enc in=" + hex_bytes(b));
            // decode what the library itself produced, both forms, and upper-case hex
            std::string h = str_bytes(ST::hex_encode(b.data(), b.size()));
            std::string u = h; for (char &c : u) if (c >= 'a' && c <= 'f') c -= 32;
            std::string e = str_bytes(ST::base64_encode(b.data(), b.size()));
            em.emit("hexdecA in=" + hex_bytes(h));
            em.emit("hexdecA in=" + hex_bytes(u));
            em.emit("hexdec in=" + hex_bytes(u) + " cap=" + std::to_string(len));
            em.emit("b64decA in=" + hex_bytes(e));
            em.emit("b64dec in=" + hex_bytes(e) + " cap=" + std::to_string(len));
        }
    }
    if (!c15) return;
    // ---- C15: exhaustive final groups over a critical alphabet, 0..2 valid groups before it
    std::string full = "ABCDEFGHIJKLMNOPQRSTUVWXYZabcdefghijklmnopqrstuvwxyz0123456789+/";
    std::string odd = std::string("=!-_@[`{") + '\0' + '\x80' + '\xFF' + ',' + ':';
    std::string quick_alpha = std::string("AZaz09+/Qg") + "=!-_" + '\0' + '\x80' + '\xFF' + "@[{";
    std::string alpha = thorough ? full + odd : quick_alpha;
    uint64_t total = 1; for (int i = 0; i < 4; ++i) total *= alpha.size();
    for (const char *pre : {"", "QUJD", "QUJDREVG"})
        for (long capd : {0L, -1L, 1L}) {
            if (!thorough && capd != 0 && pre[0] == 0) continue;
            for (uint64_t lo = 0; lo < total; lo += 8192) if (in_slice(blk++))
                em.emit("blk.dec codec=b64 pre=" + hex_bytes(pre) + " alpha=" + hex_bytes(alpha) + " len=4 lo=" +
                        std::to_string(lo) + " n=" + std::to_string(std::min<uint64_t>(8192, total - lo)) + " capd=" + std::to_string(capd));
        }
    // interior position: malformed group followed by a valid one is covered by pre ++ group with
    // group valid and pre malformed:
    for (const char *pre : {"QU=D", "Q===", "QUJ=", "QU==", "!UJD", "QUJ\x80"})
        for (uint64_t lo = 0; lo < total; lo += 8192) if (in_slice(blk++))
            em.emit("blk.dec codec=b64 pre=" + hex_bytes(pre) + " alpha=" + hex_bytes(alpha) + " len=4 lo=" +
                    std::to_string(lo) + " n=" + std::to_string(std::min<uint64_t>(8192, total - lo)) + " capd=0");
    // hex: every pair / triple / quadruple over 22+ symbols
    std::string hexalpha = std::string("0123456789abcdefABCDEF") + "gG/:@`" + '\0' + '\x80' + '\xFF' + " ";
    for (int len = 1; len <= (thorough ? 4 : 3); ++len) {
        uint64_t tot = 1; for (int i = 0; i < len; ++i) tot *= hexalpha.size();
        for (const char *pre : {"", "4a", "4A6"})
            for (long capd : {0L, -1L, 1L})
                for (uint64_t lo = 0; lo < tot; lo += 8192) if (in_slice(blk++))
                    em.emit("blk.dec codec=hex pre=" + hex_bytes(pre) + " alpha=" + hex_bytes(hexalpha) + " len=" + std::to_string(len) +
                            " lo=" + std::to_string(lo) + " n=" + std::to_string(std::min<uint64_t>(8192, tot - lo)) + " capd=" + std::to_string(capd));
    }
    // ---- C15: individual random texts (mostly valid, mutated), all cap classes, null output
    int nrand = thorough ? 200000 : 20000;
    for (int k = 0; k < nrand; ++k) {
        bool b64 = rng.chance(1, 2);
        size_t len = rng.below(24);
        std::string b; for (size_t i = 0; i < len; ++i) b.push_back((char)rng.below(256));
        std::string txt = b64 ? str_bytes(ST::base64_encode(b.data(), b.size())) : str_bytes(ST::hex_encode(b.data(), b.size()));
        unsigned mut = (unsigned)rng.below(6);
        if (mut == 1 && !txt.empty()) txt[rng.below(txt.size())] = (char)rng.below(256);
        if (mut == 2 && !txt.empty()) txt[rng.below(txt.size())] = '=';
        if (mut == 3) txt.push_back(full[rng.below(64)]);
        if (mut == 4 && !txt.empty()) txt.pop_back();
        if (mut == 5 && !txt.empty()) txt.insert(txt.begin() + rng.below(txt.size()), (char)rng.pick(std::vector<int>{'=', 0, 0x80, 'A', '-'}));
        if (!in_slice(blk++)) continue;
        const char *nm = b64 ? "b64" : "hex";
        em.emit(std::string(nm) + "decA in=" + hex_bytes(txt));
        long need = (long)len;
        for (long cap : {need, need - 1, need + 1, 0L, need + 1000})
            if (cap >= 0) em.emit(std::string(nm) + "dec in=" + hex_bytes(txt) + " cap=" + std::to_string(cap));
        em.emit(std::string(nm) + "dec in=" + hex_bytes(txt) + " cap=null");
        // a claimed capacity at the edge of size_t (the size comparison must not be folded with the sign test)
        if (k % 4 == 0) for (const char *cap : {"18446744073709551615", "18446744073709551614", "9223372036854775808", "9223372036854775807"})
            em.emit(std::string(nm) + "dec in=" + hex_bytes(txt) + " cap=" + cap);
    }
    // texts of every length 0..9 (valid alphabet, every length class modulo 4 / 2) against the claimed capacities
    for (int len = 0; len <= 9; ++len) for (const char *nm : {"b64", "hex"}) for (const char *cap : {"18446744073709551615", "18446744073709551614", "9223372036854775808"}) {
        if (!in_slice(blk++)) continue;
        std::string txt = std::string(nm) == "b64" ? std::string("QUJDREVGR0g").substr(0, len) : std::string("4a4B6c7D8e").substr(0, len);
        em.emit(std::string(nm) + "dec in=" + hex_bytes(txt) + " cap=" + cap);
    }
}

int main(int argc, char **argv) { return run_main(argc, argv, gen, exec_case); }
