// Correspondence harness for C08 (slicing): substr / left / right / trim_left / trim_right / trim /
// before_first / after_first / before_last / after_last of ST::string, every overload, both case modes.
//   sl.substr s=<hex> start=<int64> count=<uint64>        => ok <hex> alloc=<n>
//   sl.left|sl.right s=<hex> n=<uint64>                   => ok <hex> alloc=<n>
//   sl.trim_left|sl.trim_right|sl.trim s=<hex> cs=<hex>|dflt   => ok <hex> alloc=<n>
//   sl.ba form=char|cstr|str|null ci=0|1 sep=<hex> s=<hex>     => ok bf=<hex>/<n> af=<hex>/<n> bl=<hex>/<n> al=<hex>/<n>
// alloc = the largest request the call made of operator new (0 = none), so an oversized request is
// an observation even when it fails; a throwing call prints `throw <kind> alloc=<n>`.
#include "st_common.hpp"
using namespace vh;

// runs f() (returning ST::string) with allocation tracking; checks the result's shape
template <class F> static std::string observe(F f, bool slash = false) {
    AllocCtl &ac = alloc_ctl();
    ac.max_request = 0; ac.track_max = true;
    std::string out = guarded([&]() -> std::string {
        ST::string r = f();
        ac.track_max = false;
        size_t req = ac.max_request;
        if (r.c_str() == nullptr) return "!nulldata";
        if (r.c_str()[r.size()] != 0) return "!noterm";
        std::string h = hex_units(r.c_str(), r.size());
        return slash ? h + "/" + std::to_string(req) : "ok " + h + " alloc=" + std::to_string(req);
    });
    ac.track_max = false;
    if (out.rfind("throw", 0) == 0) out += " alloc=" + std::to_string(ac.max_request);
    if (slash && (out[0] == 't' || out[0] == '!')) { for (char &c : out) if (c == ' ') c = '_'; if (out[0] != '!') out = "!" + out; }
    return out;
}

// NUL-terminated copy in an exact-size heap block (ASan sees a read past the terminator)
struct CStr {
    char *p;
    explicit CStr(const std::string &b) : p(new char[b.size() + 1]) { memcpy(p, b.data(), b.size()); p[b.size()] = 0; }
    ~CStr() { delete[] p; }
};

static std::string exec_case(const Args &a) {
    const std::string &op = a.op;
    ST::string s = raw_string(parse_bytes(a.get("s")));
    if (op == "sl.substr") {
        ST_ssize_t start = (ST_ssize_t)a.snum("start"); size_t count = (size_t)a.num("count");
        return observe([&] { return s.substr(start, count); });
    }
    if (op == "sl.left") { size_t n = (size_t)a.num("n"); return observe([&] { return s.left(n); }); }
    if (op == "sl.right") { size_t n = (size_t)a.num("n"); return observe([&] { return s.right(n); }); }
    if (op == "sl.trim_left" || op == "sl.trim_right" || op == "sl.trim") {
        int which = op == "sl.trim_left" ? 0 : op == "sl.trim_right" ? 1 : 2;
        if (a.get("cs") == "dflt")
            return observe([&] { return which == 0 ? s.trim_left() : which == 1 ? s.trim_right() : s.trim(); });
        CStr cs(parse_bytes(a.get("cs")));
        return observe([&] { return which == 0 ? s.trim_left(cs.p) : which == 1 ? s.trim_right(cs.p) : s.trim(cs.p); });
    }
    if (op == "sl.ba") {
        const std::string &form = a.get("form");
        ST::case_sensitivity_t cs = a.get("ci") == "1" ? ST::case_insensitive : ST::case_sensitive;
        std::string sepb = parse_bytes(a.get("sep"));
        std::string out = "ok";
        // the case-sensitive call is also made without the case argument (its documented default) and must agree
        bool dflt_cs = a.get("ci") != "1";
#define DFB(with_cs, dflt) (dflt_cs ? vh::same_as_default((with_cs), (dflt)) : (with_cs))
        const char *names[4] = {"bf", "af", "bl", "al"};
        for (int k = 0; k < 4; ++k) {
            std::string r;
            if (form == "char") {
                char ch = sepb.empty() ? 0 : sepb[0];
                r = observe([&] { return k == 0 ? DFB(s.before_first(ch, cs), s.before_first(ch)) : k == 1 ? DFB(s.after_first(ch, cs), s.after_first(ch)) : k == 2 ? DFB(s.before_last(ch, cs), s.before_last(ch)) : DFB(s.after_last(ch, cs), s.after_last(ch)); }, true);
            } else if (form == "cstr" || form == "null") {
                CStr c(sepb);
                const char *p = form == "null" ? nullptr : c.p;
                r = observe([&] { return k == 0 ? DFB(s.before_first(p, cs), s.before_first(p)) : k == 1 ? DFB(s.after_first(p, cs), s.after_first(p)) : k == 2 ? DFB(s.before_last(p, cs), s.before_last(p)) : DFB(s.after_last(p, cs), s.after_last(p)); }, true);
            } else {
                ST::string sep = raw_string(sepb);
                r = observe([&] { return k == 0 ? DFB(s.before_first(sep, cs), s.before_first(sep)) : k == 1 ? DFB(s.after_first(sep, cs), s.after_first(sep)) : k == 2 ? DFB(s.before_last(sep, cs), s.before_last(sep)) : DFB(s.after_last(sep, cs), s.after_last(sep)); }, true);
            }
            out += std::string(" ") + names[k] + "=" + r;
        }
        return out;
    }
    return "bad-op";
}

static std::string rand_bytes(Rng &rng, size_t len, const std::string &alpha) {
    std::string b;
    for (size_t i = 0; i < len; ++i) b.push_back(alpha.empty() ? (char)rng.below(256) : alpha[rng.below(alpha.size())]);
    return b;
}

static void all_strings(const std::string &alpha, int maxlen, std::vector<std::string> &out) {
    out.push_back("");
    size_t lo = 0;
    for (int l = 1; l <= maxlen; ++l) {
        size_t hi = out.size();
        for (size_t i = lo; i < hi; ++i) for (char c : alpha) out.push_back(out[i] + c);
        lo = hi;
    }
}

static void gen(Emitter &em, const Options &opt) {
    Rng rng(opt.seed);
    bool thorough = opt.tier == "thorough";
    uint64_t k = 0;
    auto emit = [&](const std::string &line) { if ((int)(k++ % opt.nslices) == opt.slice) em.emit(line); };
    const uint64_t SMAX = ~uint64_t(0);
    auto u = [](uint64_t v) { return std::to_string(v); };
    auto i64 = [](int64_t v) { return std::to_string(v); };

    // ---- corpus: witnesses of the defects this check found (repaired since; they must stay repaired)
    emit("sl.right s=616263 n=4");
    emit("sl.right s=616263 n=5");
    emit("sl.right s=616263 n=18446744073709551615");
    emit("sl.substr s=616263646566 start=2 count=18446744073709551614");
    emit("sl.ba form=str ci=0 sep=2d2d s=68656c6c6f2d2d776f726c642d2d78");

    // ---- substr / left / right over a grid of start / count / n around every boundary
    std::vector<size_t> lens = {0, 1, 2, 5, 15, 16, 17, 40};
    if (thorough) for (size_t l : {3, 4, 8, 14, 18, 31, 32, 33, 63, 64, 65}) lens.push_back(l);
    int contents = thorough ? 3 : 2;
    for (size_t len : lens) for (int rep = 0; rep < contents; ++rep) {
        std::string b = rep == 0 ? rand_bytes(rng, len, "abcdefghijklmnopqrstuvwxyz") : rand_bytes(rng, len, rep == 1 ? "" : std::string("a\0\xe9 ", 4));
        std::string hs = hex_bytes(b);
        std::vector<int64_t> starts = {INT64_MIN, INT64_MIN + 1, INT64_MIN + (int64_t)len, -(int64_t(1) << 62), INT64_MAX, INT64_MAX - 1, INT64_MAX - (int64_t)len};
        for (int64_t st = -(int64_t)len - 2; st <= (int64_t)len + 2; ++st) starts.push_back(st);
        std::vector<uint64_t> counts = {uint64_t(1) << 63, (uint64_t(1) << 63) - 1, uint64_t(1) << 62, uint64_t(1) << 32, (uint64_t(1) << 63) + len};
        for (uint64_t c = 0; c <= len + 2; ++c) { counts.push_back(c); counts.push_back(SMAX - c); }
        for (int64_t st : starts) for (uint64_t c : counts)
            emit("sl.substr s=" + hs + " start=" + i64(st) + " count=" + u(c));
        std::vector<uint64_t> ns = {uint64_t(1) << 63, (uint64_t(1) << 63) - 1, (uint64_t(1) << 63) + len, (uint64_t(1) << 63) + len + 1, (uint64_t(1) << 63) - len, uint64_t(1) << 32};
        for (uint64_t n = 0; n <= 2 * len + 3; ++n) { ns.push_back(n); ns.push_back(SMAX - n); }
        for (uint64_t n : ns) { emit("sl.left s=" + hs + " n=" + u(n)); emit("sl.right s=" + hs + " n=" + u(n)); }
    }
    // random probes of the same three with unconstrained arguments
    for (int r = 0; r < (thorough ? 60000 : 6000); ++r) {
        size_t len = rng.below(48);
        std::string hs = hex_bytes(rand_bytes(rng, len, rng.chance(1, 2) ? "" : "ab\0 "));
        int64_t st; uint64_t c;
        switch (rng.below(4)) { case 0: st = (int64_t)rng.next(); break; case 1: st = (int64_t)rng.below(2 * len + 2) - (int64_t)len - 1; break;
                                case 2: st = -(int64_t)rng.below(len + 2); break; default: st = (int64_t)rng.below(len + 1); }
        switch (rng.below(4)) { case 0: c = rng.next(); break; case 1: c = rng.below(len + 3); break; case 2: c = SMAX - rng.below(len + 3); break; default: c = SMAX; }
        emit("sl.substr s=" + hs + " start=" + i64(st) + " count=" + u(c));
        emit("sl.left s=" + hs + " n=" + u(c));
        emit("sl.right s=" + hs + " n=" + u(c));
    }

    // ---- trims: every short string over a critical alphabet x character sets (incl. bytes >= 0x80, empty, default)
    {
        std::vector<std::string> subj;
        all_strings(std::string(" \ta\0\xe9\n", 6), thorough ? 6 : 4, subj);
        std::vector<std::string> sets = {"dflt", hex_bytes(" "), hex_bytes("a "), hex_bytes("\xe9"), "-", hex_bytes(" \t\r\na"), hex_bytes(std::string("\xe9\0a", 3)), hex_bytes("\xe9\x80 \t\n")};
        for (const std::string &b : subj) for (const std::string &cs : sets) {
            if (!thorough && b.size() == 4 && (cs == "-" || cs == hex_bytes(" "))) continue;
            std::string hs = hex_bytes(b);
            emit("sl.trim_left s=" + hs + " cs=" + cs);
            emit("sl.trim_right s=" + hs + " cs=" + cs);
            emit("sl.trim s=" + hs + " cs=" + cs);
        }
        // long subjects: runs of set members at both ends, result crossing the small-string limit
        for (int r = 0; r < (thorough ? 20000 : 3000); ++r) {
            std::string ws = rng.chance(1, 2) ? " \t\r\n" : "xy\xe9";
            std::string b = rand_bytes(rng, rng.below(6), ws) + rand_bytes(rng, rng.below(40), rng.chance(1, 4) ? ws + "ab" : std::string("ab\0c ", 5)) + rand_bytes(rng, rng.below(6), ws);
            std::string cs = ws == " \t\r\n" && rng.chance(1, 2) ? "dflt" : hex_bytes(ws);
            const char *ops[3] = {"sl.trim_left", "sl.trim_right", "sl.trim"};
            emit(std::string(ops[rng.below(3)]) + " s=" + hex_bytes(b) + " cs=" + cs);
        }
    }

    // ---- before / after: every short subject x every short separator x three forms x two case modes
    {
        std::string alpha("aA-\0\xe9", 5);
        std::vector<std::string> subj, seps, seps3;
        all_strings(alpha, thorough ? 5 : 4, subj);
        all_strings(alpha, 2, seps);
        if (thorough) { all_strings("aA-", 3, seps3); for (const std::string &x : seps3) if (x.size() == 3) seps.push_back(x); }
        for (const std::string &b : subj) {
            std::string hs = hex_bytes(b);
            for (int ci = 0; ci < 2; ++ci) emit("sl.ba form=null ci=" + u(ci) + " sep=- s=" + hs);
            for (const std::string &sp : seps) for (int ci = 0; ci < 2; ++ci) {
                std::string tail = " ci=" + u(ci) + " sep=" + hex_bytes(sp) + " s=" + hs;
                if (sp.size() == 1) emit("sl.ba form=char" + tail);
                emit("sl.ba form=cstr" + tail);
                emit("sl.ba form=str" + tail);
            }
        }
        // long subjects with planted separators (adjacent, overlapping, at both ends), mixed case
        std::vector<std::string> lseps = {"-", "--", "ab", "aba", "aa", "::=", "Q", "xyz", std::string("a\0", 2), "\xc3\xa9"};
        for (int r = 0; r < (thorough ? 40000 : 4000); ++r) {
            std::string sp = rng.pick(lseps);
            std::string b; int pieces = 1 + (int)rng.below(5);
            for (int p = 0; p < pieces; ++p) {
                if (p) { std::string q = sp; if (rng.chance(1, 3)) for (char &c : q) if (rng.chance(1, 2)) c = (c >= 'a' && c <= 'z') ? c - 32 : (c >= 'A' && c <= 'Z') ? c + 32 : c; b += q; }
                b += rand_bytes(rng, rng.below(12), rng.chance(1, 2) ? "abAB-:=qQxyz" : std::string("ab\0\xc3\xa9-", 6));
            }
            if (rng.chance(1, 8)) sp = rand_bytes(rng, 1 + rng.below(3), "abAB-");
            int ci = (int)rng.below(2);
            std::string tail = " ci=" + u(ci) + " sep=" + hex_bytes(sp) + " s=" + hex_bytes(b);
            if (sp.size() == 1) emit("sl.ba form=char" + tail);
            emit("sl.ba form=cstr" + tail);
            emit("sl.ba form=str" + tail);
        }
    }
}

// The runner calls a case a hang after `case_timeout` seconds of wall-clock silence.  On a machine shared with
// other checks (load several times the core count) a microsecond case can be descheduled for longer than the
// 4 s default; a generous default keeps that from being reported, while a call that really never returns is
// still caught (an explicit --timeout on the command line wins).
int main(int argc, char **argv) {
    std::vector<char *> args; args.push_back(argv[0]);
    static char opt[] = "--timeout", val[] = "10";
    args.push_back(opt); args.push_back(val);
    for (int i = 1; i < argc; ++i) args.push_back(argv[i]);
    return run_main((int)args.size(), args.data(), gen, exec_case);
}
