"""Per-property registry: family/harness, required theorems, evidence texts."""

ALLOWED_AXIOMS = {"propext", "Classical.choice", "Quot.sound"}

TRUSTED_BASE_COMMON = [
    "Lean 4.33.0 kernel (thorough tier: leanchecker re-check of the compiled .olean)",
    "axioms accepted: propext, Classical.choice, Quot.sound only (audited by #print axioms on every run); no sorry/admit/native_decide/bv_decide",
    "the Spec definitions (lean/StVerif/Spec) as the meaning of the property",
    "correspondence check: Lean compiler+runtime executing the model in stdrv; g++ 12.2 with ASan/UBSan executing /repo's headers; generator coverage as reported here",
    "not verified: the C++ compiler's translation of the headers, libc/libstdc++ internals, the allocator",
]

FAMILIES = {
    "codec": dict(src="codec.cpp"),
}

def T(prop, *names):
    return ["StVerif.Props.%s.%s" % (prop, n) for n in names]

PROPS = {
    "C14": dict(
        family="codec",
        theorems=T("C14", "hexEncode_eq_spec", "hexEncode_length", "b64Encode_eq_spec", "b64Encode_length",
                   "hexDecodeAlloc_encode", "hexDecodeInto_encode", "b64DecodeAlloc_encode", "b64DecodeInto_encode",
                   "hexDecode_upper", "tables_inverse"),
        rule="exhaustive: every 3-byte group (2^24), 2-byte (2^16) and 1-byte (2^8) tail through encode + both decoders, as 4096-item "
             "blocks compared by digest; plus every length 0..70 with seeded random content individually, incl. upper-case hex. "
             "non-trivial = non-empty input; distinct = distinct input lines",
        exhaustive={"quick": True, "thorough": True},
        exhaustive_note="the per-group functions are enumerated completely; whole byte arrays are covered by the theorems (induction), not by enumeration",
        trusted_base=["tables hex_chars/hex_values/b64_chars/b64_values regenerated from include/st_codecs_priv.h by tools/gen_tables.py (regex translator)"],
        assumptions=["bytes are 0..255; ST::string carrying arbitrary bytes is built with assume_valid"],
    ),
    "C15": dict(
        family="codec",
        theorems=T("C15", "hexDecodeAlloc_accepts_iff", "hexDecodeInto_spec", "hexDecodeInto_writes_le", "hexDecode_null_query",
                   "b64DecodeAlloc_accepts_iff", "b64DecodeInto_spec", "b64DecodeInto_writes_le", "b64Decode_null_query",
                   "sizeQuery_eq_decodedLength", "decoders_never_oob"),
        rule="exhaustive: every 4-character final group over a critical alphabet (quick 20 symbols, thorough all 64 + 13 odd symbols incl. '=', NUL, "
             "0x80, 0xFF) after 0..2 valid groups and after malformed groups, output_size = need-1/need/need+1; every hex string of length 1..3 (4) over 32 "
             "symbols; seeded random mutated encodings x cap classes x null output. non-trivial = non-empty text",
        exhaustive={"quick": False, "thorough": False},
        trusted_base=["tables regenerated from include/st_codecs_priv.h by tools/gen_tables.py",
                      "writes outside the caller's buffer are observed by ASan red zones and a canary, the bound itself is the theorem *_writes_le"],
        assumptions=["reading of 'decoded length implied by the input's length and padding' for text with invalid characters: each '=' among the last two "
                     "characters counts one byte (equals the RFC length on every valid text: theorem sizeQuery_eq_decodedLength)"],
    ),
}

PENDING = "not yet built in this round (machinery under construction; see DESIGN.md section 8)"
NOT_APPLICABLE = {("C%02d" % i): PENDING for i in range(1, 21)}

MANIFEST_TEXT = {
    "C14": dict(
        text="Theorems (Lean kernel, all byte arrays by induction): the model of hex_encode/base64_encode equals the RFC 4648 encoding written with / and %, "
             "lengths are 2n and 4*ceil(n/3), and both decoder forms (and upper-case hex) return the original bytes. The model is tied to the code by "
             "exhaustive differential execution of every 1-, 2- and 3-byte group (2^24+2^16+2^8) and by regenerating the four constant tables from the source.",
        design_ref="DESIGN.md section 3, C14/C15",
        note="Trusted: Lean kernel, propext/Classical.choice/Quot.sound, the RFC spec definitions, the correspondence harness (ASan/UBSan build of /repo's headers), "
             "the regex table translator. Not verified: compiler, allocator.",
        technique="Lean 4 proof over a hand model + exhaustive differential correspondence + regenerated tables"),
    "C15": dict(
        text="Theorems (all texts over 256 byte values, all output sizes): the allocating decoders return ok exactly on valid text and throw codec_error otherwise "
             "(assertion unreachable), the caller-buffer decoders return the implied length exactly when the text is valid and fits and -1 otherwise, never store "
             "more than output_size bytes, answer the null-output size query, and never read past the text. Tied to the code by exhaustive final-group sweeps and "
             "mutated encodings under ASan with exact-size output blocks.",
        design_ref="DESIGN.md section 3, C14/C15",
        note="Trusted as C14. The machine-level 'no write outside the buffer' is observed by ASan/canaries; the bound on the number of stores is the theorem.",
        technique="Lean 4 proof over a hand model + differential correspondence under ASan + regenerated tables"),
}
