"""Per-property registry: family/harness, required theorems, evidence texts."""

ALLOWED_AXIOMS = {"propext", "Classical.choice", "Quot.sound"}

TRUSTED_BASE_COMMON = [
    "Lean 4.33.0 kernel (thorough tier: leanchecker re-check of the compiled .olean)",
    "axioms accepted: propext, Classical.choice, Quot.sound only (audited by #print axioms on every run); no sorry/admit/native_decide/bv_decide",
    "the Spec definitions (lean/StVerif/Spec) as the meaning of the property",
    "correspondence check: Lean compiler+runtime executing the model in stdrv; g++ 12.2 with ASan/UBSan executing /repo's headers; generator coverage as reported here",
    "not verified: the C++ compiler's translation of the headers, libc/libstdc++ internals, the allocator",
]

FAMILIES = {
    "codec": dict(src="codec.cpp"),
    "conv": dict(src="conv.cpp"),
}

DEFAULT_MODE_VARIANTS = ["", "-DST_DEFAULT_VALIDATION=ST::substitute_invalid -DVH_DEFAULT_MODE=\"s\"",
                         "-DST_DEFAULT_VALIDATION=ST::assume_valid -DVH_DEFAULT_MODE=\"a\""]

def T(prop, *names):
    return ["StVerif.Props.%s.%s" % (prop, n) for n in names]

PROPS = {
    "C14": dict(
        family="codec",
        theorems=T("C14", "hexEncode_eq_spec", "hexEncode_length", "b64Encode_eq_spec", "b64Encode_length",
                   "hexDecodeAlloc_encode", "hexDecodeInto_encode", "b64DecodeAlloc_encode", "b64DecodeInto_encode",
                   "hexDecode_upper", "tables_inverse"),
        rule="exhaustive: every 3-byte group (2^24), 2-byte (2^16) and 1-byte (2^8) tail through encode + both decoders, as 4096-item "
             "blocks compared by digest; plus every length 0..70 with seeded random content individually, incl. upper-case hex. "
             "non-trivial = non-empty input; distinct = distinct input lines",
        exhaustive={"quick": True, "thorough": True},
        exhaustive_note="the per-group functions are enumerated completely; whole byte arrays are covered by the theorems (induction), not by enumeration",
        trusted_base=["tables hex_chars/hex_values/b64_chars/b64_values regenerated from include/st_codecs_priv.h by tools/gen_tables.py (regex translator)"],
        assumptions=["bytes are 0..255; ST::string carrying arbitrary bytes is built with assume_valid"],
    ),
    "C15": dict(
        family="codec",
        theorems=T("C15", "hexDecodeAlloc_accepts_iff", "hexDecodeInto_spec", "hexDecodeInto_writes_le", "hexDecode_null_query",
                   "b64DecodeAlloc_accepts_iff", "b64DecodeInto_spec", "b64DecodeInto_writes_le", "b64Decode_null_query",
                   "sizeQuery_eq_decodedLength", "decoders_never_oob"),
        rule="exhaustive: every 4-character final group over a critical alphabet (quick 20 symbols, thorough all 64 + 13 odd symbols incl. '=', NUL, "
             "0x80, 0xFF) after 0..2 valid groups and after malformed groups, output_size = need-1/need/need+1; every hex string of length 1..3 (4) over 32 "
             "symbols; seeded random mutated encodings x cap classes x null output. non-trivial = non-empty text",
        exhaustive={"quick": False, "thorough": False},
        trusted_base=["tables regenerated from include/st_codecs_priv.h by tools/gen_tables.py",
                      "writes outside the caller's buffer are observed by ASan red zones and a canary, the bound itself is the theorem *_writes_le"],
        assumptions=["reading of 'decoded length implied by the input's length and padding' for text with invalid characters: each '=' among the last two "
                     "characters counts one byte (equals the RFC length on every valid text: theorem sizeQuery_eq_decodedLength)"],
    ),
}

PROPS.update({
    "C01": dict(
        family="conv", theorems=[],
        rule="every Unicode scalar (1,112,064) alone and (thorough) in 25 neighbour contexts through 21 routes x 3 modes as 8192-scalar blocks compared by digest; "
             "14 boundary scalars x 25 contexts, all 256 Latin-1 bytes x 3 positions and seeded random scalar sequences (length 0..40) through every public route "
             "(free functions ptr/buffer, ST::string constructors/set/operator=/from_*/literals/std::basic_string/string_view, to_* members/std strings). "
             "non-trivial = non-empty input; distinct = distinct input lines (blocks count their scalars)",
        exhaustive={"quick": True, "thorough": True},
        exhaustive_note="exhaustive over single scalars per route/mode; sequences are covered by the theorems (list induction), not by enumeration",
        assumptions=["wchar_t is 32-bit on this platform: every wchar_t route is the UTF-32 route; the 16-bit enable_if branches are not compiled"],
    ),
    "C02": dict(
        family="conv", theorems=[], variants=DEFAULT_MODE_VARIANTS,
        rule="every string over a 14-symbol critical byte alphabet up to length 4 (quick) / 5 (thorough), over 8 UTF-16 and 9 UTF-32 critical units, "
             "a second byte alphabet with C0/C1/F5/FF up to length 3, valid text with a malformed unit spliced/substituted at every position, seeded random garbage; "
             "each through every route reading that encoding x {check, substitute, assume, default} x Latin-1 with/without substitution; harness rebuilt per "
             "ST_DEFAULT_VALIDATION setting. non-trivial = non-empty input",
        exhaustive={"quick": False, "thorough": False},
    ),
    "C03": dict(
        family="conv", theorems=[],
        rule="the C02 generators (arbitrary garbage in all four source encodings, every truncation point of well-formed text, null pointers with zero length), each "
             "input in an exact-size heap block under ASan+UBSan; observed: exception kind or (size(), units, NUL terminator); aborts/hangs attributed per case",
        exhaustive={"quick": False, "thorough": False},
        trusted_base=["reads outside the input and writes outside the result are observed by ASan on the real code; the model-level counterpart is measure = fill length"],
    ),
})

PENDING = "not yet built in this round (machinery under construction; see DESIGN.md section 8)"
NOT_APPLICABLE = {("C%02d" % i): PENDING for i in range(1, 21)}

MANIFEST_TEXT = {
    "C01": dict(text="(under construction) correspondence + reference-transcoding check of every public conversion route on well-formed text",
                design_ref="DESIGN.md section 3, C01", note="see evidence", technique="Lean 4 proof over a hand model + exhaustive per-scalar differential correspondence"),
    "C02": dict(text="(under construction) correspondence + reference-transcoding check on malformed input, all modes and default-mode builds",
                design_ref="DESIGN.md section 3, C02", note="see evidence", technique="Lean 4 proof over a hand model + differential correspondence"),
    "C03": dict(text="(under construction) totality and memory safety of conversions on arbitrary input",
                design_ref="DESIGN.md section 3, C03", note="see evidence", technique="Lean 4 proof over a hand model + differential correspondence under ASan/UBSan"),
    "C14": dict(
        text="Theorems (Lean kernel, all byte arrays by induction): the model of hex_encode/base64_encode equals the RFC 4648 encoding written with / and %, "
             "lengths are 2n and 4*ceil(n/3), and both decoder forms (and upper-case hex) return the original bytes. The model is tied to the code by "
             "exhaustive differential execution of every 1-, 2- and 3-byte group (2^24+2^16+2^8) and by regenerating the four constant tables from the source.",
        design_ref="DESIGN.md section 3, C14/C15",
        note="Trusted: Lean kernel, propext/Classical.choice/Quot.sound, the RFC spec definitions, the correspondence harness (ASan/UBSan build of /repo's headers), "
             "the regex table translator. Not verified: compiler, allocator.",
        technique="Lean 4 proof over a hand model + exhaustive differential correspondence + regenerated tables"),
    "C15": dict(
        text="Theorems (all texts over 256 byte values, all output sizes): the allocating decoders return ok exactly on valid text and throw codec_error otherwise "
             "(assertion unreachable), the caller-buffer decoders return the implied length exactly when the text is valid and fits and -1 otherwise, never store "
             "more than output_size bytes, answer the null-output size query, and never read past the text. Tied to the code by exhaustive final-group sweeps and "
             "mutated encodings under ASan with exact-size output blocks.",
        design_ref="DESIGN.md section 3, C14/C15",
        note="Trusted as C14. The machine-level 'no write outside the buffer' is observed by ASan/canaries; the bound on the number of stores is the theorem.",
        technique="Lean 4 proof over a hand model + differential correspondence under ASan + regenerated tables"),
}
