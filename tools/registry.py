"""Per-property registry: family/harness, required theorems, evidence texts.

The entries live in tools/props/<family>.py; each plug-in defines any of the module-level dicts
FAMILIES (harness family -> build spec), PROPS (property id -> check spec), MANIFEST_TEXT
(property id -> texts for MANIFEST.json) and NOT_APPLICABLE (property id -> reason)."""
import os, glob, importlib.util, sys

ALLOWED_AXIOMS = {"propext", "Classical.choice", "Quot.sound"}

TRUSTED_BASE_COMMON = [
    "Lean 4.33.0 kernel (thorough tier: leanchecker re-check of the compiled .olean)",
    "axioms accepted: propext, Classical.choice, Quot.sound only (audited by #print axioms on every run); no sorry/admit/native_decide/bv_decide",
    "the Spec definitions (lean/StVerif/Spec) as the meaning of the property",
    "correspondence check: Lean compiler+runtime executing the model in stdrv; g++ 12.2 with ASan/UBSan executing /repo's headers; generator coverage as reported here",
    "not verified: the C++ compiler's translation of the headers, libc/libstdc++ internals, the allocator",
]

FAMILIES = {}
PROPS = {}
MANIFEST_TEXT = {}
NOT_APPLICABLE = {}

_here = os.path.dirname(os.path.abspath(__file__))
sys.path.insert(0, _here)
for _path in sorted(glob.glob(os.path.join(_here, "props", "*.py"))):
    _spec = importlib.util.spec_from_file_location("props_" + os.path.basename(_path)[:-3], _path)
    _mod = importlib.util.module_from_spec(_spec)
    _spec.loader.exec_module(_mod)
    for _name, _dst in (("FAMILIES", FAMILIES), ("PROPS", PROPS), ("MANIFEST_TEXT", MANIFEST_TEXT), ("NOT_APPLICABLE", NOT_APPLICABLE)):
        _dst.update(getattr(_mod, _name, {}))

PENDING = "not yet built in this round (machinery under construction; see DESIGN.md section 8)"
for _i in range(1, 21):
    _pid = "C%02d" % _i
    if _pid not in PROPS and _pid not in NOT_APPLICABLE:
        NOT_APPLICABLE[_pid] = PENDING
