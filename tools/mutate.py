#!/usr/bin/env python3
"""Coverage-guided mutation self-test of the checks (machine-made small edits of /repo's headers).

  tools/mutate.py list   [--max N] [--seed S]                  -> prints the sampled mutants (id file:line kind)
  tools/mutate.py run    [--max N] [--seed S] [--shard i/n] [--out DIR] [--only file.h]
  tools/mutate.py suite  --results DIR                          -> for every survivor: does the library's own suite stay green?

A mutant is one token-level edit on a line that some property's generators execute (coverage/lines.json, written by
tools/coverage.py): relational operator off by one (< <-> <=, > <-> >=, == <-> !=), && <-> ||, + <-> -, `+ 1`/`- 1`
dropped, a hexadecimal mask with one bit flipped, a decimal constant +1, a simple assignment statement deleted.
For each mutant a scratch copy of the library (outside /repo and /verif, removed afterwards) is checked with the quick
commands of the properties whose generators reach that line, cheapest first, until one reports a VIOLATION.  Survivors
are either equivalent mutants or places where the tie between model and code is thin; they are listed for a human.
Nothing here is registered in MANIFEST.json; this is a test of the machinery, not a check of the library.
"""
import sys, os, re, json, random, shutil, subprocess, tempfile, time, glob
HERE = os.path.dirname(os.path.abspath(__file__))
VERIF = os.path.dirname(HERE)
REPO = os.environ.get("ST_REPO_BASE", os.environ.get("VP_RUN_REPO", "/repo"))
COST = dict(C15=4, C03=9, C20=11, C08=11, C11=11, C13=11, C07=12, C19=14, C09=15, C16=19, C04=20, C14=20, C06=22, C10=22, C18=23, C02=29, C12=30, C05=53, C17=63, C01=68)

REL = [(" < ", " <= "), (" <= ", " < "), (" > ", " >= "), (" >= ", " > "), (" == ", " != "), (" != ", " == "), (" && ", " || "), (" || ", " && "),
       (" + ", " - "), (" - ", " + ")]

def mutants_of_line(text):
    """yield (kind, new_text) for one source line"""
    s = text
    code = s.split("//")[0]
    if not code.strip() or code.strip().startswith("#") or "template" in code or "ST_ASSERT" in code or "static_assert" in code:
        return
    for a, b in REL:
        for m in re.finditer(re.escape(a), code):
            # skip template angle brackets / stream operators: require an identifier, ')' , ']' or digit before and not 'operator'
            pre = code[:m.start()].rstrip()
            if not pre or not re.search(r"[\w\)\]]$", pre) or pre.endswith("operator") or pre.endswith("return"): continue
            if a in (" < ", " > ") and re.search(r"(static_cast|reinterpret_cast|const_cast|std::\w+|buffer|basic_\w+|enable_if\w*)$", pre): continue
            yield ("%s->%s" % (a.strip(), b.strip()), s[:m.start()] + b + s[m.end():])
    for m in re.finditer(r" ([+-]) 1\b(?!\.)", code):
        yield ("drop%s1" % m.group(1), s[:m.start()] + s[m.end():])
    for m in re.finditer(r"\b0x([0-9A-Fa-f]+)\b", code):
        v = int(m.group(1), 16)
        if v == 0: continue
        hb = v.bit_length() - 1
        for bit in sorted({hb, 0} if v > 1 else {0}):
            nv = v ^ (1 << bit)
            yield ("hex^bit%d" % bit, s[:m.start()] + ("0x%0*X" % (len(m.group(1)), nv)) + s[m.end():])
        yield ("hex+1", s[:m.start()] + ("0x%0*X" % (len(m.group(1)), v + 1)) + s[m.end():])
    for m in re.finditer(r"(?<![\w.])([0-9]+)(?![\w.xX])", code):
        v = int(m.group(1))
        if v > 4096: continue
        pre = code[:m.start()]
        if re.search(r"\[\s*$", pre) and v == 0: continue
        yield ("dec+1", s[:m.start()] + str(v + 1) + s[m.end():])
        if v > 0: yield ("dec-1", s[:m.start()] + str(v - 1) + s[m.end():])
    st = code.strip()
    if re.fullmatch(r"[\w\.\->\[\]\*\(\)]+\s*(=|\+=|-=|\|=)\s*[^=].*;", st) and not st.startswith(("return", "const ", "auto ", "size_t ", "int ", "char", "unsigned", "ST_", "bool ", "long ", "double ", "float ")):
        ind = s[:len(s) - len(s.lstrip())]
        yield ("delstmt", ind + ";")

def all_mutants(only=None):
    cov = json.load(open(os.path.join(VERIF, "coverage", "lines.json")))
    out = []
    for f in sorted(cov):
        if only and f != only: continue
        src = open(os.path.join(REPO, "include", f), errors="replace").read().split("\n")
        for ln in sorted(int(x) for x in cov[f]):
            if ln - 1 >= len(src): continue
            seen = set()
            for k, (kind, new) in enumerate(mutants_of_line(src[ln - 1])):
                if new == src[ln - 1] or new in seen: continue
                seen.add(new)
                out.append(dict(id="%s:%d:%d" % (f, ln, k), file=f, line=ln, kind=kind, old=src[ln - 1], new=new, props=cov[f][str(ln)]))
    return out

def sample(muts, n, seed):
    rng = random.Random(seed)
    byline = {}
    for m in muts: byline.setdefault((m["file"], m["line"]), []).append(m)
    keys = sorted(byline); rng.shuffle(keys)
    out = []
    for k in keys:                      # one mutant per line first, so the sample spreads over the code
        out.append(rng.choice(byline[k]))
        if len(out) >= n: break
    return out

def anchored():
    """property -> header basenames its anchors name (properties.jsonl): those properties are tried first on a line of that file"""
    a = {}
    for l in open(os.path.join(VERIF, "properties.jsonl")):
        try: p = json.loads(l)
        except Exception: continue
        a[p["id"]] = {os.path.basename(f) for f in p.get("anchors", {}).get("files", [])}
    return a
ANCH = None

def run_one(m, outdir, tier="quick", maxprops=7):
    tmp = tempfile.mkdtemp(prefix="stmut-", dir="/tmp")
    try:
        shutil.copytree(os.path.join(REPO, "include"), os.path.join(tmp, "include"))
        shutil.copy(os.path.join(REPO, "CMakeLists.txt"), tmp)
        p = os.path.join(tmp, "include", m["file"])
        src = open(p, errors="replace").read().split("\n")
        assert src[m["line"] - 1] == m["old"]
        src[m["line"] - 1] = m["new"]
        open(p, "w").write("\n".join(src))
        global ANCH
        if ANCH is None: ANCH = anchored()
        # properties anchored in this header first (cheapest first), then the others that merely pass through the line
        props = sorted(m["props"], key=lambda x: (0 if m["file"] in ANCH.get(x, ()) else 1, COST.get(x, 30)))[:maxprops]
        rec = dict(m, tried=[], status="survived")
        for pr in props:
            t0 = time.time()
            try:
                r = subprocess.run([sys.executable, os.path.join(HERE, "check.py"), pr, "--tier", tier], cwd=VERIF, env=dict(os.environ, ST_REPO=tmp),
                                   stdout=subprocess.PIPE, stderr=subprocess.STDOUT, text=True, timeout=900)
            except subprocess.TimeoutExpired:
                # the mutant makes the library hang or crash on so many cases that the check does not finish in time: it is
                # certainly not passing; counted as killed, marked as slow
                rec["tried"].append(dict(prop=pr, rc=-1, wall=900, kinds=["timeout"], nfi=False))
                rec["status"] = "killed"; rec["by"] = pr + " (timeout)"
                subprocess.run("pkill -f 'ST_REPO=%s' ; pkill -f %s" % (tmp, tmp), shell=True)
                break
            vio = [l for l in r.stdout.splitlines() if l.startswith("VIOLATION")]
            kinds = []
            for l in vio:
                mm = re.search(r"replay=(\S+)", l)
                try: kinds.append(json.load(open(mm.group(1))).get("kind"))
                except Exception: kinds.append("?")
            rec["tried"].append(dict(prop=pr, rc=r.returncode, wall=round(time.time() - t0, 1), kinds=kinds, nfi=any("no-failing-input-found" in l for l in vio)))
            if kinds and all(k == "harness-build-failure" for k in kinds):
                rec["status"] = "does-not-compile"; break
            if r.returncode == 1 and vio:
                rec["status"] = "killed"; rec["by"] = pr; break
            if r.returncode not in (0, 1):
                rec["status"] = "error"; rec["log"] = r.stdout[-1500:]
        return rec
    finally:
        shutil.rmtree(tmp, ignore_errors=True)

def main():
    argv = sys.argv[1:]
    if not argv: print(__doc__); return 2
    cmd = argv[0]; n = 200; seed = 1; shard = (0, 1); out = os.path.join(VERIF, ".cache", "mut"); only = None; results = None
    i = 1
    while i < len(argv):
        if argv[i] == "--max": n = int(argv[i + 1]); i += 2
        elif argv[i] == "--seed": seed = int(argv[i + 1]); i += 2
        elif argv[i] == "--shard": a, b = argv[i + 1].split("/"); shard = (int(a), int(b)); i += 2
        elif argv[i] == "--out": out = argv[i + 1]; i += 2
        elif argv[i] == "--only": only = argv[i + 1]; i += 2
        elif argv[i] == "--results": results = argv[i + 1]; i += 2
        else: i += 1
    if cmd in ("list", "run"):
        muts = all_mutants(only)
        sel = sample(muts, n, seed)
        if cmd == "list":
            print("%d candidate mutants on %d lines; sampled %d" % (len(muts), len({(m['file'], m['line']) for m in muts}), len(sel)))
            for m in sel: print(m["id"], m["kind"], "|", m["old"].strip(), "=>", m["new"].strip(), m["props"])
            return 0
        os.makedirs(out, exist_ok=True)
        subprocess.run([sys.executable, os.path.join(HERE, "setup.py")], cwd=VERIF, stdout=subprocess.DEVNULL, stderr=subprocess.DEVNULL)
        path = os.path.join(out, "results-%d-%d-of-%d.jsonl" % (seed, shard[0], shard[1]))
        done = set()
        if os.path.exists(path):
            done = {json.loads(l)["id"] for l in open(path)}
        for k, m in enumerate(sel):
            if k % shard[1] != shard[0] or m["id"] in done: continue
            rec = run_one(m, out)
            with open(path, "a") as f: f.write(json.dumps(rec) + "\n")
            print("%s %s %s %s" % (rec["status"], rec["id"], rec["kind"], rec.get("by", "")), flush=True)
        # the checks regenerate lean/StVerif/Generated from the tree they look at: put the real tree's back
        subprocess.run([sys.executable, os.path.join(HERE, "gen_tables.py")], cwd=VERIF, env=dict(os.environ, ST_REPO=REPO), stdout=subprocess.DEVNULL)
        subprocess.run([sys.executable, os.path.join(HERE, "gen_statics.py")], cwd=VERIF, env=dict(os.environ, ST_REPO=REPO), stdout=subprocess.DEVNULL)
        return 0
    if cmd == "recheck":
        # survivors of an earlier run, checked again by every property whose generators reach the line (no cap)
        recs = []
        for p_ in glob.glob(os.path.join(results or out, "results-*.jsonl")):
            recs += [json.loads(l) for l in open(p_)]
        surv = [r for r in recs if r["status"] == "survived"]
        path = os.path.join(results or out, "recheck.jsonl")
        done = {json.loads(l)["id"] for l in open(path)} if os.path.exists(path) else set()
        for r in surv:
            if r["id"] in done: continue
            m = {k: r[k] for k in ("id", "file", "line", "kind", "old", "new", "props")}
            rec = run_one(m, out, maxprops=99)
            with open(path, "a") as f: f.write(json.dumps(rec) + "\n")
            print("%s %s %s | %s => %s | %s" % (rec["status"], rec["id"], rec["kind"], rec["old"].strip(), rec["new"].strip(), rec.get("by", "")), flush=True)
        return 0
    if cmd == "suite":
        recs = []
        for p in glob.glob(os.path.join(results or out, "results-*.jsonl")):
            recs += [json.loads(l) for l in open(p)]
        surv = [r for r in recs if r["status"] == "survived"]
        print("%d mutants, %d killed, %d do not compile, %d survived, %d errors" % (len(recs), sum(r["status"] == "killed" for r in recs),
              sum(r["status"] == "does-not-compile" for r in recs), len(surv), sum(r["status"] == "error" for r in recs)))
        for r in surv:
            print("SURVIVOR %s %s | %s => %s | tried %s" % (r["id"], r["kind"], r["old"].strip(), r["new"].strip(), [t["prop"] for t in r["tried"]]))
        return 0
    return 2

if __name__ == "__main__":
    sys.exit(main())
