"""Entries for C10 / C11 (format-string parser and field rendering; harness family "fmt")."""
from registry_api import T

FAMILIES = {
    "fmt": dict(src="fmt.cpp"),
}

PROPS = {
    "C10": dict(
        family="fmt",
        theorems=T("C10", "run_sat", "parse_no_oob", "parse_terminates", "parse_no_ub", "null_fmt", "outcomes_all_args",
                   "char_padding_only_assert_partial", "char_padding_assert_raised", "toString_sat", "outcomes_partial", "zero_args"),
        partial="'the only way it stops the process is the documented char-padding assertion' is proved for argument lists whose floating-point renderings are "
                "shorter than the library's 64-byte buffer (Arg.FloatFits); for longer renderings the pinned code aborts with 'Format buffer too small' (defect 13, "
                "property C13). outcomes_all_args is the unconditional statement (every argument list) and lists that message explicitly. A result of 2^28 bytes or more "
                "trips the documented size-limit assertion of ST::string (named in outcomes_partial). Reads of the real machine are observed by ASan, not proved.",
        rule="every string over the 16-symbol critical alphabet { } _ . & 0 1 9 + - space x c < a \\x80 up to length 4 (quick) / 5 (thorough), each with 0 arguments and "
             "three argument lists drawn from a pool of 16 lists over int, unsigned, long long, char, wchar_t, char16_t, bool, const char*, null const char*, ST::string, "
             "std::string_view, float, double; grammar-directed random format strings (1-3 fields of 0-5 items in any order: flags, '_' + any pad byte, widths incl. numerals "
             "that wrap or saturate, '.'/'&' followed by whitespace / sign / digits / nothing, unknown bytes, unterminated fields; literals with brace escapes and non-UTF-8 bytes) "
             "with 0-4 arguments of all 23 argument kinds; every prefix of 11 valid format strings with full, short and empty argument lists; the null format string. Routes: "
             "ST::format (default validation), ST::format(validation), ST::format_latin_1 and apply_format into a recording format_writer (exact sink-call sequence); one-argument "
             "calls are made both with the real C++ type and through a user-defined formatter that forwards to the library overload. Each format string is an exact-size heap "
             "block ending in its NUL (ASan). non-trivial = the format string contains a brace",
        exhaustive={"quick": False, "thorough": False},
        exhaustive_note="exhaustive over format strings up to the stated length over the critical alphabet for the sampled argument lists; arbitrary strings are covered by the theorems",
        assumptions=["floating-point renderings are supplied by the harness from libc (C13); outputs of 2^28 bytes or more (documented string size limit) are not generated",
                     "the most negative int/long/long long (defect 12, C12) and float renderings of 64 bytes or more (defect 13, C13) are left to those properties"],
        trusted_base=["strtol(…, 10) is modelled (Fmt.strtol10: C-locale whitespace, sign, digits, saturation, nothing consumed without a digit) and validated against glibc by the correspondence"],
    ),
}

PROPS["C11"] = dict(
    family="fmt",
    theorems=T("C11", "format_outcome_eq_spec", "format_eq_spec", "field_eq_spec", "int_eq_spec", "never_truncated_int", "never_truncated_text",
               "length_eq_max_int", "length_eq_max_text", "zero_pad_position", "zero_flag", "sequential_ignores_refs", "escape_braces",
               "literal_verbatim", "char_class_wide"),
    partial="floating-point arguments: the libc rendering is a parameter (C13) and is assumed to fit the library's 64-byte buffer (Arg.FloatFits); the most negative "
            "int/long/long long is modelled as the repaired code renders it (defect 12 belongs to C12); wide-string arguments (const wchar_t*/char16_t*/char32_t*) "
            "are not modelled; string arguments shorter than 2^31 bytes, fewer than 2^64 arguments",
    rule="cross product alignment {none,<,>} x pad {none, _*, 0, 0 then _*, _* then 0, _0} x width {0, |r|-1, |r|, |r|+1, |r|+2, 40, 70} x '#' x '+' x class "
         "{default,d,x,X,o,b,c} x &N x 4 item orders over boundary values (0, +-1, min+1, max, digit-count boundaries of each radix, code-point boundaries) of all "
         "eight integer types + char, wchar_t, char8_t, char16_t, char32_t, bool (quick: a seed-dependent sixth; thorough: all); strings (const char*, ST::string, "
         "std::string, string_view; empty, ASCII, multi-byte, invalid UTF-8) and booleans x alignment x pad x width around the length x precision {none, 0, 1, |t|-1, |t|, "
         "100, '.', negative, whitespace/sign forms, wrapping numeral} x ignored flags; float/double x padding (rendering supplied by libc); seeded random strings "
         "of 1-3 fields with 1-3 arguments, sequential and &N mixed, literals with brace escapes between. Every case through one of ST::format / ST::format(validation) "
         "/ ST::format_latin_1 / a recording format_writer. non-trivial = the format string contains a brace",
    exhaustive={"quick": False, "thorough": False},
    assumptions=["readings chosen (DESIGN C11): zero-pad overrides an explicit alignment for integers; for text and booleans '0' only selects the pad character; "
                 "precision is ignored for integers; the character class applies to integer and character arguments only; floating-point arguments are 'rendered by "
                 "libc, then padded' (C13)",
                 "the most negative int/long/long long (defect 12, C12) is not generated"],
    trusted_base=["strtol(…, 10) is modelled (Fmt.strtol10) and validated against glibc by the correspondence"],
)

MANIFEST_TEXT = {
    "C10": dict(
        text="(theorems under construction) model of fetch_prefix / next_format / parse_format / apply_format over a reader that is undefined behind the terminating NUL; "
             "correspondence on every short string over a critical alphabet, grammar-directed random fields and every prefix of valid format strings under ASan",
        design_ref="DESIGN.md section 3, C10", note="see evidence",
        technique="Lean 4 proof over a hand model + differential correspondence under ASan/UBSan with abort/hang attribution"),
    "C11": dict(
        text="(theorems under construction) Spec.Render: field grammar over the byte list, argument selection, integer/text/char renderings and padding; "
             "model of pad_size / format_numeric_string / format_string / format_char / format_type; correspondence over the flag cross product",
        design_ref="DESIGN.md section 3, C11", note="see evidence",
        technique="Lean 4 proof over a hand model + differential correspondence under ASan/UBSan"),
}
