"""Entries for C10 / C11 (format-string parser and field rendering; harness family "fmt")."""
from registry_api import T

FAMILIES = {
    "fmt": dict(src="fmt.cpp"),
}

PROPS = {
    "C10": dict(
        family="fmt",
        theorems=T("C10", "translated_format_string_is_model", "run_sat", "parse_no_oob", "parse_terminates", "parse_no_ub", "null_fmt", "outcomes_all_args",
                   "char_padding_only_assert", "char_padding_assert_raised", "toString_sat", "outcomes", "zero_args"),
        partial="nothing is assumed about the length of a floating-point rendering (64 bytes and more go through the heap buffer of the repaired code). Two edges of the "
                "domain are named in the theorems rather than hidden: a result of 2^28 bytes or more trips the documented size-limit assertion of ST::string (outcomes), "
                "and libc's snprintf is assumed to report a positive size (Arg.LibcRenders) - glibc breaks that only for a precision of about 2^31, which could only ask for a "
                "result beyond the 2^28 limit (outcomes_all_args is the statement without that hypothesis). Wide-text arguments (wchar_t/char16_t/char32_t pointers, strings, views) are covered under Arg.WideOk: units fit their C++ type and the text is below the documented 2^28-unit limit of the conversion functions; malformed wide text is ST::unicode_error (named by the property). Reads of the real machine are observed by ASan, not proved.",
        rule="every string over the 16-symbol critical alphabet { } _ . & 0 1 9 + - space x c < a \\x80 up to length 4 (quick) / 5 (thorough), each with 0 arguments and "
             "three argument lists drawn from a pool of 16 lists over int, unsigned, long long, char, wchar_t, char16_t, bool, const char*, null const char*, ST::string, "
             "std::string_view, float, double; grammar-directed random format strings (1-3 fields of 0-5 items in any order: flags, '_' + any pad byte, widths incl. numerals "
             "that wrap or saturate, '.'/'&' followed by whitespace / sign / digits / nothing, unknown bytes, unterminated fields; literals with brace escapes and non-UTF-8 bytes) "
             "with 0-4 arguments of all 23 argument kinds; every prefix of 11 valid format strings with full, short and empty argument lists; the null format string; floating-point renderings of 63, 64, 65, 100 and 300+ bytes "
             "({.61f} {.62f} {.63f} {.100e} {.300} {f} of 1e100 / -1e300 ..., bare and with width / alignment / pad, next to other fields). Routes: "
             "ST::format (default validation), ST::format(validation), ST::format_latin_1 and apply_format into a recording format_writer (exact sink-call sequence); one-argument "
             "calls are made both with the real C++ type and through a user-defined formatter that forwards to the library overload. Each format string is an exact-size heap "
             "block ending in its NUL (ASan). non-trivial = the format string contains a brace",
        exhaustive={"quick": False, "thorough": False},
        exhaustive_note="exhaustive over format strings up to the stated length over the critical alphabet for the sampled argument lists; arbitrary strings are covered by the theorems",
        assumptions=["floating-point renderings are supplied by the harness from libc (C13); outputs of 2^28 bytes or more (documented string size limit) and precisions "
                     ">= 2^20 are not generated"],
        trusted_base=["strtol(…, 10) is modelled (Fmt.strtol10: C-locale whitespace, sign, digits, saturation, nothing consumed without a digit) and validated against glibc by the correspondence"],
    ),
}

PROPS["C11"] = dict(
    family="fmt",
    theorems=T("C11", "translated_pad_size_is_model", "translated_numeric_layout_is_model", "translated_format_string_is_model", "format_outcome_eq_spec", "format_eq_spec", "format_string_eq_spec", "field_eq_spec", "int_eq_spec", "never_truncated_int", "never_truncated_text",
               "length_eq_max_int", "length_eq_max_text", "zero_pad_position", "zero_flag", "sequential_ignores_refs", "escape_braces",
               "literal_verbatim", "char_class_wide"),
    partial="floating-point arguments: the libc rendering is a parameter (C13) of any length, assumed non-empty (Arg.LibcRenders: snprintf reports a positive size, "
            "which glibc breaks only for precisions of about 2^31, outside the domain); wide-text arguments (const wchar_t*/char16_t*/char32_t*, std::basic_string(_view) of those) are modelled as "
            "'converted by from_utf16/from_utf32 under the default validation (C02's model), then formatted as text' for texts below the documented 2^28-unit limit "
            "(Arg.WideOk); string arguments shorter than 2^31 bytes, fewer than 2^64 arguments",
    rule="cross product alignment {none,<,>} x pad {none, _*, 0, 0 then _*, _* then 0, _0} x width {0, |r|-1, |r|, |r|+1, |r|+2, 40, 70} x '#' x '+' x class "
         "{default,d,x,X,o,b,c} x &N x 4 item orders over boundary values (0, +-1, min, min+1, max, digit-count boundaries of each radix, code-point boundaries) of all "
         "eight integer types + char, wchar_t, char8_t, char16_t, char32_t, bool (quick: a seed-dependent sixth; thorough: all); strings (const char*, ST::string, "
         "std::string, string_view; empty, ASCII, multi-byte, invalid UTF-8) and booleans x alignment x pad x width around the length x precision {none, 0, 1, |t|-1, |t|, "
         "100, '.', negative, whitespace/sign forms, wrapping numeral} x ignored flags; float/double x padding (rendering supplied by libc); seeded random strings "
         "of 1-3 fields with 1-3 arguments, sequential and &N mixed, literals with brace escapes between. Every case through one of ST::format / ST::format(validation) "
         "/ ST::format_latin_1 / a recording format_writer. non-trivial = the format string contains a brace",
    exhaustive={"quick": False, "thorough": False},
    assumptions=["readings chosen (DESIGN C11): zero-pad overrides an explicit alignment for integers; for text and booleans '0' only selects the pad character; "
                 "precision is ignored for integers; the character class applies to integer and character arguments only; floating-point arguments are 'rendered by "
                 "libc, then padded' (C13)",
                 "precisions >= 2^20 are not generated"],
    trusted_base=["strtol(…, 10) is modelled (Fmt.strtol10) and validated against glibc by the correspondence"],
)

MANIFEST_TEXT = {
    "C10": dict(
        text="Theorems (every byte list as format string, every argument list; Lean kernel): the model of fetch_prefix / next_format / parse_format / apply_format reads "
             "only indices <= |fmt| (the reader is undefined behind the terminating NUL, so a read there would be the outcome `oob`: parse_no_oob), every loop iteration "
             "including the `end - 1` re-scan after a strtol that consumed nothing strictly advances (parse_terminates: the explicit progress guards never fail), and the "
             "result is output, bad_format, out_of_range, unicode_error, invalid_argument (null format) or the documented char-padding assertion, which is raised exactly "
             "by a parsed field with class c and a width or pad character on an integer/character argument. Floating-point renderings of any length are covered (64+ bytes "
             "go through the heap buffer of the repaired code). Domain edge, named in the theorems: a result of 2^28 bytes or more hits the documented ST::string size limit, and "
             "snprintf is assumed to report a positive size (glibc fails that only for a precision of about 2^31, which could only ask for such a result). Tied to the code by every string over a 16-symbol critical alphabet up to length 4/5, grammar-directed random fields and all prefixes of valid strings, "
             "floating-point renderings of 63..300+ bytes and the most negative value of every signed type, through four routes incl. a recording format_writer (exact sink-call sequence), each format string in an exact-size heap block under ASan.",
        design_ref="DESIGN.md section 3, C10; notes/C10.md",
        note="Trusted: Lean kernel + 3 standard axioms; Fmt.strtol10 as a model of glibc strtol (validated by the correspondence); float renderings supplied by the harness "
             "from libc; machine-level loads observed by ASan, not proved.",
        technique="Lean 4 proof over a hand model (reader monad, guarded well-founded loops) + differential correspondence under ASan/UBSan with abort/hang attribution"),
    "C11": dict(
        text="Theorems (every format string without an embedded NUL, every argument list in the range of its C++ types; Lean kernel): the outcome of the model of "
             "apply_format - the bytes received by the sink, or bad_format / out_of_range / the char-padding contract - equals Spec.Render.render, an independent "
             "definition over the list of format bytes (literal text with {{ }} reduced, field grammar, left-to-right vs &N selection, sign/prefix/digits, zero padding "
             "between prefix and digits, text cut to precision, UTF-8 of a code point or U+FFFD, pad run of max(0, width - natural length) bytes). Proved through parser = "
             "grammar, scanner = literal splitter, formatter_id = selection and every format_type overload = renderField for all eight integer types (w = 8..64), "
             "five character types, bool, narrow strings (char and char8_t), wide text (UTF-16/32 pointers, strings, views), null pointers and floats (libc rendering of any length as a parameter). Corollaries: never truncated, length = max(width, "
             "natural), zero-pad position, sequential fields ignore &N, brace escapes. One genuine defect found by this check and repaired: {c} of a 64-bit integer "
             "tested the code-point range after narrowing to int. Tied to the code by the flag cross product over boundary values of every argument type, byte-exact.",
        design_ref="DESIGN.md section 3, C11; notes/C11.md",
        note="Trusted: Lean kernel + 3 standard axioms; Spec/Render.lean as the meaning of the property (readings chosen are listed in DESIGN C11); Fmt.strtol10; "
             "floating-point renderings are a parameter (C13); wide-text arguments render as the reference transcoding (C02's Spec) of their units, malformed wide text is unicode_error.",
        technique="Lean 4 proof (refinement of a pointer-walking parser and sink-event renderer to a list-level spec) + differential correspondence under ASan/UBSan"),
}
