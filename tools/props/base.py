"""Entries for C01-C03, C05, C14, C15 (moved verbatim from the first registry)."""
from registry_api import T, DEFAULT_MODE_VARIANTS

FAMILIES = {
    "codec": dict(src="codec.cpp"),
    "conv": dict(src="conv.cpp"),
    "pool": dict(src="pool.cpp", ops=["hist", "fault"]),
}

PROPS = {
    "C14": dict(
        family="codec",
        theorems=T("C14", "encode_size_is_model", "translated_encoders_are_model", "hexEncode_eq_spec", "hexEncode_length", "b64Encode_eq_spec", "b64Encode_length",
                   "hexDecodeAlloc_encode", "hexDecodeInto_encode", "b64DecodeAlloc_encode", "b64DecodeInto_encode",
                   "hexDecode_upper", "tables_inverse"),
        rule="exhaustive: every 3-byte group (2^24), 2-byte (2^16) and 1-byte (2^8) tail through encode + both decoders, as 4096-item "
             "blocks compared by digest; plus every length 0..70 with seeded random content individually, incl. upper-case hex. "
             "non-trivial = non-empty input; distinct = distinct input lines",
        exhaustive={"quick": True, "thorough": True},
        exhaustive_note="the per-group functions are enumerated completely; whole byte arrays are covered by the theorems (induction), not by enumeration",
        trusted_base=["tables hex_chars/hex_values/b64_chars/b64_values regenerated from include/st_codecs_priv.h by tools/gen_tables.py (regex translator)"],
        assumptions=["bytes are 0..255; ST::string carrying arbitrary bytes is built with assume_valid"],
    ),
    "C15": dict(
        family="codec",
        theorems=T("C15", "translated_decoders_are_model", "translated_decoders_never_overrun", "hexDecodeAlloc_accepts_iff", "hexDecodeInto_spec", "hexDecodeInto_writes_le", "hexDecode_null_query",
                   "b64DecodeAlloc_accepts_iff", "b64DecodeInto_spec", "b64DecodeInto_writes_le", "b64Decode_null_query",
                   "sizeQuery_eq_decodedLength", "decoders_never_oob"),
        rule="exhaustive: every 4-character final group over a critical alphabet (quick 20 symbols, thorough all 64 + 13 odd symbols incl. '=', NUL, "
             "0x80, 0xFF) after 0..2 valid groups and after malformed groups, output_size = need-1/need/need+1; every hex string of length 1..3 (4) over 32 "
             "symbols; seeded random mutated encodings x cap classes x null output. non-trivial = non-empty text",
        exhaustive={"quick": False, "thorough": False},
        trusted_base=["tables regenerated from include/st_codecs_priv.h by tools/gen_tables.py",
                      "writes outside the caller's buffer are observed by ASan red zones and a canary, the bound itself is the theorem *_writes_le"],
        assumptions=["reading of 'decoded length implied by the input's length and padding' for text with invalid characters: each '=' among the last two "
                     "characters counts one byte (equals the RFC length on every valid text: theorem sizeQuery_eq_decodedLength)"],
    ),
}

PROPS.update({
    "C01": dict(
        family="conv", theorems=T("C01", "kernels_are_model", "conversion_loops_are_model", "convert_std", "chain_roundtrip", "latin1_roundtrip", "string_from_std", "string_to_std"),
        rule="every Unicode scalar (1,112,064) alone and (thorough) in 25 neighbour contexts through 21 routes x 3 modes as 8192-scalar blocks compared by digest; "
             "14 boundary scalars x 25 contexts, all 256 Latin-1 bytes x 3 positions and seeded random scalar sequences (length 0..40) through every public route "
             "(free functions ptr/buffer, ST::string constructors/set/operator=/from_*/literals/std::basic_string/string_view, to_* members/std strings). "
             "non-trivial = non-empty input; distinct = distinct input lines (blocks count their scalars)",
        exhaustive={"quick": True, "thorough": True},
        exhaustive_note="exhaustive over single scalars per route/mode; sequences are covered by the theorems (list induction), not by enumeration",
        assumptions=["wchar_t is 32-bit on this platform: every wchar_t route is the UTF-32 route; the 16-bit enable_if branches are not compiled"],
    ),
    "C02": dict(
        family="conv", variants=DEFAULT_MODE_VARIANTS,
        theorems=T("C02", "kernels_are_model", "conversion_loops_are_model", "translated_repairer_is_model", "convert_eq_reference", "string_eq_reference", "check_throws_iff", "check_throws_iff_malformed", "string_check",
                   "subst_never_throws", "subst_output", "string_subst_revalidates", "string_wellformed_unchanged", "tolerated_same_decision",
                   "isolation_utf8", "subst_output_valid_utf32_partial", "subst_output_invalid_utf16_witness", "subst_output_invalid_utf32_witness"),
        partial="'substitute_invalid output always passes check_validity' is proved for ST::string/UTF-8 output unconditionally and for UTF-32 output under the "
                "hypothesis that no segment decodes above 10FFFF; its negation is proved for UTF-16/UTF-32 targets by two witnesses (recorded findings). "
                "'calls that omit the mode behave as ST_DEFAULT_VALIDATION' is a fact about overload plumbing: decided by the correspondence over three builds, not by a theorem.",
        rule="every string over a 14-symbol critical byte alphabet up to length 4 (quick) / 5 (thorough), over 8 UTF-16 and 9 UTF-32 critical units, "
             "a second byte alphabet with C0/C1/F5/FF up to length 3, valid text with a malformed unit spliced/substituted at every position, seeded random garbage; "
             "each through every route reading that encoding x {check, substitute, assume, default} x Latin-1 with/without substitution; harness rebuilt per "
             "ST_DEFAULT_VALIDATION setting. non-trivial = non-empty input",
        exhaustive={"quick": False, "thorough": False},
    ),
    "C03": dict(
        family="conv", theorems=T("C03", "decode_steps_read_inside", "decode_steps_progress", "translated_decoders_are_model", "translated_writers_are_model", "translated_measure_is_model", "translated_fill_is_model", "translated_fill_is_model_utf16", "translated_validator_is_model", "translated_repairer_is_model", "translated_two_pass_safe_utf16_utf8", "translated_two_pass_safe_utf8_utf16", "translated_two_pass_safe_utf32_utf8", "convert_total", "convert_null", "measure_eq_fill", "fill_le_measure", "size_is_reference", "flags_never_collide",
                                  "string_total", "string_to_total"),
        partial="stores of the real machine are observed by ASan/UBSan on every generated case, not proved. Loads: the decoding steps extract_utf8 / extract_utf16 "
                "are translated from the C++ on every run (tools/gen_kernels.py) into functions whose loads fault outside the source, and decode_steps_read_inside "
                "proves no load of any step reaches `end`, for every source and position; the twelve measure/convert pairs, the Latin-1 loops and "
                "validate_utf8 are translated as whole loops too and proved equal to the model (translated_measure_is_model, translated_fill_is_model, "
                "translated_validator_is_model: in particular they complete without a load outside the source), and translated_two_pass_safe_* state the "
                "two-pass bound on the translated code itself; cleanup_utf8 is translated and bridged as well (translated_repairer_is_model); the public wrappers (null/empty shortcut, allocate, raise) stay hand-modelled and "
                "carried by the correspondence run with exact-size heap inputs",
        rule="the C02 generators (arbitrary garbage in all four source encodings, every truncation point of well-formed text, null pointers with zero length), each "
             "input in an exact-size heap block under ASan+UBSan; observed: exception kind or (size(), units, NUL terminator); aborts/hangs attributed per case",
        exhaustive={"quick": False, "thorough": False},
        trusted_base=["reads outside the input and writes outside the result are observed by ASan on the real code; the model-level counterpart is measure = fill length"],
    ),
})

PROPS.update({
    "C05": dict(
        family="pool",
        theorems=T("C05", "inv_init", "inv_step", "never_faults", "others_untouched", "inv_reachable", "progress", "refines",
                   "refines_reachable", "observed_value", "exclusive", "no_leak", "reachable_finite", "no_leak_reachable",
                   "moved_from_valid"),
        rule="histories of buffer operations with a full snapshot of every live object after every step: every sequence of 2 operations (quick: char, char32_t; "
             "thorough: all four element types) and every sequence of 3 operations (thorough: char, char32_t) from a 27-entry menu (clear, copy/move assignment incl. "
             "self, allocate, allocate+fill around the limit, destroy+reconstruct by copy/move) applied to three objects in all 6x6x3 (depth 3: 6x6x2) size-class "
             "combinations, plus 4 000 / 60 000 seeded random histories of 30 operations over 3..6 objects for all four element types; ASan + LSan + exact block "
             "accounting. non-trivial = more than 3 operations",
        exhaustive={"quick": False, "thorough": False},
        # a defective tree can abort a few percent of the histories; the runner gives up (exit 2, no verdict) after 400
        # restarts per harness process, so the work is cut into more, smaller slices than the default 16
        slices={"quick": 64, "thorough": 128},
    ),
})

MANIFEST_TEXT = {
    "C05": dict(
        text="Theorems (every small-buffer limit L > 0, every pool, every history by induction, no bound on length, objects or sizes): an object/heap machine "
             "transcribes each ST::buffer<T> member statement by statement (constructors, destructor, clear, copy/move assignment incl. self-assignment, allocate, "
             "allocate+fill, stores through data()); with bad free, double free, use after free and out-of-bounds access as explicit outcomes. The invariant (short "
             "contents in the object's own array, long contents in a heap block of size+1 owned by exactly one object, NUL after the last element, every block owned: "
             "no leak) holds initially and is kept by every operation, which always completes without any of those outcomes; the machine refines a value-per-object "
             "specification (each live object reports the size and exactly the specified elements of the last value given to it, other objects are untouched, "
             "pointer included); a moved-from object satisfies the same invariant and can be read, assigned and destroyed; destroying all live objects in any "
             "order leaves an empty heap. Tied to the code by step-by-step snapshots of every live object over enumerated and random histories under ASan/LSan.",
        design_ref="DESIGN.md section 3, C04/C05",
        note="Trusted: Lean kernel + 3 standard axioms, Spec/Store.lean as the meaning of 'last value given', Model/Pool.lean as transcription of st_charbuffer.h "
             "(validated by the history harness for all four element types), ASan/LSan and the counting operator new for the implementation side. One genuine "
             "defect class (moved-from buffers aliasing the other object / lacking the NUL) was found by this check and repaired (fixed: entry in known_findings.json).",
        technique="Lean 4 proof (invariant + refinement over all histories of a pointer/heap machine) + differential correspondence of per-step snapshots under ASan/LSan"),
    "C01": dict(
        text="Theorems (all scalar sequences by induction, all three modes): each of the six UTF-8/16/32 directions, ST::string construction from any encoding and "
             "the to_* members map the standard encoding (Unicode Table 3-6 / D91 written with / and %) to the standard encoding, chains return the original units, "
             "and Latin-1 bytes round-trip through every UTF form. They follow from one refinement theorem (model = reference transcoding). The model is tied to the "
             "code by running every public route on all 1,112,064 scalars (digest blocks) and on boundary/neighbour/random sequences.",
        design_ref="DESIGN.md section 3, C01",
        note="Trusted: Lean kernel + 3 standard axioms, Spec/Unicode.lean as the meaning of 'standard encoding', the conv harness (ASan/UBSan) and its route table. "
             "wchar_t routes are the UTF-32 routes on this platform; NUL-terminated routes see text up to the first zero unit (U+0000 goes through sized routes).",
        technique="Lean 4 proof (refinement to a reference transcoder); model tied to the code twice: kernels and conversion loops translated from the C++ on every run (clang AST -> Lean) with bridge theorems generated = model, and exhaustive per-scalar differential correspondence over every route"),
    "C02": dict(
        text="Theorems (arbitrary units of the right width, every mode): convert = reference transcoding defined from an independent left-to-right segmentation "
             "(tolerated forms are sequences; stray continuation, short lead, F8-FF, unpaired surrogate, UTF-32 > 10FFFF are malformed units); check throws iff a unit is "
             "malformed or a value does not fit the target; substitute never throws and yields the transcoding with U+FFFD/'?' per malformed unit; the repaired ST::string "
             "re-validates and repair is idempotent; well-formed text is unchanged by all modes. Literal 're-validates' for UTF-16/32 targets is false by design: proved "
             "negation witnesses are recorded findings, the partial theorem excludes them. Default-mode plumbing is checked over three ST_DEFAULT_VALIDATION builds.",
        design_ref="DESIGN.md section 3, C02",
        note="Trusted as C01. Reading chosen: assume_valid on malformed input is only required to be safe (C03), not to produce a particular text.",
        technique="Lean 4 proof (refinement to a segmentation-based reference); model tied to the code twice: decoders, conversion loops, validate_utf8 and cleanup_utf8 translated from the C++ on every run with bridge theorems generated = model, and exhaustive short-string differential correspondence in three default-mode builds"),
    "C03": dict(
        text="Theorems (every input of fewer than 2^28 units in each source encoding, every mode): a conversion returns a buffer or throws unicode_error - never an "
             "assertion, out-of-bounds store, unwritten tail or other exception; the fill pass stores exactly the measured number of units and never more on the throwing "
             "path; null input gives an empty buffer; the result size equals the reference size. One genuine defect (utf8_to_utf16 assertion above U+10FFFF) was found by "
             "this check and repaired. Machine-level reads/writes are observed under ASan with exact-size heap inputs, not proved.",
        design_ref="DESIGN.md section 3, C03",
        note="Trusted as C01; the decoders are modelled over lists, so an out-of-range *read* is expressible only in the harness (ASan), which is named as the unproved part.",
        technique="Lean 4 proof of two-pass consistency and totality, also stated on the loops translated from the C++ on every run (no load outside the source, fill <= measure) + differential correspondence under ASan/UBSan with abort/hang attribution"),
    "C14": dict(
        text="Theorems (Lean kernel, all byte arrays by induction): the model of hex_encode/base64_encode equals the RFC 4648 encoding written with / and %, "
             "lengths are 2n and 4*ceil(n/3), and both decoder forms (and upper-case hex) return the original bytes. The model is tied to the code by "
             "exhaustive differential execution of every 1-, 2- and 3-byte group (2^24+2^16+2^8) and by regenerating the four constant tables from the source.",
        design_ref="DESIGN.md section 3, C14/C15",
        note="Trusted: Lean kernel, propext/Classical.choice/Quot.sound, the RFC spec definitions, the correspondence harness (ASan/UBSan build of /repo's headers), "
             "the regex table translator. Not verified: compiler, allocator.",
        technique="Lean 4 proof over a hand model; encoders translated from the C++ on every run with bridge theorems generated = model; exhaustive differential correspondence + regenerated tables"),
    "C15": dict(
        text="Theorems (all texts over 256 byte values, all output sizes): the allocating decoders return ok exactly on valid text and throw codec_error otherwise "
             "(assertion unreachable), the caller-buffer decoders return the implied length exactly when the text is valid and fits and -1 otherwise, never store "
             "more than output_size bytes, answer the null-output size query, and never read past the text. Tied to the code by exhaustive final-group sweeps and "
             "mutated encodings under ASan with exact-size output blocks.",
        design_ref="DESIGN.md section 3, C14/C15",
        note="Trusted as C14. The machine-level 'no write outside the buffer' is observed by ASan/canaries; the bound on the number of stores is the theorem.",
        technique="Lean 4 proof over a hand model; decoders translated from the C++ on every run with bridge theorems generated = model and the overrun bound stated on the translated code; differential correspondence under ASan + regenerated tables"),
}
