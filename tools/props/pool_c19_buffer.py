"""Buffer-level half of C19 (allocation failure leaves every object destructible) - DRAFT entry.

C19 as a whole (ST::string, string_stream, noexcept members) is registered by the maintainer; this
plug-in registers only the buffer-level cases, and only when ST_C19_BUFFER_ONLY=1 is set, so that
    ST_C19_BUFFER_ONLY=1 python3 tools/check.py C19 --tier quick
runs the `fault` cases of the pool family (harness/pool.cpp, --prop C19) on their own.  Without the
variable this file contributes nothing (C19 stays 'pending' in MANIFEST.json).  The dict below is what
the maintainer's entry needs for the buffer part (family, theorems, slices, rule)."""
import os
from registry_api import T

C19_BUFFER = dict(
    family="pool",
    theorems=T("C19", "fault_safe", "fault_safe_destructible", "fault_safe_usable", "fault_only_when_scheduled", "throw_only_bad_alloc",
               "fault_safe_reachable", "asFound_allocate_badFree", "asFound_allocate_doubleFree", "asFound_assignCopy_useAfterFree"),
    # a defective tree aborts ~20% of the cases of a slice; the runner gives up after 400 restarts per slice
    slices={"quick": 32, "thorough": 64},
    rule="buffer level: for two (quick) / four (thorough) element types, every target size class x every source size class (6x6), after 2 (quick) / 5 (thorough) "
         "kinds of prefix (plain, target moved-from, source moved-from, self-move-assigned, cleared), every operation of a 37-entry menu (all constructors, "
         "destructor, clear, copy/move assignment incl. self, allocate and allocate+fill to every size class) with the 1st allocation of the library call failing "
         "(= every k = 1..n: a buffer member allocates at most once) and with the 2nd failing (control: the fault never fires, the call must complete); plus seeded "
         "random histories of 1..20 operations followed by a random operation with its allocation failing. After the call: snapshot of every live object, then "
         "every object is destroyed; ASan (bad free, double free, use after free) + block accounting + LSan. non-trivial = every case",
    exhaustive={"quick": False, "thorough": False},
    partial="buffer level only (ST::buffer<T> members); ST::string / string_stream / noexcept members are added by the maintainer",
)

PROPS = {}
MANIFEST_TEXT = {}
if os.environ.get("ST_C19_BUFFER_ONLY") == "1":
    PROPS["C19"] = C19_BUFFER
    MANIFEST_TEXT["C19"] = dict(text="(draft, buffer level only) allocation failure inside ST::buffer<T> members", design_ref="DESIGN.md section 3, C19",
                                note="draft", technique="Lean 4 proof over fault schedules + fault-injection correspondence under ASan/LSan")
