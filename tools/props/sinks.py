"""Entry for C17 (output sinks, stream insertion / extraction; harness family "sinks")."""
from registry_api import T, DEFAULT_MODE_VARIANTS

FAMILIES = {
    "sinks": dict(src="sinks.cpp"),
}

PROPS = {
    "C17": dict(
        family="sinks", variants=DEFAULT_MODE_VARIANTS,
        theorems=T("C17", "narrow_sinks_equal", "format_bytes_eq_narrow", "printf_eq_writef", "latin1_sink_eq", "transcode_append",
                   "wide_sink_eq_partial", "writef_wide_eq_partial", "chunkSafe_of_ascii_pad_and_valid_args", "argSafe_str_iff_natural",
                   "writef_wide_eq_of_valid_inputs", "wide_pad_witness", "wide_cut_witness", "wide_cut_witness_subst",
                   "insert_eq", "insert_std", "extract_eq"),
        rule="placeholder",
        exhaustive={"quick": False, "thorough": False},
    ),
}

MANIFEST_TEXT = {
    "C17": dict(text="placeholder", design_ref="DESIGN.md section 3, C17; notes/C17.md", note="placeholder", technique="placeholder"),
}
