"""Entry for C17 (output sinks, stream insertion / extraction; harness family "sinks")."""
from registry_api import T, DEFAULT_MODE_VARIANTS

FAMILIES = {
    # -g0: no debug information (reports are not symbolised anyway); the harness instantiates seven sinks per call shape
    # and the char16_t / char32_t stream classes, debug info alone doubles its compile time
    "sinks": dict(src="sinks.cpp", flags=["-fsanitize=address,undefined", "-fno-sanitize-recover=all", "-g0"]),
}

PROPS = {
    "C17": dict(
        family="sinks", variants=DEFAULT_MODE_VARIANTS,
        theorems=T("C17", "narrow_sinks_equal", "format_bytes_eq_narrow", "printf_eq_writef", "latin1_sink_eq", "transcode_append",
                   "wide_sink_eq_partial", "writef_wide_eq_partial", "chunkSafe_of_ascii_pad_and_valid_args", "argSafe_str_iff_natural",
                   "writef_wide_eq_of_valid_inputs", "wide_pad_witness", "wide_cut_witness", "wide_cut_witness_subst",
                   "insert_eq", "insert_std", "extract_eq"),
        partial="wide streams (wchar_t / char16_t / char32_t): 'writes the UTF-16/32 transcoding of ST::format's bytes' is proved under chunkSafe (every chunk passed to "
                "append() is a whole number of UTF-8 sequences, every byte written through append_char is ASCII), which chunkSafe_of_ascii_pad_and_valid_args derives from "
                "'format string well-formed UTF-8, pad characters ASCII, precision never cuts a string argument inside a character'. Outside it the statement is false of "
                "the code: wide_pad_witness and wide_cut_witness are proved negations and recorded findings (the stream writer transcodes per call; a repair needs buffering). "
                "stdio, iostreams and string_stream (C16) are parameters: a FILE* / stream buffer is an append-only list of units, basic_string insertion and extraction "
                "are modelled ([string.io]) and validated against libstdc++ by the correspondence, not proved. For calls the formatter itself rejects the sinks are only "
                "required to fail alike (a wide sink may meet an untranscodable chunk first).",
        rule="format calls through seven sinks each (ST::format, ST::printf into open_memstream, ST::writef into std::ostringstream, ST::format_latin_1, ST::writef into "
             "wchar_t / char16_t / char32_t streams - a collecting streambuf and, where no unit is eof-like, std::basic_ostringstream<T> as well): pad amounts 0..70 "
             "(thorough 0..300), every multiple of 16 up to 512 (2048, with neighbours), 255..257, 511..513, 1023..1025, 2047..2049, 4095..4097, 8191..8193, 16384, multiples of "
             "256 up to 8192, 65536, 70001 (131072) x 12 field forms (left/right/numeric zero padding, prefix, sign, text, bool, float, char); a seeded sample of C11's "
             "cross product alignment x pad x width x '#' x '+' x class over boundary values of all integer/character types and over 16 texts (ASCII, multi-byte, "
             "invalid UTF-8, embedded NUL) x 4 string types x precision; seeded random strings of 1-3 fields with 1-3 arguments and multi-byte literals that fields cut; "
             "grammar-directed random strings (rejected calls); the recorded classes (non-ASCII pad bytes, {c} of char8_t >= 0x80, precision / literal / argument "
             "boundaries inside a character). One-argument calls are made with the real C++ type and through a user-defined formatter. Insertion: 13 fixed + seeded "
             "random scalar sequences + 8 non-UTF-8 contents x 4 stream types x width {0, 1, n-1, n, n+1, n+5, n+16, 40, 300} x fill x left/right/internal (char16_t / "
             "char32_t streams: widths up to n only - libstdc++ has no ctype facet to widen the fill). Extraction: fixed and seeded random token streams over whitespace, "
             "multi-byte, invalid UTF-8 / out-of-range units, NUL, from std::istringstream and std::wistringstream, until the extraction fails. Harness rebuilt per "
             "ST_DEFAULT_VALIDATION setting. non-trivial = format string with a field / non-empty string or input",
        exhaustive={"quick": False, "thorough": False},
        assumptions=["'accepted by ST::format' is read per default validation: the narrow-sink equality is judged as 'ST::format returns the bytes of the FILE* / ostream sinks "
                     "passed through the default validation' (byte-identical whenever it returns under check_validity), the wide clause only where ST::format returns",
                     "stream insertion 'writes exactly its contents' is read as: what a std::basic_string<T> insertion of the transcoded contents writes (it honours width(), "
                     "fill() and the adjustment, like the library's operator<< which delegates to it)",
                     "units equal to the stream's eof() (wchar_t(-1) / char32_t(-1): a pad byte 0xFF widened, or the input unit 0xFFFFFFFF) make libstdc++ itself set badbit / "
                     "stop; the driver expects exactly that for the pad byte and the extraction generators avoid the unit",
                     "the pad character 0xFF and Unicode white space above U+007F are not generated for wistringstream extraction (\"C\" locale classification is the "
                     "standard library's)"],
        trusted_base=["libc stdio (open_memstream, fwrite, fputc) and libstdc++ iostreams are parameters of the model; basic_string insertion/extraction are modelled from "
                      "[string.io] and validated by the correspondence",
                      "floating-point renderings are supplied by the harness from libc (C13); string_stream is modelled as an append-only byte list (C16)"],
    ),
}

MANIFEST_TEXT = {
    "C17": dict(
        text="Theorems (every list of sink events, i.e. every format call; Lean kernel): the FILE* sink (fwrite / n x fputc), the narrow ostream sink (write / n x put) "
             "and the string sink collect exactly the bytes of the call, and ST::format returns those bytes passed through the validation - byte-identical whenever it "
             "returns under check_validity or assume_valid; printf and writef of a whole call are equal as outcomes; format_latin_1 returns the standard UTF-8 of those "
             "bytes read as Latin-1. Wide streams: the reference transcoding distributes over concatenation behind a whole number of UTF-8 sequences (transcode_append), "
             "so a stream that transcodes per append() call receives the reference UTF-16/32 transcoding of the whole output provided every chunk is whole sequences and "
             "every append_char byte is ASCII (wide_sink_eq_partial) - a hypothesis derived, over the model of scanner, field parser and every format_type overload, from "
             "'format string well-formed, pad characters ASCII, no precision cut inside a character' (chunkSafe_of_ascii_pad_and_valid_args). The hypothesis is forced: two "
             "proved witnesses (non-ASCII pad byte widened with sign extension: FFFFFFC3 FFFFFFA9 instead of U+00E9; chunk boundary inside a character: unicode_error "
             "where ST::format returns U+00E9) are recorded findings, replayed on the real code on every run. operator<< hands the stream the reference transcoding of "
             "the contents laid out as a basic_string insertion; operator>> stores the reference string for the token a basic_string extraction takes (unchanged, "
             "repaired or unicode_error per default validation). Tied to the code by replaying format cases through seven real sinks (pad amounts across every block "
             "size), insertions into four stream types under setw/fill/adjustment and extractions from narrow and wide streams, in three default-validation builds.",
        design_ref="DESIGN.md section 3, C17; notes/C17.md",
        note="Partial: wide-sink equality under chunkSafe only (two known findings, not repaired: needs buffering in the stream writer). Trusted: Lean kernel + 3 standard "
             "axioms; stdio / iostreams / string_stream as append-only buffers; the [string.io] model of basic_string insertion and extraction (validated against "
             "libstdc++ by the correspondence); Fmt.run as the event list of a call (C10/C11).",
        technique="Lean 4 proof (event-interpreter equalities, segmentation over concatenation, scanner/parser invariants) + differential correspondence through the real "
                  "sinks under ASan/UBSan in three ST_DEFAULT_VALIDATION builds"),
}
