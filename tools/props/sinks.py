"""Entry for C17 (output sinks, stream insertion / extraction; harness family "sinks")."""
from registry_api import T, DEFAULT_MODE_VARIANTS

FAMILIES = {
    "sinks": dict(src="sinks.cpp"),
}

PROPS = {
    "C17": dict(
        family="sinks", variants=DEFAULT_MODE_VARIANTS,
        theorems=[],
        rule="placeholder",
        exhaustive={"quick": False, "thorough": False},
    ),
}

MANIFEST_TEXT = {
    "C17": dict(text="placeholder", design_ref="DESIGN.md section 3, C17; notes/C17.md", note="placeholder", technique="placeholder"),
}
