"""Entries for C12 (integer <-> text) and C13 (floating-point text): families num and flt."""
from registry_api import T

FAMILIES = {
    "num": dict(src="num.cpp"),
    "flt": dict(src="flt.cpp"),
}

PROPS = {
    "C12": dict(
        family="num",
        theorems=T("C12", "translated_digit_generator_is_model", "from_uint_canonical", "from_int_canonical", "canonical_meaning", "buffer_fits", "format_canonical", "stream_canonical",
                   "printers_agree", "no_ub", "roundtrip", "flags_meaning", "consumed_within", "strtol_eq_parseSpec", "parse_meaning", "narrowing", "pinned_format_ub_witness", "pinned_stream_ub_witness"),
        rule="exhaustive: all 65,536 short and unsigned short values x 35 bases x both letter cases through from_int/from_uint -> to_short/to_ushort, and through "
             "ST::format (bases 10, 16 both cases, 8, 2) and string_stream (base 10), as 4096-value digest blocks; 8/32/64-bit types: 0, +-1, min, max, b^k, b^k+-1 for every "
             "base and k through every printer and every to_* member of sufficient width individually, 1 M (thorough 20 M) pseudo-random values in digest blocks; parsing: every "
             "string of length <= 4 (thorough 5) over a 15-symbol critical alphabet x bases {0,2,8,10,16,36}, a second 21-symbol alphabet up to length 3 x 7 bases, near-overflow "
             "numerals of every base with sign/prefix/white-space/trailing-text variations, seeded random decorated numerals, each through all 20 to_* overloads and libc's "
             "strtol/strtoul/strtoll/strtoull on the same text. non-trivial = non-zero value / non-empty text",
        exhaustive={"quick": True, "thorough": True},
        exhaustive_note="exhaustive over the 16-bit types for every base and case; wider types are covered by the theorems (all values, all widths), the correspondence samples them",
        trusted_base=["glibc strtol/strtoul are modelled (transcription of stdlib/strtol_l.c, proved equal to the declarative numeral prefix Spec.Digits.parseSpec) and validated "
                      "against this platform's libc on every run through the to_* members and directly; that libc behaves as the transcription is not proved",
                      "UBSan (-fsanitize=undefined, no recovery) observes signed negation overflow in the real code"],
        assumptions=["LP64: long and long long are 64-bit, int 32-bit, short 16-bit; bases outside 2..36 (0 also for parsing) are outside the documented contract and not generated"],
    ),
    "C13": dict(
        family="flt",
        theorems=T("C13", "fmt_assembled", "fmt_fits", "renderText_eq", "format_eq_padded_render", "format_float_eq", "from_double_eq_render", "from_float_eq",
                   "stream_eq_render", "stream_float_eq", "no_abort", "to_double_flags", "pinned_format_abort_witness", "pinned_from_double_abort_witness",
                   "pinned_format_eq_padded_render_partial"),
        rule="directed values (+-0, +-inf, NaN with payload/sign variants, subnormal min/max, normal min/max, powers of ten 1e-320..1e308 (float 1e-45..1e38), "
             "nextafter neighbours, the suite's six values) for double and float x {g,f,e,E} x precision {none,0,1,6,17,40,61,62,100} x sign x width {0,10,80} x "
             "alignment {default,<,>} x pad, through ST::format (text route) and ST::format_type with a filled-in format_spec (direct route, incl. negative precision/width "
             "and arbitrary pad bytes), every value through from_float/from_double with all six letters, the default argument and invalid letters, and string_stream <<; "
             "200 k (thorough 5 M) random bit patterns with a random field each; parsing: every string of length <= 4 (thorough 5, sampled) over an 18-symbol alphabet, "
             "special numerals, and the %.17g / %a renderings of the directed values through to_double/to_float with and without result vs strtod/strtof called by the harness. "
             "Each case carries the format string the library really passed to snprintf (recorded by a wrapper macro in the harness), the harness's reference format, and "
             "libc's rendering of it. non-trivial = every case except the empty string",
        exhaustive={"quick": False, "thorough": False},
        partial="libc's rendering (snprintf) and parsing (strtod/strtof) are uninterpreted parameters of the model: what is proved is the library's own glue "
                "(format assembly, buffers, padding, promotion, letter check, flags); that libc renders a conversion correctly is outside the property",
        trusted_base=["snprintf/strtod/strtof of this platform's libc as the meaning of 'the C library rendering'; the recording wrapper (a macro in harness/flt.cpp, no source hook)",
                      "the float -> double promotion is checked against the Lean runtime's Float32.toFloat on every float case"],
        assumptions=["'C' locale (setlocale in the harness); precision above 1000 is not generated (libc needs the memory for the rendering)"],
    ),
}

MANIFEST_TEXT = {
    "C12": dict(
        text="Theorems (Lean kernel; every value of every built-in integer type incl. the most negative, every base 2..36, both letter cases): from_int/from_uint return "
             "the canonical digit string (Spec.Digits.Canonical: digits below the base, positional value, no leading zero - shown unique), ST::format and string_stream "
             "return the same text for bases 10/16/8/2, no printer has undefined behaviour or leaves the digits+1 buffer (base 2 of the widest value is the tight case), "
             "and parsing the text with any to_* member of the same signedness and at least the same width returns the value with ok and full_match. For arbitrary text "
             "the to_* members return the clamped, narrowed value of the declarative numeral prefix (white space, sign, optional 0x, longest digit run) with ok = prefix "
             "non-empty and full_match = prefix is the whole string: proved for a transcription of glibc's strtol algorithm, which is validated (not proved) against this "
             "platform's libc on every run. The std::abs "
             "undefined behaviour at INT_MIN/LONG_MIN/LLONG_MIN in ST::format and string_stream was found by this check (UBSan + failing no_ub) and repaired.",
        design_ref="DESIGN.md section 3, C12",
        note="Trusted: Lean kernel + 3 standard axioms, Spec/Digits.lean as the meaning of 'canonical digit string' and 'numeral prefix', the num harness (ASan/UBSan), "
             "the strtol transcription (validated against libc through all 20 to_* overloads and directly on every parsing case). LP64 platform.",
        technique="Lean 4 proof over a hand model + exhaustive 16-bit x 35 bases x 2 cases differential correspondence, directed/random wider values, exhaustive short-string parsing vs libc"),
    "C13": dict(
        text="Theorems (Lean kernel; libc's rendering and parsing are parameters): for every format_spec with an int precision the library passes exactly the corresponding "
             "printf conversion (% [+] [.precision] g/f/e/E), assembled within its 32-byte buffer (at most 15 bytes needed); the output is libc's rendering of it padded to the "
             "field width (right-aligned unless '<'), never truncated however long the rendering is; float arguments are promoted exactly; from_float/from_double/string_stream "
             "give the %g (or requested) rendering and bad_format for letters outside efgEFG; to_float/to_double carry strtof/strtod's value with ok = consumed > 0 and "
             "full_match = consumed = size; no value or precision aborts. The 64-byte-buffer abort ('Format buffer too small': {f} of 1e100, from_double(1e100,'f'), {.62f}, "
             "{.58e}) was found by this check and repaired (heap buffer of the reported size). Each run observes the format string really passed to snprintf.",
        design_ref="DESIGN.md section 3, C13",
        note="Partial by construction: that libc's snprintf/strtod themselves are correct is outside the property and the model (they are uninterpreted parameters; the "
             "harness supplies libc's actual answers). Trusted: Lean kernel + 3 axioms, Spec/FloatText.lean, the flt harness incl. its snprintf recording macro, 'C' locale.",
        technique="Lean 4 proof of the glue around an opaque libc + differential correspondence with recorded printf formats under ASan/UBSan"),
}
