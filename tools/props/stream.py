"""Entry for C16 (string_stream histories; the same harness also generates `ssfault` cases under --prop C19)."""
from registry_api import T

FAMILIES = {
    "stream": dict(src="stream.cpp", ops=["sshist", "ssfault"]),
}

PROPS = {
    "C16": dict(
        family="stream",
        theorems=T("C16", "inv_init", "inv_step", "inv_reachable", "stream_refines", "no_fault", "no_double_free", "no_leak",
                   "expand_terminates", "expand_never_stuck", "to_string_eq", "to_string_reference", "text_rendering_std",
                   "moved_from_is_empty_stream", "moved_from_is_empty_stream_assign",
                   "append_fault_safe", "append_char_fault_safe", "step_fault_safe", "int_insertion_appends_canonical", "pinned_signed_number_partial_append", "repaired_signed_number_unchanged",
                   "pinned_moved_from_append_stuck", "pinned_move_assigned_from_append_stuck", "pinned_moved_from_keeps_size",
                   "pinned_moved_from_aliases", "repaired_same_histories"),
        rule="histories over a pool of 3 string_streams in raw storage, snapshot (size(), bytes or FNV digest of raw_buffer()[0,size()), "
             "storage location S/H<n>/A<id>) of every live stream after every step, to_string() results, exact operator-new accounting + LSan at the end: "
             "(degenerate) null pointers, zero sizes/counts, truncate()/erase(0) in both storage modes; (land) cumulative sizes 255,256,257,511,512,513,1023,1024,1025 reached by 1..4 appends of every form (append(ptr,n), append(cstr), append_char) "
             "x 6 kinds of follow-up; (big) single appends of 300/1000/5000/70000 onto sizes 0,1,255,256,257,600; (shl) every operator<< overload "
             "(17 text overloads x 8 payload classes incl. null pointers, malformed wide text that must throw, interior NUL, 300 scalars; 8 numeric "
             "overloads with the C library's rendering as expectation; all char values) x 4 storage states; (truncate/erase) 11 sizes x 10 targets x 3 "
             "follow-ups; (move) 6 source sizes x 6 target states (move construction or assignment) x 12 follow-ups appending to / assigning / destroying "
             "either side; (menu) every sequence of 2 (quick) / 3 (thorough) entries of a 26-entry menu over three live streams in 5x3x2 size-class "
             "combinations; (random) seeded histories of 30 operations. non-trivial = more than 3 operations",
        exhaustive={"quick": False, "thorough": False},
        partial="numeric operator<< overloads: the digits are a parameter of the machine model; for the integer overloads int_insertion_appends_canonical ties the "
                "parameter to C12's proof that the stream's formatter yields the canonical decimal text, for float/double the rendering is libc's (C13). "
                "the most negative values of int/long/long long are generated (defect #12 is repaired). size_t wrap-around of m_size + added_size "
                "(streams of 2^63 bytes) is outside the model.",
        assumptions=["self-move-assignment of a stream is outside the property and is not generated",
                     "wide text handed to operator<< has fewer than 2^28 units (the conversion's documented limit, C03)",
                     "ST_DEFAULT_VALIDATION is check_validity (asserted by the harness at start-up)"],
        trusted_base=["the integer / floating-point renderings printed by the harness (snprintf of the C library) are taken as given",
                      "wide operator<< overloads are tied to Model/Utf.lean's conversions, whose theorems are C01-C03's"],
    ),
}

MANIFEST_TEXT = {
    "C16": dict(
        text="Theorems (all admissible histories, by induction on the history; invariant-based): Model/Stream.lean is a machine with stream objects "
             "(m_chars, m_alloc, m_size, m_stack[256]) and heap blocks in which every member of ST::string_stream is transcribed statement by statement "
             "(new before delete[] in expand_buffer, doubling loop on fuel with a `stuck` outcome). Inv = each live stream is in in-object mode (alloc = 256, "
             "chars = own array) or heap mode (alloc > 256, sole owner of a block of alloc bytes), size <= alloc, every block has exactly one owner. "
             "Proved: Inv is preserved by every operation and no operation faults (bad/double free, use after free, out of bounds) or hangs; after any "
             "history raw_buffer()[0,size()) of every live stream equals the byte-string spec (append = ++, append_char = replicate, operator<< = append of "
             "the rendering - wide text via the C01/C02 reference transcoding -, truncate = take, erase = drop from the end, move = transfer + source empty), "
             "across the in-object->heap switch and every doubling; destroying all streams leaves an empty heap; to_string = from_utf8/from_latin_1 of those "
             "bytes = the Unicode reference; the doubling loop terminates with the least alloc*2^k; a moved-from stream is in the default-constructed state "
             "and can be appended to, assigned to, destroyed. Defect found by the check and repaired: the moved-from stream kept size 5 / capacity 0 and "
             "append never returned (proved as pinned_* witnesses on the unrepaired revision). Fault level: every operation that throws (bad_alloc, unicode_error) leaves every stream showing its previous bytes.",
        design_ref="DESIGN.md section 3, C16",
        note="Trusted: Lean kernel + 3 standard axioms, Spec/ByteLog.lean as the meaning of 'plain byte-string model', the stream harness (ASan/UBSan/LSan, "
             "exact operator-new accounting), numeric renderings taken from the C library. Not modelled: size_t overflow, aliasing append of a stream's own buffer.",
        technique="Lean 4 proof (invariant + refinement to a byte-log spec over an object/heap machine) + differential correspondence of whole histories with per-step snapshots"),
}
