"""Entry for C16 (string_stream histories; the same harness also generates `ssfault` cases under --prop C19)."""
from registry_api import T

FAMILIES = {
    "stream": dict(src="stream.cpp"),
}

PROPS = {
    "C16": dict(
        family="stream",
        theorems=[],
        rule="(under construction)",
        exhaustive={"quick": False, "thorough": False},
    ),
}

MANIFEST_TEXT = {
    "C16": dict(text="(under construction) object/heap machine for ST::string_stream; histories compared with the implementation step by step",
                design_ref="DESIGN.md section 3, C16", note="see evidence",
                technique="Lean 4 proof over a hand model + differential correspondence under ASan/LSan"),
}
