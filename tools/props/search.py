"""Entries for C07 (searching) and C06 (comparison)."""
from registry_api import T

FAMILIES = {
    "search": dict(src="search.cpp"),
}

PROPS = {
    "C07": dict(
        family="search",
        theorems=T("C07", "find_eq_spec", "find_eq_findRef", "find_last_eq_spec", "find_last_eq_findLastRef", "find_all_eq_spec",
                   "find_last_all_eq_spec", "find_last_limit_beyond_end", "contains_iff", "starts_with_iff", "ends_with_iff",
                   "affix_empty_trivial", "ci_eq_cs_on_fold", "fold_only_ascii_upper", "needle_forms_agree",
                   "needle_forms_agree_instances", "affix_forms_agree"),
        rule="exhaustive: every haystack over {a, A, b, NUL, E9} up to length 5 (quick) / 6 (thorough) x every needle up to length 2 (thorough also "
             "length 3 on haystacks up to 4) x every start/limit in 0..len+2, SIZE_MAX and the position-less overload x 2 case modes x every needle "
             "overload (char, const char*, const char8_t*, (ptr,len), (char8_t ptr,len), ST::string, null pointers) through find, find_last, contains, "
             "starts_with, ends_with, one digest block per haystack; the same over {Z z [ { @ `} and {A a 1A 3A C1 E1} (edges of the folded range); "
             "seeded random long cases (planted, case-flipped, damaged, end-straddling, whole-haystack, longer-than-haystack, self-overlapping needles; "
             "positions around the occurrence, around the end, SIZE_MAX, 2^63, 2^32). non-trivial = non-empty haystack and needle",
        exhaustive={"quick": False, "thorough": False},
        assumptions=["bytes are 0..255; ST::string carrying arbitrary bytes is built with assume_valid",
                     "const char* overloads receive a NUL-terminated copy of the needle: they see the bytes before its first NUL (the model computes strlen the same way)"],
    ),
}

MANIFEST_TEXT = {
    "C07": dict(text="(under construction) find / find_last / contains / starts_with / ends_with against least / greatest occurrence",
                design_ref="DESIGN.md section 3, C07", note="see evidence",
                technique="Lean 4 proof over a hand model + exhaustive short-string differential correspondence under ASan/UBSan"),
}
