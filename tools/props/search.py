"""Entries for C07 (searching) and C06 (comparison)."""
from registry_api import T

FAMILIES = {
    "search": dict(src="search.cpp"),
    "compare": dict(src="compare.cpp"),
}

PROPS = {
    "C07": dict(
        family="search",
        theorems=T("C07", "case_fold_is_model", "translated_compare_ci_is_model", "translated_find_ci_is_model", "find_eq_spec", "find_eq_findRef", "find_last_eq_spec", "find_last_eq_findLastRef", "find_all_eq_spec",
                   "find_last_all_eq_spec", "find_last_limit_beyond_end", "contains_iff", "starts_with_iff", "ends_with_iff",
                   "affix_empty_trivial", "ci_eq_cs_on_fold", "fold_only_ascii_upper", "needle_forms_agree",
                   "needle_forms_agree_instances", "affix_forms_agree"),
        rule="exhaustive: every haystack over {a, A, b, NUL, E9} up to length 5 (quick) / 6 (thorough) x every needle up to length 2 (thorough also "
             "length 3 on haystacks up to 4) x every start/limit in 0..len+2, SIZE_MAX and the position-less overload x 2 case modes x every needle "
             "overload (char, const char*, const char8_t*, (ptr,len), (char8_t ptr,len), ST::string, null pointers) through find, find_last, contains, "
             "starts_with, ends_with, one digest block per haystack; the same over {Z z [ { @ `} and {A a 1A 3A C1 E1} (edges of the folded range); "
             "seeded random long cases (planted, case-flipped, damaged, end-straddling, whole-haystack, longer-than-haystack, self-overlapping needles; "
             "positions around the occurrence, around the end, SIZE_MAX, 2^63, 2^32). non-trivial = non-empty haystack and needle",
        exhaustive={"quick": False, "thorough": False},
        assumptions=["bytes are 0..255; ST::string carrying arbitrary bytes is built with assume_valid",
                     "const char* overloads receive a NUL-terminated copy of the needle: they see the bytes before its first NUL (the model computes strlen the same way)"],
    ),
}

PROPS["C06"] = dict(
    family="compare",
    theorems=T("C06", "case_fold_is_model", "translated_compare_ci_is_model", "sign_compare_eq_lex", "sign_compare_eq_lex_wchar", "wchar_high_units_signed_witness", "string_compare_eq_lex",
               "lex_is_textbook", "antisymm", "antisymm_buffer", "trans", "trans_buffer", "zero_iff_eq", "zero_iff_eq_buffer",
               "ci_zero_iff_fold_eq", "ci_preorder", "ops_agree", "operators_meaning", "compare_n_eq_take", "hash_congr", "hash_i_congr",
               "case_map_only_ascii", "reads_only_common_prefix", "huge_length_difference", "narrowed_difference_was_wrong",
               "narrowed_difference_ok_when_small"),
    rule="exhaustive: all ordered pairs of byte strings over {00,41,61,5A,7A,7F,80,FF} up to length 3 and (thorough) over {00,41,61,80,FF} up to "
         "length 4 x prefix limits n in {none,0..5,SIZE_MAX} through every ST::string overload (compare / compare_n / compare_i / compare_ni with "
         "string, const char*, const char8_t*, null; ==, !=, <, less_i, equal_i, hash/hash_i equality), the same over the fold edges {@ A Z [ ` a z {}; all triples "
         "up to length 2; buffers of char/char16_t/char32_t/wchar_t over critical units incl. 7FFF/8000/FFFF and 7FFFFFFF/80000000/FFFFFFFF; length-only cases "
         "{0,1,2^31-1,2^31,2^31+1,2^32,2^32+1,2^63,SIZE_MAX-1,SIZE_MAX}^2 x n through the static (ptr,len) compare of all four element types (made only when at "
         "most one unit is compared); a real ST::string of 2^31 (thorough: 2^32) bytes against the empty string; seeded random long operands with a common prefix. "
         "non-trivial = both operands non-empty",
    exhaustive={"quick": False, "thorough": False},
    assumptions=["bytes are 0..255; ST::string carrying arbitrary bytes is built with assume_valid",
                 "const char* / const char_T* overloads receive a NUL-terminated copy: they see the units before the first zero unit",
                 "char_traits<wchar_t>::compare is wmemcmp, which orders by the signed 32-bit value on this platform: 'unsigned' order is claimed for wchar_t "
                 "buffers whose units are below 2^31 (every code point); for larger units the judge accepts the platform order"],
)

MANIFEST_TEXT = {
    "C06": dict(
        text="Theorems (Lean kernel, arbitrary lists so every length and every length difference, all byte values): case-sensitive compare of strings and of "
             "char/char16_t/char32_t buffers equals lexicographic three-way comparison by unsigned unit value, a proper prefix first (wchar_t: below 2^31; above, the "
             "platform's wmemcmp is signed - stated as a witness); antisymmetry and transitivity for both case modes; zero iff equal resp. equal after folding A-Z; "
             "==, !=, <, compare_n (= compare of the first n units, every n), const char* / null / buffer / ST::string overloads, compare_i, less_i, equal_i agree; "
             "equal (fold-equal) strings have equal hash (hash_i); to_upper/to_lower change only ASCII letters, by 32. The size-difference narrowing of the pinned "
             "tree (compare(\"\",0,p,2^32) == 0) was found by this check, repaired, and the theorem is unconditional on the repaired code.",
        design_ref="DESIGN.md section 3, C06",
        note="Trusted: Lean kernel + 3 standard axioms, Spec/Compare.lean (LexLt / lexSign) as the meaning of 'lexicographic order', memcmp/wmemcmp/char_traits as "
             "modelled, the compare harness (ASan/UBSan). Only the sign of compare is observed. Length differences >= 2^31 are exercised through the static "
             "(ptr,len) form with one readable unit per side and through a real 2 GiB (thorough: 4 GiB) unwritten string against the empty string.",
        technique="Lean 4 proof (refinement of the compare model to a lexicographic Spec) + exhaustive short-operand differential correspondence over every overload"),
    "C07": dict(
        text="Theorems (Lean kernel, arbitrary haystacks/needles over all unit values incl. NUL, every start/limit in Nat so SIZE_MAX included, both case modes): "
             "find returns the least index >= start where the needle's text occurs and -1 exactly when there is none, the text is empty/null or start >= size; "
             "find_last the greatest occurrence lying entirely before the limit; contains <-> find succeeds <-> an occurrence exists; starts_with/ends_with <-> "
             "prefix/suffix (trivially for empty text); case-insensitive search = case-sensitive search on ASCII-folded operands; char, const char* (bytes before "
             "the first NUL), (ptr,len) and ST::string needles give the same answer. The model (first-unit scan + compare loops, the end cut-off, repeated forward "
             "search in find_last, every guard) is tied to the code by exhaustive short-string execution of every overload.",
        design_ref="DESIGN.md section 3, C07",
        note="Trusted: Lean kernel + 3 standard axioms, Spec/Search.lean (occursAt / IsFind / IsFindLast) as the meaning of 'first/last occurrence', "
             "memchr/strlen/memcmp as modelled, the search harness (ASan/UBSan, needles in exact-size heap blocks). const char* overloads see the text before the first NUL.",
        technique="Lean 4 proof (loop invariants for the scanning loops) + exhaustive short-string differential correspondence over every overload"),
}
