"""C04 (value semantics of ST::string), C18 (failed operations), string-level C19: family `strpool`."""
from registry_api import T

FAMILIES = {"strpool": dict(src="strpool.cpp")}

PROPS = {
    "C04": dict(
        family="strpool", theorems=[],
        rule="histories of ST::string operations over a pool of 8 strings + 1 char_buffer in raw storage with a full snapshot (size, bytes, terminator, storage class, "
             "data-pointer stability) of every live object after every step: every const/query/vector operation (about 90 overloads) on sources of every size class "
             "(0, 1, limit-1, limit, limit+1, 3*limit) incl. result-equals-source and self-referential calls, each followed by mutation/destruction of source and result in "
             "both orders; seeded random histories of 30 operations. non-trivial = more than 3 operations",
        exhaustive={"quick": False, "thorough": False},
    ),
    "C18": dict(
        family="strpool", theorems=[],
        rule="every throwing entry point (set / constructors / operator= from malformed UTF-8, UTF-16, UTF-32 under check_validity; set(char_buffer&&) and set(const "
             "char_buffer&) with a pool buffer as lvalue and rvalue argument; += of malformed text and of code points above U+10FFFF (surrogate values must not throw); "
             "operator+ with them; to_latin_1 without substitution; hex/base64 decode of bad text; ST::format with bad format strings and missing arguments) x target size "
             "class x argument size class (0, 1, limit-1, limit, limit+1, 3*limit), each followed by further use of target and argument; seeded random histories of 30 "
             "operations with throwing operations injected; after every step the full pool snapshot is compared with the pre-operation snapshot. non-trivial = more than 3 operations",
        exhaustive={"quick": False, "thorough": False},
    ),
}

MANIFEST_TEXT = {
    "C18": dict(text="(under construction) failed operations on the string-level object machine; snapshots before/after every throwing call",
                design_ref="DESIGN.md section 3, C18", note="see evidence",
                technique="Lean 4 proof over a hand model (strong exception guarantee of each throwing do-block) + differential correspondence under ASan/LSan"),
    "C04": dict(text="(under construction) string-level object machine on top of the buffer machine; histories compared step by step",
                design_ref="DESIGN.md section 3, C04/C05", note="see evidence",
                technique="Lean 4 proof over a hand model (frame + freshness theorems on the buffer machine) + differential correspondence under ASan/LSan"),
}
