"""C04 (value semantics of ST::string), C18 (failed operations), string-level C19: family `strpool`."""
from registry_api import T

FAMILIES = {"strpool": dict(src="strpool.cpp", ops=["shist", "sfault"])}

PROPS = {
    "C04": dict(
        family="strpool", theorems=T("C04", "const_frame", "results_fresh", "independent", "value_changes_only_by_mutator", "never_faults",
                                     "temporaries_gone", "progress"),
        partial="what a const operation computes is a parameter of this model (it is the subject of C06-C14); the theorems are about where results live and "
                "what else is touched. The value-parametric operations (K/V/Q lines) are tied to the code by the snapshot judge, the modelled ones (construction, "
                "copy, move, assignment, set, +=, clear) by exact model correspondence",
        rule="histories of ST::string operations over a pool of 8 strings + 1 char_buffer in raw storage with a full snapshot (size, bytes, terminator, storage class, "
             "data-pointer stability) of every live object after every step: every const/query/vector operation (about 90 overloads) on sources of every size class "
             "(0, 1, limit-1, limit, limit+1, 3*limit) incl. result-equals-source and self-referential calls, each followed by mutation/destruction of source and result in "
             "both orders; seeded random histories of 30 operations. non-trivial = more than 3 operations",
        exhaustive={"quick": False, "thorough": False},
    ),
    "C18": dict(
        family="strpool", families=["strpool", "stream"], slices_by_family={"stream": {"quick": 8, "thorough": 16}},
        theorems=T("C18", "strong_guarantee", "nothing_leaked", "usable_after", "setText_throws_iff", "appendChar_throws_iff", "stream_insertion_strong_guarantee"),
        partial="exceptions raised while a value is being computed by operations modelled elsewhere (hex/base64 decode, format, Latin-1 conversion) enter this model "
                "as 'throws before any result object exists'; that this is where they are raised is checked by the correspondence (snapshots before/after), not proved",
        rule="every throwing entry point (set / constructors / operator= from malformed UTF-8, UTF-16, UTF-32 under check_validity; set(char_buffer&&) and set(const "
             "char_buffer&) with a pool buffer as lvalue and rvalue argument; += of malformed text and of code points above U+10FFFF (surrogate values must not throw); "
             "operator+ with them; to_latin_1 without substitution; hex/base64 decode of bad text; ST::format with bad format strings and missing arguments) x target size "
             "class x argument size class (0, 1, limit-1, limit, limit+1, 3*limit), each followed by further use of target and argument; seeded random histories of 30 "
             "operations with throwing operations injected; after every step the full pool snapshot is compared with the pre-operation snapshot. Stream insertion (family "
             "stream): operator<< of wide text (every pointer / std::basic_string / string_view overload) with one malformed unit at positions 0..300 (around 16, 64, 128, 256 "
             "units) of texts up to 370 units into streams of every storage state, followed by further use. non-trivial = more than 3 operations",
        exhaustive={"quick": False, "thorough": False},
    ),
}

MANIFEST_TEXT = {
    "C18": dict(text="Theorems (any history, any target/argument size class): when a string-level operation throws, the exception is not bad_alloc and every "
                     "object - target, lvalue arguments and the rvalue argument of set(char_buffer&&) / the char_buffer&& constructor - is the very same object "
                     "with the same value; the invariant holds afterwards (nothing leaked: every block owned by exactly one live non-temporary object), every "
                     "precondition that held before still holds, and the state is reachable (usable_after); set/constructor throw exactly under check_validity on "
                     "rejected text, += char exactly above U+10FFFF. Tied to the code by snapshots before/after every throwing entry point x size classes.",
                design_ref="DESIGN.md section 3, C18",
                note="Trusted as C04. Exceptions of value computations modelled elsewhere (codec, format) are parameters: 'thrown before any result exists'.",
                technique="Lean 4 proof over a hand model (strong exception guarantee of each throwing do-block) + differential correspondence under ASan/LSan"),
    "C04": dict(text="Theorems (every finite history of string-level operations, completed or thrown, over any pool; every small-string limit L > 0): a const "
                     "operation leaves every live object's bytes, size and data pointer unchanged (const_frame); two live objects never share storage, results "
                     "included (results_fresh, from C05's invariant); an operation changes nothing outside its targets - the object assigned/set/appended/cleared/"
                     "constructed/destroyed or moved from (independent, value_changes_only_by_mutator); no operation faults; temporaries never survive. All follow from "
                     "one specification theorem (sop_spec) proved by composing the buffer-level step theorem of C05. Tied to the code by histories over ~90 overloads "
                     "with full snapshots after every step under ASan/LSan.",
                design_ref="DESIGN.md section 3, C04/C05",
                note="Trusted: Lean kernel + 3 standard axioms; Model/StrPool.lean as the transcription of st_string.h's ownership behaviour; the strpool harness. The "
                     "values computed by const operations are parameters here (C06-C14 own them).",
                technique="Lean 4 proof over a hand model (frame + freshness theorems on the buffer machine) + differential correspondence under ASan/LSan"),
}
