"""Entries for C08 (slicing) and C09 (split / tokenize / replace)."""
from registry_api import T

FAMILIES = {
    "slice": dict(src="slice.cpp"),
    "split": dict(src="split.cpp"),
}

PROPS = {
    "C08": dict(
        family="slice",
        theorems=T("C08", "substr_eq_spec", "left_eq", "right_eq", "trimLeft_eq", "trimRight_eq", "trim_eq", "whitespace_set",
                   "beforeFirst_eq", "afterFirst_eq", "beforeLast_eq", "afterLast_eq", "reassemble_first", "reassemble_last",
                   "absent_sep", "empty_sep_absent", "sep_forms_agree", "forms_bytes", "alloc_le_size",
                   "pinned_right_witness", "pinned_substr_witness", "pinned_after_first_witness"),
        rule="substr over lengths {0,1,2,5,15,16,17,40} x every start in -|s|-2..|s|+2 and at both ends of the signed range x every count in 0..|s|+2 and "
             "SIZE_MAX-|s|-2..SIZE_MAX (all combinations); left/right for every n <= 2|s|+3 and n near 2^63 / SIZE_MAX; trims of every string over a 6-symbol "
             "alphabet (incl. NUL, 0xE9) up to length 4 (quick) / 6 (thorough) x 8 character sets; before/after of every subject over {a,A,-,NUL,E9} up to length "
             "4 (5) x every separator up to length 2 (3) x char / const char* / ST::string / null x both case modes; seeded random long cases crossing the "
             "small-string limit. Observed: returned bytes, terminator, largest operator-new request of the call. non-trivial = non-empty subject (and separator)",
        exhaustive={"quick": False, "thorough": False},
        assumptions=["strings are shorter than 2^63 bytes; a const char* argument denotes the bytes before its first NUL"],
    ),
    "C09": dict(
        family="split",
        theorems=T("C09", "split_eq_spec", "split_char_eq_spec", "split_cstr_eq_spec", "split_cstr_ascii", "split_length_le", "join_split",
                   "empty_sep_whole", "tokenize_eq_spec", "tokens_nonempty", "tokens_no_delim", "tokens_maximal",
                   "replace_scans_agree", "replace_eq_spec", "replace_len", "replace_empty", "split_forms_agree", "split_pieces_utf8", "split_forms_agree_utf8", "replace_forms_agree",
                   "arg_toString_assume", "terminates", "ci_folds_ascii_only", "fold_only_ascii_letters", "spec_fuel_irrelevant", "pinned_split_empty_sep_witness", "pinned_replace_revalidates_witness"),
        rule="split: every subject over {a,A,(b),',',NUL,C3,A9} up to length 4 (quick) / 5 (thorough) x every separator over {a,A,',',NUL,A9} up to length 2 plus "
             "self-overlapping / longer ones x max_splits in {0,1,2,3,SIZE_MAX} x both case modes x ST::string / const char* / char overloads; tokenize: every "
             "subject over {space,',',a,b,NUL,E9} up to length 5 (6) x 7 delimiter sets; replace: subjects up to length 4 (5) x 16 patterns x 9 replacements x "
             "four overloads x both case modes; seeded random long cases with planted occurrences crossing the small-string limit. A call that does not return "
             "within the per-case timeout is the observation `hang`. non-trivial = non-empty subject and separator/pattern",
        exhaustive={"quick": False, "thorough": False},
        assumptions=["strings are shorter than 2^28 bytes (ST_HUGE_BUFFER_SIZE); split characters are in 1..0x7F and splitter pointers non-null (documented contracts)"],
    ),
}

MANIFEST_TEXT = {
    "C09": dict(
        text="(under construction) model of split/tokenize/replace with guarded loops; correspondence over short-string sweeps",
        design_ref="DESIGN.md section 3, C09", note="see evidence",
        technique="Lean 4 proof over a hand model + differential correspondence under ASan/UBSan with hang attribution"),
    "C08": dict(
        text="(under construction) model of substr/left/right/trims/before/after with the literal signed/unsigned arithmetic; correspondence over boundary grids",
        design_ref="DESIGN.md section 3, C08", note="see evidence",
        technique="Lean 4 proof over a hand model + differential correspondence under ASan/UBSan with allocation-request tracking"),
}
