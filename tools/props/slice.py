"""Entries for C08 (slicing) and C09 (split / tokenize / replace)."""
from registry_api import T

FAMILIES = {
    "slice": dict(src="slice.cpp"),
    "split": dict(src="split.cpp"),
}

PROPS = {
    "C08": dict(
        family="slice",
        theorems=T("C08", "substr_eq_spec", "left_eq", "right_eq", "trimLeft_eq", "trimRight_eq", "trim_eq", "whitespace_set",
                   "beforeFirst_eq", "afterFirst_eq", "beforeLast_eq", "afterLast_eq", "reassemble_first", "reassemble_last",
                   "absent_sep", "empty_sep_absent", "sep_forms_agree", "forms_bytes", "alloc_le_size",
                   "pinned_right_witness", "pinned_substr_witness", "pinned_after_first_witness"),
        rule="substr over lengths {0,1,2,5,15,16,17,40} x every start in -|s|-2..|s|+2 and at both ends of the signed range x every count in 0..|s|+2 and "
             "SIZE_MAX-|s|-2..SIZE_MAX (all combinations); left/right for every n <= 2|s|+3 and n near 2^63 / SIZE_MAX; trims of every string over a 6-symbol "
             "alphabet (incl. NUL, 0xE9) up to length 4 (quick) / 6 (thorough) x 8 character sets; before/after of every subject over {a,A,-,NUL,E9} up to length "
             "4 (5) x every separator up to length 2 (3) x char / const char* / ST::string / null x both case modes; seeded random long cases crossing the "
             "small-string limit. Observed: returned bytes, terminator, largest operator-new request of the call. non-trivial = non-empty subject (and separator)",
        exhaustive={"quick": False, "thorough": False},
        partial="none of the property's clauses is left unproved. 'Without reading outside the string' is proved at model level (the copy range never exceeds the string: "
                "outcome `oob` unreachable) and observed at machine level by ASan; the pointer `c_str() - 1` that trim_right/trim form (never dereferenced) is "
                "modelled as offset -1, not as undefined behaviour.",
        trusted_base=["allocation requests are observed through the harness' operator new (largest request per call); `new char[n]` above PTRDIFF_MAX is modelled as bad_alloc, "
                      "below it as success", "before_*/after_* theorems depend on StVerif.Props.C07.find_all_eq_spec / find_last_all_eq_spec"],
        assumptions=["strings are shorter than 2^63 bytes; a const char* argument denotes the bytes before its first NUL; null character sets for the trims are a documented contract and not generated"],
    ),
    "C09": dict(
        family="split",
        theorems=T("C09", "case_fold_is_model", "translated_compare_ci_is_model", "translated_find_ci_is_model", "split_eq_spec", "split_char_eq_spec", "split_cstr_eq_spec", "split_cstr_ascii", "split_length_le", "join_split",
                   "empty_sep_whole", "tokenize_eq_spec", "tokens_nonempty", "tokens_no_delim", "tokens_maximal", "tokens_exactly",
                   "replace_scans_agree", "replace_eq_spec", "replace_len", "replace_empty", "split_forms_agree", "split_pieces_utf8", "split_forms_agree_utf8", "replace_forms_agree",
                   "arg_toString_assume", "terminates", "ci_folds_ascii_only", "fold_only_ascii_letters", "spec_fuel_irrelevant", "pinned_split_empty_sep_witness", "pinned_replace_revalidates_witness"),
        rule="split: every subject over {a,A,(b),',',NUL,C3,A9} up to length 4 (quick) / 5 (thorough) x every separator over {a,A,',',NUL,A9} up to length 2 plus "
             "self-overlapping / longer ones x max_splits in {0,1,2,3,SIZE_MAX} x both case modes x ST::string / const char* / char overloads; tokenize: every "
             "subject over {space,',',a,b,NUL,E9} up to length 5 (6) x 7 delimiter sets; replace: subjects up to length 4 (5) x 16 patterns x 9 replacements x "
             "four overloads x both case modes; seeded random long cases with planted occurrences crossing the small-string limit. A call that does not return "
             "within the per-case timeout is the observation `hang`. non-trivial = non-empty subject and separator/pattern",
        exhaustive={"quick": False, "thorough": False},
        partial="replace_eq_spec / replace_scans_agree assume the result length is below 2^64 (Fits); split_cstr_* assume pieces below ST_HUGE_BUFFER_SIZE; for the "
                "const char* arguments of replace under check_validity, malformed arguments are rejected with unicode_error (C02's subject), the theorem "
                "replace_forms_agree is stated for arguments the conversion accepts.",
        trusted_base=["non-termination is observed as `hang` by the runner's per-case wall-clock limit (10 s in this family); the model-level counterpart is the theorem `terminates` "
                      "(no loop reaches its `stuck` guard)", "Model/Utf.lean's stringSetUtf8 / validateUtf8 (C01-C03) model the validating constructor used by split(const char*)"],
        assumptions=["strings are shorter than 2^28 bytes (ST_HUGE_BUFFER_SIZE); split characters are in 1..0x7F and splitter pointers non-null (documented contracts)"],
    ),
}

MANIFEST_TEXT = {
    "C08": dict(
        text="Theorems (all byte strings shorter than 2^63, every start of the signed 64-bit range, every count / n in Nat, every separator in the char / "
             "const char* / ST::string forms, both case modes): substr, left, right, trim_left, trim_right, trim, before_first, after_first, before_last, "
             "after_last return exactly the specified slice (take/drop with clamped start, dropWhile on the character set, text on the stated side of the "
             "least / greatest occurrence); before ++ occurrence ++ after reassembles the original when the separator occurs (the separator itself in the "
             "case-sensitive mode), the stated whole/empty results when it does not; the three separator forms agree; every call returns and asks operator new "
             "for at most size+1 units. The model carries the literal signed/unsigned arithmetic of the C++ (wrap64/toI64) and is tied to the code by boundary "
             "grids over start/count/n (both ends of both integer ranges), exhaustive short subjects x separators, and allocation-request tracking. Three "
             "genuine defects (right(n>size), substr count overflow, after_first/after_last(ST::string)) were found by this check, repaired, and are kept as "
             "machine-checked witnesses about the transcription of the pinned code.",
        design_ref="DESIGN.md section 3, C08",
        note="Trusted: Lean kernel + 3 standard axioms, Spec/Slice.lean + Spec/Search.lean as the meaning of the property, the slice harness (ASan/UBSan, operator new "
             "interposer reporting the largest request). before/after rest on C07's theorems (find/find_last = least/greatest occurrence). Machine-level reads are "
             "observed by ASan on exact-size heap strings, the model-level counterpart is that the `oob` outcome of the copy is unreachable.",
        technique="Lean 4 proof over a hand model with machine-integer arithmetic + differential correspondence under ASan/UBSan with allocation-request tracking"),
    "C09": dict(
        text="Theorems (all subjects, separators, patterns, replacements as arbitrary byte lists incl. NUL, empty, self-overlapping, longer than the subject; "
             "every max_splits in Nat; both case modes): the three split overloads return the pieces between the first max non-overlapping occurrences found "
             "left to right (at most max+1 pieces; joined with the separator they give the original case-sensitively; an empty separator leaves the text whole); "
             "tokenize returns exactly the maximal non-empty runs of non-delimiters; replace returns the unlimited pieces joined by the replacement, of length "
             "size + k(|to|-|from|), and its copying scan stores exactly what its counting scan allocated; every loop makes progress (no `stuck`, no out-of-range "
             "`next`); insensitive matching is sensitive matching on ASCII-folded text; char = one-byte string, const char* = string of its bytes, and on "
             "well-formed UTF-8 the re-validating const char* overload agrees with the others (UTF-8 is closed under cutting at occurrences). Two genuine defects "
             "(empty-separator loop on text with NUL; replace re-validating its result) were found by this check, repaired, and kept as machine-checked witnesses.",
        design_ref="DESIGN.md section 3, C09",
        note="Trusted: Lean kernel + 3 standard axioms, Spec/Split.lean (+ Spec/Slice, Spec/Search) as the meaning of the property, the split harness (ASan/UBSan, per-case "
             "time limit for non-termination). replace theorems assume the result fits size_t; the const char* split overload assumes pieces below ST_HUGE_BUFFER_SIZE. "
             "Outside UTF-8 the const char* split overload with a high-bit splitter may throw unicode_error by design (modelled exactly; the spec judge accepts it).",
        technique="Lean 4 proof over a hand model with guarded loops + differential correspondence under ASan/UBSan with hang attribution"),
}
