"""C20 (concurrent use needs no locking): family `conc` - built with ThreadSanitizer, not ASan."""
from registry_api import T

FAMILIES = {
    "conc": dict(src="conc.cpp", flags=["-fsanitize=thread", "-fno-sanitize-recover=all"], libs=["-pthread"],
                 # the counting operator new of common.hpp is for single-threaded fault injection; it is compiled out here
                 defs=["-DVH_NO_NEW_INTERPOSE"]),
}

PROPS = {
    "C20": dict(
        family="conc",
        theorems=T("C20", "statics_immutable", "unsafe_calls_empty", "step_frame", "own_step_local", "shared_unchanged", "others_private_unchanged",
                   "schedule_independent", "schedule_independent_views", "reachable_inv", "never_faults", "alone_is_a_schedule", "initial_good",
                   "no_locking_needed"),
        # the harness runs up to 8 threads per case: 4 pipelines at a time keep the threads of one case on distinct cores
        slices={"quick": 4, "thorough": 4},
        partial="THIS IS THE PROPERTY WHERE THE THEOREM CARRIES THE LEAST WEIGHT. What is proved is non-interference on the model: in the pool machine of C04/C05, with "
                "the objects partitioned into shared-immutable and per-thread private ones, every interleaving of the threads' operations gives each thread the "
                "observation sequence it has when run alone, and the shared objects never change - under the premise that the machine's state is ALL the state there is. "
                "That premise is tied to the source by regeneration, not by proof: tools/gen_statics.py lists every variable with static or thread storage duration the "
                "headers declare (clang AST) and every external function they reference; statics_immutable / unsafe_calls_empty are `decide` over the regenerated lists, so a "
                "new mutable static or a call outside the MT-Safe allow-list fails the proof on the next run. NOT expressible in the model and therefore NOT proved: the "
                "hardware / C++ memory model (the model interleaves whole operations; that a data-race-free program behaves as such an interleaving is the language's "
                "DRF guarantee, taken on trust), data races inside libc / libstdc++ (glibc's MT-Safe documentation and [res.on.data.races] are trusted), mutable state "
                "reachable through a `mutable` member or a const_cast of a const static (not visible to the inventory). Real data races are only OBSERVED: the "
                "ThreadSanitizer build reports them on the schedules that were run; absence of a report is not a proof of absence",
        rule="each case = N in {2,4,8} threads released together by a spin barrier in a fresh process (nothing of the library has run there but the assume_valid "
             "constructors of the shared objects, so first uses are concurrent), three start disciplines (aligned, random yields, staggered), each thread running a seeded "
             "program of 150..1500 operations from one of 7 mixes over 31 operation classes (compare/compare_i/compare_n, find/find_last/contains/starts/ends case-sensitive "
             "and -insensitive, substr/left/right/trim, before/after, to_upper/to_lower, replace, split, tokenize, UTF-16/32/wchar/Latin-1 conversions both ways, hash/hash_i, "
             "to_int..to_double/to_bool, hex/base64 encode+decode, ST::format with every argument class incl. padded fields and floats, ST::printf to a thread-private "
             "open_memstream FILE* with a per-thread pad character and pad widths 17..64, string_stream <<, ostream <<, and construction/copy/move/append/set/clear of "
             "thread-local strings) on ~30 shared immutable strings and buffers; every result is digested per operation; the same programs are then run on one thread and the "
             "digests compared. non-trivial = at least 2 threads",
        exhaustive={"quick": False, "thorough": False},
        trusted_base=["ThreadSanitizer (g++ 12.2 -fsanitize=thread) as the observer of data races in the instrumented code (the headers and the harness; libc/libstdc++ are not instrumented)",
                      "tools/gen_statics.py: clang++-14 JSON AST of a translation unit including every public header -> Generated/Statics.lean (variables of static/thread "
                      "storage duration with their constness; referenced external functions against an allow-list taken from the glibc manual's MT-Safe annotations)",
                      "the C++ memory model's guarantee that a data-race-free execution is an interleaving of its threads' actions; glibc's MT-Safe documentation; [res.on.data.races] for libstdc++",
                      "the values computed by the operations are the subject of C06-C14: this check compares each thread's results with the same program's sequential results, both from the implementation"],
        assumptions=["threads only call const members / free functions on shared objects and never share an object they modify (the property's own hypothesis); "
                     "FILE* and std::ostream sinks are thread-private; the C locale is not changed while threads run (snprintf/strto* are 'MT-Safe locale')"],
        timeout={"quick": 600, "thorough": 3000},
    ),
}

MANIFEST_TEXT = {
    "C20": dict(
        text="PARTIAL BY NATURE: the theorem carries the least weight of all properties here. Theorems (Lean kernel; every number of threads, every program, every "
             "interleaving, by induction over the schedule): on the object/heap machine of C04/C05 with objects partitioned into shared-immutable and per-thread "
             "private ones, an operation reads only its operands and writes only its targets and fresh storage (step_frame, from C04's specification theorem), shared "
             "objects are bit-identical after any schedule (shared_unchanged), and each thread's observation sequence - results of its const calls on shared objects and "
             "the values of its own objects - equals its observation sequence when run alone (schedule_independent). The premise 'the machine's state is all the state "
             "there is' is re-checked against the source on every run: statics_immutable and unsafe_calls_empty are `decide` over the inventory of static/thread-storage "
             "variables and external calls regenerated from the clang AST of every public header (a new mutable static breaks the proof). Data races on the real machine "
             "are not proved absent, only observed: a ThreadSanitizer harness runs 2/4/8 threads from a barrier in a fresh process on shared immutable strings plus own "
             "objects and compares every thread's per-operation digests with the sequential run.",
        design_ref="DESIGN.md section 3, C20",
        note="Trusted: Lean kernel + 3 standard axioms; Model/Sched.lean as the meaning of 'thread', 'schedule', 'observation'; the clang-AST inventory translator and its "
             "MT-Safe allow-list; the C++ memory model's DRF guarantee (the model interleaves whole operations); glibc/libstdc++ thread-safety documentation; "
             "ThreadSanitizer as observer (instrumented code only, explored schedules only). The hardware memory model and races inside libc cannot be expressed in the model.",
        technique="Lean 4 proof of non-interference over a hand model (frame theorem + induction over interleavings) + regenerated source inventory of static storage "
                  "(proof premise, `decide`) + ThreadSanitizer differential harness (concurrent vs sequential digests)"),
}
