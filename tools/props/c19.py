"""C19 - allocation failure propagates cleanly and leaves every object destructible.
Decided over three harness families: `pool` (ST::buffer<T> members, exact model), `strpool` (ST::string operations,
exact model for the buffer-only operations, property judge for all) and `stream` (string_stream growth)."""
from registry_api import T

FAMILIES = {}   # pool, strpool and stream are declared by their own plug-ins; `ops` (added there) routes replay lines

PROPS = {
    "C19": dict(
        families=["pool", "strpool", "stream"],
        family="pool",
        theorems=T("C19", "fault_safe", "fault_safe_destructible", "fault_safe_usable", "fault_only_when_scheduled", "throw_only_bad_alloc",
                   "fault_safe_reachable", "asFound_allocate_badFree", "asFound_allocate_doubleFree", "asFound_assignCopy_useAfterFree",
                   "stream_step_fault_safe", "stream_append_fault_safe", "stream_append_char_fault_safe", "stream_fault_then_destructible",
                   "string_fault_safe", "string_fault_never_faults", "string_fault_target_previous_or_empty",
                   "string_fault_other_exception_unchanged", "string_fault_destructible", "string_fault_readable",
                   "string_reachable_finite", "string_histories_included"),
        slices_by_family={"pool": {"quick": 32, "thorough": 64}, "strpool": {"quick": 16, "thorough": 32}, "stream": {"quick": 8, "thorough": 16}},
        rule="buffer level (family pool): for two (quick) / four (thorough) element types, every target size class x every source size class (6x6), after 2 / 5 kinds "
             "of prefix, every operation of a 37-entry menu with its allocation failing (a buffer member allocates at most once) and with the next one failing (control), "
             "plus seeded random histories followed by a random operation with its allocation failing. String level (family strpool): every allocating ST::string "
             "operation (construction from text in three encodings, copy/move, assignment, set in every mode incl. from lvalue/rvalue char_buffer, +=, operator+, "
             "substr/left/right/trim/replace/before/after/case mapping, conversions, hex/base64, format, split/tokenize, string_stream) x target size class x argument "
             "size class; for each line the harness counts the allocations n of the clean run and re-runs the operation from the same rebuilt pre-state with the k-th "
             "allocation throwing, k = 1..n (only allocations made inside the library call are counted: the fault counter is armed after the harness built the "
             "arguments); after each: snapshot of every live object, then every object is destroyed; ASan + block accounting + LSan. Stream level (family stream): histories "
             "of string_stream operations followed by an operation (append of every form, every operator<< overload, moves) whose k-th allocation fails, in both storage "
             "modes and at every doubling boundary; the stream must hold its previous bytes, every other stream is untouched, destroying everything is clean. "
             "non-trivial = at least one fault fired",
        exhaustive={"quick": False, "thorough": False},
        partial="the theorems cover every ST::buffer<T> member and every fault position, and (string_fault_safe and its corollaries) every modelled ST::string "
                "operation under every fault schedule in every history: the ownership behaviour — which buffers, temporaries and result objects an operation creates, "
                "moves, assigns and destroys, in which order, and what unwinding destroys — is proved safe (invariant kept, targets hold their previous value or are "
                "empty or were never constructed, everything else untouched, no temporary survives, everything destructible). What a value computation (substr, replace, "
                "split, format, conversions ...) computes is a parameter of that model, and what it allocates inside libstdc++ containers (std::vector in split/tokenize, "
                "format's output sink, std::string results) is opaque to it: for those operations the statement is decided on the code by the fault-injection "
                "correspondence against the property's predicate (exact model comparison for the buffer-only operations, now including += of a C string and "
                "set/assignment from UTF-16/32 text). string_stream growth is covered by the stream family, not by a theorem here; std::ostream swallowing an exception "
                "raised inside its own buffer growth is outside the library and not generated",
    ),
}

MANIFEST_TEXT = {
    "C19": dict(text="Theorems (every ST::buffer<T> operation, every fault position k, any history before it, every limit L > 0): with the k-th allocation "
                     "throwing, the operation ends in bad_alloc only when that allocation was reached, the invariant of C05 holds afterwards (no pointer to released "
                     "storage, exclusive ownership), the target holds its previous value or is empty or was never constructed, every other object is untouched, and "
                     "destroying every object afterwards releases every block exactly once. One genuine defect (allocate / copy assignment stored size or kept the old "
                     "pointer across the throwing new) was found by this check and repaired. The same is proved one level up (string_fault_safe): every modelled "
                     "ST::string operation — with its temporaries and their unwinding — under an arbitrary fault schedule installed anywhere in an arbitrary history "
                     "completes, or throws a non-bad_alloc exception with nothing changed, or throws bad_alloc with only its targets changed (previous value, empty, or "
                     "never constructed), the invariant holding and no temporary surviving; never a memory fault. In addition ST::string-level operations are decided by "
                     "fault injection at every allocation of every operation (k = 1..n) against the property's predicate and, for buffer-only operations, the exact model.",
                design_ref="DESIGN.md section 3, C19",
                note="Trusted: Lean kernel + 3 standard axioms, the operator-new interposer (forwards to malloc; counts and fails allocations made inside library calls), ASan/LSan.",
                technique="Lean 4 proof over fault schedules on the buffer machine + fault-injection correspondence (every allocation of every operation) under ASan/LSan"),
}
