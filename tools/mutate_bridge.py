#!/usr/bin/env python3
"""Mutation self-test of the translator tie alone (no harness, no correspondence run).

  tools/mutate_bridge.py run [--max N] [--seed S] [--out FILE]

For machine-made one-token mutants (the generator of tools/mutate.py) of the headers that hold translated functions, in a
scratch copy of the library: regenerate lean/StVerif/Generated/Kernels.lean (tools/gen_kernels.py), and when the generated
text differs from the unchanged tree's, rebuild every bridge module.  Outcomes:
  untranslated   the mutant is outside every translated function (generated text unchanged): not counted
  stops          the translator cannot read the mutant (exit 3): the tie falls back to the correspondence
  killed         a bridge theorem no longer checks
  survived       every bridge still checks although the translated text changed (equivalent mutant, or a bridge too weak)
Run it in a private clone of /verif (it rewrites Generated/Kernels.lean while it runs and restores it at the end).
Nothing here is registered in MANIFEST.json."""
import sys, os, json, subprocess, shutil, tempfile
HERE = os.path.dirname(os.path.abspath(__file__)); VERIF = os.path.dirname(HERE)
sys.path.insert(0, HERE)
import mutate
FILES = ["st_utf_conv_priv.h", "st_codecs_priv.h", "st_string_priv.h", "st_format_priv.h", "st_formatter.h"]
BRIDGES = ["StVerif.Lemmas.KernelBridge", "StVerif.Lemmas.KernelLoops", "StVerif.Lemmas.KernelLoopsUtf32", "StVerif.Lemmas.KernelLoopsUtf8",
           "StVerif.Lemmas.KernelLoopsMisc", "StVerif.Lemmas.KernelLoopsLatin1", "StVerif.Lemmas.KernelLoopsValidate", "StVerif.Lemmas.KernelLoopsCleanup",
           "StVerif.Lemmas.KernelLoopsCodec", "StVerif.Lemmas.KernelLoopsCompare", "StVerif.Lemmas.KernelLoopsDecode", "StVerif.Lemmas.KernelPadSize",
           "StVerif.Lemmas.KernelNumericString", "StVerif.Lemmas.KernelFormatString"]
KERN = os.path.join(VERIF, "lean", "StVerif", "Generated", "Kernels.lean")

def main():
    a = sys.argv[1:]; n = 60; seed = 11; out = os.path.join(VERIF, ".cache", "mutate_bridge.jsonl")
    if "--max" in a: n = int(a[a.index("--max") + 1])
    if "--seed" in a: seed = int(a[a.index("--seed") + 1])
    if "--out" in a: out = a[a.index("--out") + 1]
    muts = []
    for f in FILES:
        muts += mutate.all_mutants(f)
    sel = mutate.sample(muts, 10 ** 6, seed)        # every line once, shuffled; stop after n counted mutants
    base = open(KERN).read()
    counted = 0
    os.makedirs(os.path.dirname(out), exist_ok=True)
    for m in sel:
        if counted >= n: break
        wt = tempfile.mkdtemp(prefix="stmb-")
        try:
            shutil.copytree(os.path.join(mutate.REPO, "include"), os.path.join(wt, "include"))
            shutil.copy(os.path.join(mutate.REPO, "CMakeLists.txt"), wt)
            p = os.path.join(wt, "include", m["file"])
            src = open(p, errors="replace").read().split("\n")
            src[m["line"] - 1] = m["new"]
            open(p, "w").write("\n".join(src))
            r = subprocess.run([sys.executable, os.path.join(HERE, "gen_kernels.py")], env=dict(os.environ, ST_REPO=wt), stdout=subprocess.PIPE, stderr=subprocess.STDOUT, text=True)
            if r.returncode == 3:
                status = "stops" if "clang failed" not in r.stdout else "does-not-compile"
            elif open(KERN).read() == base:
                status = "untranslated"
            else:
                b = subprocess.run(["lake", "build"] + BRIDGES, cwd=os.path.join(VERIF, "lean"), stdout=subprocess.PIPE, stderr=subprocess.STDOUT, text=True)
                status = "killed" if b.returncode != 0 else "survived"
            if status in ("killed", "survived", "stops"): counted += 1
            rec = dict(id=m["id"], kind=m["kind"], old=m["old"].strip(), new=m["new"].strip(), status=status)
            open(out, "a").write(json.dumps(rec) + "\n")
            print(status, m["id"], m["kind"], "|", m["old"].strip()[:70], "=>", m["new"].strip()[:70], flush=True)
        finally:
            shutil.rmtree(wt, ignore_errors=True)
            open(KERN, "w").write(base)
    return 0
if __name__ == "__main__":
    sys.exit(main())
