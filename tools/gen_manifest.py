#!/usr/bin/env python3
"""Writes MANIFEST.json from the registry (so the two never drift)."""
import json, os, sys
HERE = os.path.dirname(os.path.abspath(__file__))
sys.path.insert(0, HERE)
from registry import PROPS, MANIFEST_TEXT, NOT_APPLICABLE
checks = []
for pid in sorted(PROPS):
    P = PROPS[pid]; M = MANIFEST_TEXT[pid]
    checks.append(dict(
        property_id=pid,
        quick_cmd="python3 tools/check.py %s --tier quick" % pid,
        thorough_cmd="python3 tools/check.py %s --tier thorough" % pid,
        evidence_file="evidence/%s.json" % pid,
        replay_cmd_template="python3 tools/check.py %s --replay {path}" % pid,
        engine="lean4-proof+correspondence",
        level_claimed=dict(category="proof", text=M["text"], design_ref=M["design_ref"]),
        level_note=M["note"],
        technique=M["technique"],
    ))
man = dict(
    version=1,
    setup_cmd="python3 tools/setup.py",
    hooks=dict(guard="ST_VERIF", enable="none needed: no source hooks are used (harnesses fork per worker and attribute aborts through a shared case counter)",
               baseline_off_cmd="cmake --build /repo/_build && /repo/_build/test/st_gtests",
               source_commits=[], add_only=True),
    engines=[dict(name="lean4-proof+correspondence", path="tools/check.py", serves_properties=sorted(PROPS),
                  kind_free_text="Lean 4 theorems about a hand-written model (lean/StVerif) + differential correspondence check of the model's "
                                 "executable definitions (lean_exe stdrv) against sanitizer-instrumented C++ harnesses built from /repo's working tree; "
                                 "constant tables regenerated from the source on every run")],
    checks=checks,
    notes="See DESIGN.md. Every check rebuilds the Lean library (re-checking all proofs), audits axioms, rebuilds the harness from /repo's current headers "
          "(content-addressed cache) and runs the correspondence + spec evaluation. known_findings.json lists recorded findings and fixed defects.",
    not_applicable=[dict(property_id=k, reason=v) for k, v in sorted(NOT_APPLICABLE.items()) if k not in PROPS],
)
with open(os.path.join(HERE, "..", "MANIFEST.json"), "w") as f:
    json.dump(man, f, indent=1)
print("MANIFEST.json: %d checks, %d not_applicable" % (len(checks), len(man["not_applicable"])))
