#!/usr/bin/env python3
"""Rewrites the generated tables of DESIGN.md (between <!-- BEGIN x --> / <!-- END x --> markers):
   seeded  - one row per seeded change under seeded/<name>/meta.json: what it changes, what it needs, which checks caught it
   status  - one row per property: theorems registered, level, families"""
import json, os, glob, re, sys
HERE = os.path.dirname(os.path.abspath(__file__)); VERIF = os.path.dirname(HERE)
sys.path.insert(0, HERE)
from registry import PROPS, NOT_APPLICABLE

def seeded_table():
    rows = ["| seeded change | breaks | what was changed | needs, to manifest | quick check result |", "|---|---|---|---|---|"]
    for d in sorted(glob.glob(os.path.join(VERIF, "seeded", "*", "meta.json"))):
        m = json.load(open(d)); name = os.path.basename(os.path.dirname(d))
        det = m.get("detected_by", {})
        res = []
        for tier, r in det.items():
            for p, v in r.items():
                res.append("%s %s: %s" % (p, tier, "caught (exit 1, replay)" if v["rc"] == 1 else "MISSED (exit %s)" % v["rc"]))
        def clip(s, n): s = " ".join(str(s).split()); return s if len(s) <= n else s[:n - 1] + "…"
        rows.append("| %s | %s | %s | %s | %s |" % (name, ",".join(m.get("breaks") or [m.get("property", "?")]), clip(m.get("summary", ""), 170).replace("|", "/"),
                                              clip(m.get("needs_to_manifest", ""), 170).replace("|", "/"), "; ".join(res) or "not run yet"))
    return "\n".join(rows)

def status_table():
    rows = ["| property | families | property theorems registered | partial (what the theorems do not carry) |", "|---|---|---|---|"]
    for pid in ["C%02d" % i for i in range(1, 21)]:
        if pid in PROPS:
            P = PROPS[pid]
            fams = ",".join(P.get("families") or [P["family"]])
            part = " ".join(P.get("partial", "").split())
            rows.append("| %s | %s | %d | %s |" % (pid, fams, len(P["theorems"]), (part[:300] + "…") if len(part) > 300 else part or "—"))
        else:
            rows.append("| %s | — | — | not claimed: %s |" % (pid, NOT_APPLICABLE.get(pid, "")))
    return "\n".join(rows)

def fixed_table():
    kf = json.load(open(os.path.join(VERIF, "known_findings.json")))
    rows = ["Repaired in `/repo` (one `fix:` commit each; the library's own suite passes unedited after each):", ""]
    for f in kf.get("fixed", []):
        m = re.match(r"fixed: property=(\S+) (\S+) (.*)", f)
        if m:
            txt = " ".join(m.group(3).split())
            rows.append("* **%s** `%s` — %s" % (m.group(1), m.group(2), (txt[:330] + "…") if len(txt) > 330 else txt))
    rows += ["", "Recorded, not repaired (the check prints `KNOWN-FINDING` for each and exits 0):", ""]
    for f in kf.get("findings", []):
        rows.append("* **%s** `%s` — %s  *Disposition:* %s" % (f["property"], f["id"], " ".join(f["what"].split())[:300], " ".join(f.get("disposition", "").split())[:260]))
    return "\n".join(rows)

def main():
    p = os.path.join(VERIF, "DESIGN.md"); s = open(p).read()
    for key, fn in (("seeded", seeded_table), ("status", status_table), ("fixed", fixed_table)):
        pat = re.compile(r"(<!-- BEGIN %s -->\n).*?(<!-- END %s -->)" % (key, key), re.S)
        if pat.search(s): s = pat.sub(lambda m: m.group(1) + fn() + "\n" + m.group(2), s)
    open(p, "w").write(s)
if __name__ == "__main__":
    main()
