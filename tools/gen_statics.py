#!/usr/bin/env python3
"""Translator for C20: inventory of hidden shared state in the library's headers.

From `clang++-14 -std=gnu++20 -fsyntax-only -Xclang -ast-dump=json` of a translation unit that
includes every public header of $ST_REPO/include (st_config.h instantiated by gen_config.py):

  1. every variable with static or thread storage duration declared by the library -- namespace
     scope (ST, _ST_PRIVATE, global scope and namespaces re-opened inside the library's files),
     static data members, function-local `static` / `thread_local` / `extern` -- with qualified
     name, file:line, type and whether it is immutable (`constexpr`, or a top-level const type);
  2. every function the headers reference that is not the library's own, classified as
     libc (declared outside any C++ namespace), libstdc++ (declared inside namespace std /
     __gnu_cxx) or compiler builtin, and checked against the allow-list below (what the glibc
     manual documents as MT-Safe, with the "locale" remark where it applies).  Anything outside
     the allow-list lands in `unsafeCalls`.

Output: lean/StVerif/Generated/Statics.lean (two Lean list literals about which
StVerif.Props.C20.statics_immutable / unsafe_calls_empty are proved by `decide`).

Exit status 0 = written / unchanged, 3 = the translator could not run (clang missing, dump not
understood): the last committed generated file stays in place and the caller says so.

The dump is ~600 MB (libstdc++ included); only the top-level declarations that belong to the
library are parsed as JSON, the rest is scanned as bytes.  The result is cached by a fingerprint
of $ST_REPO/include and of this tool, so an unchanged tree costs nothing."""
import sys, os, re, json, hashlib, subprocess, tempfile, shutil, bisect, glob, time

REPO = os.environ.get("ST_REPO", "/repo")
HERE = os.path.dirname(os.path.abspath(__file__))
VERIF = os.path.dirname(HERE)
OUT = os.path.join(VERIF, "lean", "StVerif", "Generated", "Statics.lean")
CACHE = os.path.join(VERIF, ".cache", "statics")
CLANG = os.environ.get("ST_CLANG", "clang++-14")

# ----------------------------------------------------------------------------- allow-lists
LOCALE = "MT-Safe locale"
LIBC_MT_SAFE = {
    # <string.h> / <wchar.h>: plain memory and string functions, "MT-Safe"
    "memchr": "", "memrchr": "", "memcmp": "", "memcpy": "", "memmove": "", "memset": "", "strlen": "", "strnlen": "",
    "strcmp": "", "strncmp": "", "strchr": "", "strrchr": "", "strstr": "", "strcpy": "", "strncpy": "",
    "wcslen": "", "wmemcmp": "", "wmemcpy": "", "wmemmove": "", "wmemset": "", "wmemchr": "", "wcscmp": "", "wcsncmp": "",
    # <stdio.h>: formatted output to a caller buffer / a caller stream (streams are locked per call)
    "snprintf": LOCALE, "vsnprintf": LOCALE, "sprintf": LOCALE, "fprintf": LOCALE, "vfprintf": LOCALE,
    "fwrite": "", "fputc": "", "fputs": "", "putc": "", "fflush": "",
    # <stdlib.h>: numeric conversions read the locale ("MT-Safe locale"), allocation is MT-Safe
    "strtol": LOCALE, "strtoul": LOCALE, "strtoll": LOCALE, "strtoull": LOCALE, "strtof": LOCALE, "strtod": LOCALE, "strtold": LOCALE,
    "malloc": "", "calloc": "", "realloc": "", "free": "", "abort": "", "abs": "", "labs": "", "llabs": "",
    # <ctype.h> / <math.h>
    "tolower": LOCALE, "toupper": LOCALE, "isspace": LOCALE, "isdigit": LOCALE, "isalpha": LOCALE, "isalnum": LOCALE,
    "isupper": LOCALE, "islower": LOCALE, "isxdigit": LOCALE,
    "fabs": "", "fabsf": "", "fabsl": "", "isnan": "", "isinf": "", "signbit": "", "floor": "", "ceil": "",
    # assertion failure path
    "__assert_fail": "", "assert": "",
    # allocation functions of the C++ runtime ([new.delete.dataraces])
    "operator new": "", "operator new[]": "", "operator delete": "", "operator delete[]": "",
}
# libstdc++ entities are templates / members that operate on the objects they are given
# ([res.on.data.races]: a standard library function does not access objects other than through its
# arguments); they are accepted as a class, except for the functions with documented global state:
CXX_GLOBAL_STATE = {"rand", "srand", "strtok", "setlocale", "localeconv", "getenv", "strerror", "asctime", "ctime", "gmtime",
                    "localtime", "tmpnam", "set_terminate", "set_new_handler", "set_unexpected", "global", "sync_with_stdio",
                    "mbrtowc", "wcrtomb", "mbtowc", "wctomb", "mblen"}

# external objects the headers may name: the standard streams (every stdio call locks the FILE)
EXT_VARS_OK = {"stdout": "FILE locked per call (MT-Safe)", "stderr": "FILE locked per call (MT-Safe)", "stdin": "FILE locked per call (MT-Safe)"}

FN_KINDS = {"FunctionDecl", "CXXMethodDecl", "CXXConstructorDecl", "CXXDestructorDecl", "CXXConversionDecl", "CXXDeductionGuideDecl"}
VAR_KINDS = {"VarDecl", "VarTemplateSpecializationDecl", "VarTemplatePartialSpecializationDecl", "DecompositionDecl"}
CTX_KINDS = {"NamespaceDecl", "CXXRecordDecl", "ClassTemplateSpecializationDecl", "ClassTemplatePartialSpecializationDecl", "EnumDecl"}

def log(*a):
    print(*a, file=sys.stderr)

# ----------------------------------------------------------------------------- helpers
def fingerprint():
    h = hashlib.sha256()
    for path in sorted(glob.glob(os.path.join(REPO, "include", "**", "*"), recursive=True)) + [os.path.join(REPO, "CMakeLists.txt"), os.path.abspath(__file__)]:
        if os.path.isfile(path):
            h.update(os.path.relpath(path, REPO).encode() if path.startswith(REPO) else b"tool")
            h.update(open(path, "rb").read())
    return h.hexdigest()[:24]

def top_const(qt):
    """is the *object* of this type immutable: const at the top level (arrays: const elements)?"""
    qt = qt.strip()
    while qt.endswith("]"):
        depth = 0; i = len(qt) - 1
        while i >= 0:
            if qt[i] == "]": depth += 1
            elif qt[i] == "[":
                depth -= 1
                if depth == 0: break
            i -= 1
        if i < 0: break
        qt = qt[:i].strip()
    # `T (&)[N]` / `T (*)[N]` / function types: look at the declarator in parentheses
    if qt.endswith(")"):
        depth = 0; i = len(qt) - 1
        while i >= 0:
            if qt[i] == ")": depth += 1
            elif qt[i] == "(":
                depth -= 1
                if depth == 0: break
            i -= 1
        inner = qt[i + 1:-1].strip() if i >= 0 else ""
        if inner.startswith("*") or inner.startswith("&"):
            return inner.endswith("const")
        return False
    if qt.endswith("const"):
        return True
    if qt.endswith("*"):
        return False
    if qt.endswith("&&"):
        return top_const(qt[:-2])
    if qt.endswith("&"):
        return top_const(qt[:-1])
    # no declarator left: look for a `const` token outside template / function brackets
    depth = 0; tok = ""; toks = []
    for ch in qt + " ":
        if ch in "<(": depth += 1
        elif ch in ">)": depth -= 1
        if depth == 0 and (ch.isalnum() or ch == "_"):
            tok += ch
        else:
            if tok and depth == 0: toks.append(tok)
            elif tok and depth == 1 and ch in "<(": toks.append(tok)
            tok = ""
    return "const" in toks

def lean_str(s):
    return '"' + s.replace("\\", "\\\\").replace('"', '\\"') + '"'

# ----------------------------------------------------------------------------- the dump
def run_clang(work):
    cfg = os.path.join(work, "cfg")
    subprocess.check_call([sys.executable, os.path.join(HERE, "gen_config.py"), cfg], env=dict(os.environ, ST_REPO=REPO))
    pub = sorted(os.listdir(os.path.join(REPO, "include", "string_theory")))
    tu = os.path.join(work, "st_all_headers.cpp")
    with open(tu, "w") as f:
        for h in pub:
            f.write("#include <string_theory/%s>\n" % h)
    cmd = [CLANG, "-std=gnu++20", "-fsyntax-only", "-w", "-I" + cfg, "-I" + os.path.join(REPO, "include"),
           "-Xclang", "-ast-dump=json", tu]
    r = subprocess.run(cmd, stdout=subprocess.PIPE, stderr=subprocess.PIPE)
    if r.returncode != 0 or len(r.stdout) < 1000:
        raise RuntimeError("clang failed rc=%d: %s" % (r.returncode, r.stderr.decode(errors="replace")[-600:]))
    return r.stdout, cfg, tu, pub

CHILD = b"\n    {\n"

def split_top_level(buf):
    """offsets [start, end) of the children of the TranslationUnitDecl (pretty-printed with 2-space indentation)"""
    starts = []
    i = buf.find(CHILD)
    while i >= 0:
        starts.append(i + 1)
        i = buf.find(CHILD, i + 1)
    chunks = []
    for n, s in enumerate(starts):
        if n + 1 < len(starts):
            e = buf.rfind(b"}", s, starts[n + 1]) + 1
        else:
            e = buf.rfind(b"\n    }", s) + 6
        chunks.append((s, e))
    return chunks

def last_file_before(buf, pos):
    """the `file` / `line` the dumper had printed last before offset pos (locations are printed differentially)"""
    f = None; p = pos
    while True:
        i = buf.rfind(b'"file": "', 0, p)
        if i < 0: break
        # skip the file named by an "includedFrom" object
        ls = buf.rfind(b"\n", 0, i)
        prev = buf[buf.rfind(b"\n", 0, ls) + 1:ls] if ls > 0 else b""
        if prev.strip().startswith(b'"includedFrom"'):
            p = i; continue
        j = buf.find(b'"', i + 9)
        f = json.loads(buf[i + 8:j + 1].decode()); break
    line = 0
    i = buf.rfind(b'"line": ', 0, pos)
    if i >= 0:
        m = re.match(rb"\d+", buf[i + 8:i + 20])
        if m: line = int(m.group(0))
    return f, line

class Walker:
    def __init__(self, is_lib_file):
        self.is_lib_file = is_lib_file
        self.file = None; self.line = 0
        self.statics = {}        # (qualified name, file, line) -> record
        self.lib_fn_ids = set()
        self.lib_var_ids = set()
        self.refs = {}           # decl id -> dict(name, users=set of file:line)
        self.ctx = []
        self.fn_depth = 0

    def loc(self, node):
        """update the dumper's location state from a (possibly macro) location object, in print order"""
        if not isinstance(node, dict): return
        if "offset" in node:
            if "file" in node: self.file = node["file"]
            if "line" in node: self.line = node["line"]
            return
        for k in ("spellingLoc", "expansionLoc"):
            if k in node: self.loc(node[k])

    def walk(self, node, record_all):
        if isinstance(node, list):
            for x in node: self.walk(x, record_all)
            return
        if not isinstance(node, dict): return
        kind = node.get("kind")
        pushed = False; fn = False
        for k, v in node.items():
            if k == "loc":
                self.loc(v)
                # the declaration's own position is now known
                if kind in VAR_KINDS or kind in ("ParmVarDecl", "BindingDecl"):
                    if record_all or self.is_lib_file(self.file): self.lib_var_ids.add(node.get("id"))
                if kind in VAR_KINDS: self.var(node, record_all)
                if kind in FN_KINDS:
                    if record_all or self.is_lib_file(self.file): self.lib_fn_ids.add(node.get("id"))
                if kind in CTX_KINDS or kind in FN_KINDS:
                    nm = node.get("name") or ("(anonymous)" if kind != "NamespaceDecl" else "(anonymous namespace)")
                    self.ctx.append(nm + ("()" if kind in FN_KINDS else "")); pushed = True
                    if kind in FN_KINDS: self.fn_depth += 1; fn = True
            elif k == "range":
                self.loc(v.get("begin")); self.loc(v.get("end"))
            elif k == "inner":
                self.walk(v, record_all)
            elif k in ("referencedDecl", "foundReferencedDecl"):
                pass
        if kind == "DeclRefExpr":
            rd = node.get("referencedDecl") or {}
            if rd.get("kind") in FN_KINDS: self.ref(rd.get("id"), rd.get("name", "?"))
            elif rd.get("kind") == "VarDecl" and not top_const(rd.get("type", {}).get("qualType", "")):
                self.ref(rd.get("id"), rd.get("name", "?"), var=True)       # constants (numeric_limits<>::digits, is_signed<>::value ...) are not state
        elif kind == "MemberExpr":
            rid = node.get("referencedMemberDecl")
            if rid and node.get("type", {}).get("qualType") == "<bound member function type>":
                self.ref(rid, node.get("name", "?"))
        elif kind == "UnresolvedLookupExpr":
            for l in node.get("lookups", []):
                if l.get("kind") in FN_KINDS or l.get("kind") == "FunctionTemplateDecl":
                    self.ref(l.get("id"), l.get("name", node.get("name", "?")))
        elif kind == "CXXConstructExpr" or kind == "CXXNewExpr" or kind == "CXXDeleteExpr":
            pass   # constructors of std types and operator new/delete: accepted as a class (see header comment)
        if pushed: self.ctx.pop()
        if fn: self.fn_depth -= 1

    def ref(self, rid, name, var=False):
        if not rid or not self.is_lib_file(self.file): return
        r = self.refs.setdefault(rid, dict(name=name, users=set(), var=var))
        if len(r["users"]) < 4: r["users"].add("%s:%d" % (os.path.basename(self.file or "?"), self.line))

    def var(self, node, record_all):
        if not (record_all or self.is_lib_file(self.file)): return
        sc = node.get("storageClass", "")
        tls = node.get("tls", "")
        if self.fn_depth > 0 and sc not in ("static", "extern") and not tls:
            return      # automatic storage duration
        qt = node.get("type", {}).get("qualType", "?")
        constexpr = bool(node.get("constexpr"))
        const = constexpr or top_const(qt)
        name = "::".join(self.ctx + [node.get("name", "(unnamed)")])
        where = ("function-local" if self.fn_depth > 0 else "namespace/class") + (" thread_local" if tls else "")
        key = (name, self.file, self.line)
        old = self.statics.get(key)
        rec = dict(name=name, file=self.file or "?", line=self.line, type=qt, isConst=const, constexpr=constexpr,
                   scope=where, tls=bool(tls))
        if old:
            rec["isConst"] = old["isConst"] and const    # every instantiation must be immutable
            if old["type"] != qt and "type-parameter" not in old["type"]: rec["type"] = old["type"]
        self.statics[key] = rec

def extract():
    work = tempfile.mkdtemp(prefix="statics-", dir=os.path.join(VERIF, ".cache"))
    try:
        t0 = time.time()
        buf, cfg, tu, pub = run_clang(work)
        t1 = time.time()
        inc = os.path.join(REPO, "include") + os.sep
        def is_lib_file(f):
            return bool(f) and (f.startswith(inc) or f.startswith(cfg + os.sep) or f == tu)
        def short(f):
            if f.startswith(inc): return "include/" + f[len(inc):]
            if f.startswith(cfg + os.sep): return "include/st_config.h (generated)"
            return os.path.basename(f)
        chunks = split_top_level(buf)
        if len(chunks) < 50:
            raise RuntimeError("AST dump not understood: %d top-level declarations" % len(chunks))
        heads = []
        w = Walker(is_lib_file)
        parsed = 0
        libpat = re.compile(rb'"file": "' + re.escape(json.dumps(inc)[1:-1].encode()))
        cfgpat = json.dumps(cfg + os.sep)[1:-1].encode()
        for (s, e) in chunks:
            head = buf[s:s + 400]
            mk = re.search(rb'"kind": "(\w+)"', head); kind = mk.group(1).decode() if mk else "?"
            mn = re.search(rb'\n      "name": "([^"]*)"', buf[s:min(e, s + 3000)]); name = mn.group(1).decode() if mn else ""
            heads.append((kind, name))
            f0, l0 = last_file_before(buf, s)
            is_st_ns = kind == "NamespaceDecl" and name in ("ST", "_ST_PRIVATE")
            body = buf[s:e]
            touches = is_st_ns or is_lib_file(f0) or libpat.search(body) is not None or cfgpat in body
            if not touches: continue
            node = json.loads(body.decode())
            w.file, w.line = f0, l0
            w.ctx = []; w.fn_depth = 0
            w.walk(node, record_all=False)
            parsed += 1
        t2 = time.time()
        # classify the referenced functions that are not the library's own
        starts = [c[0] for c in chunks]
        calls = {}
        index = {}
        for m in re.finditer(rb'"id": "(0x[0-9a-f]+)",\n +"kind": "\w+Decl",\n +"loc"', buf):
            index.setdefault(m.group(1), m.start())
        for rid, r in w.refs.items():
            if rid in w.lib_fn_ids or rid in w.lib_var_ids: continue
            pos = index.get(rid.encode(), -1); where = "unknown"
            top = bisect.bisect_right(starts, pos) - 1 if pos >= 0 else None
            name = r["name"]
            if top is not None and top >= 0:
                tk, tn = heads[top]
                f0, _ = last_file_before(buf, pos + 200)
                if is_lib_file(f0) and tk != "NamespaceDecl": continue      # the library's own (e.g. a friend / literal operator)
                if tk == "NamespaceDecl" and tn in ("ST", "_ST_PRIVATE"): continue
                if tk == "NamespaceDecl" and tn in ("std", "__gnu_cxx", "__cxxabiv1"): where = "libstdc++"
                elif tk == "NamespaceDecl": where = "namespace " + tn
                else: where = "libc"
            bare = name[len("__builtin_"):] if name.startswith("__builtin_") else name
            if name.startswith("__builtin_"): where = "builtin"
            if r.get("var"):
                # a variable that is not the library's own: a libc / libstdc++ global object
                ok = name in EXT_VARS_OK and where in ("libc", "libstdc++"); note = EXT_VARS_OK.get(name, "external variable outside the allow-list")
                where += " variable"
            elif where == "libstdc++":
                ok = bare not in CXX_GLOBAL_STATE; note = "libstdc++: operates on its arguments ([res.on.data.races])" if ok else "global state"
            elif where in ("libc", "builtin"):
                ok = bare in LIBC_MT_SAFE or name.startswith("operator") or (where == "builtin" and bare not in CXX_GLOBAL_STATE and not bare.startswith("str"))
                note = LIBC_MT_SAFE.get(bare, "") or ("MT-Safe" if ok else "not in the MT-Safe allow-list")
            else:
                ok = False; note = "declaration not located"
            key = (where, name)
            c = calls.setdefault(key, dict(name=name, origin=where, safe=ok, note=note, users=set()))
            c["safe"] = c["safe"] and ok
            c["users"] |= r["users"]
        statics = sorted(w.statics.values(), key=lambda r: (r["file"], r["line"], r["name"]))
        for r in statics: r["file"] = short(r["file"])
        calls = sorted(calls.values(), key=lambda c: (c["origin"], c["name"]))
        for c in calls: c["users"] = sorted(c["users"])[:3]
        log("gen_statics: clang %.1fs, scan %.1fs, classify %.1fs; %d top-level declarations, %d parsed" % (t1 - t0, t2 - t1, time.time() - t2, len(chunks), parsed))
        return dict(statics=statics, calls=calls, headers=pub)
    finally:
        shutil.rmtree(work, ignore_errors=True)

def render(data):
    out = ["-- GENERATED by tools/gen_statics.py from the clang AST of every public header of include/; do not edit.",
           "-- statics: every variable with static or thread storage duration declared by the library.",
           "-- extCalls: every function referenced by the headers that is not the library's own; unsafeCalls: those outside",
           "-- the allow-list of tools/gen_statics.py (glibc manual: MT-Safe / MT-Safe locale; libstdc++: [res.on.data.races]).",
           "namespace StVerif.Generated", "",
           "structure StaticVar where", "  name : String", "  file : String", "  line : Nat", "  type : String",
           "  scope : String", "  isConst : Bool", "  threadLocal : Bool", "  deriving Repr, DecidableEq", "",
           "structure ExtCall where", "  name : String", "  origin : String", "  note : String", "  deriving Repr, DecidableEq", "",
           "def publicHeaders : List String := [%s]" % ", ".join(lean_str(h) for h in data["headers"]), "",
           "def statics : List StaticVar := ["]
    rows = ["  { name := %s, file := %s, line := %d, type := %s, scope := %s, isConst := %s, threadLocal := %s }" % (
        lean_str(r["name"]), lean_str(r["file"]), r["line"], lean_str(r["type"]), lean_str(r["scope"]), "true" if r["isConst"] else "false",
        "true" if r.get("tls") else "false")
        for r in data["statics"]]
    out.append(",\n".join(rows)); out.append("]"); out.append("")
    # the offenders by name, so that a failing proof names them in the build log
    mut = [r for r in data["statics"] if not r["isConst"] and not r.get("tls")]
    out += ["/-- the statics that are neither immutable nor thread-local (must be empty) -/",
            "def mutableStatics : List String := [%s]" % ", ".join(lean_str("%s : %s (%s:%d)" % (r["name"], r["type"], r["file"], r["line"])) for r in mut), ""]
    def call_rows(cs):
        return ",\n".join("  { name := %s, origin := %s, note := %s }" % (lean_str(c["name"]), lean_str(c["origin"]), lean_str(c["note"])) for c in cs)
    safe = [c for c in data["calls"] if c["safe"]]; unsafe = [c for c in data["calls"] if not c["safe"]]
    out += ["def extCalls : List ExtCall := [", call_rows(safe), "]", "",
            "def unsafeCalls : List ExtCall := [" + ("\n" + call_rows(unsafe) + "\n" if unsafe else "") + "]", "",
            "end StVerif.Generated", ""]
    return "\n".join(out)

def main():
    try:
        fp = fingerprint()
        os.makedirs(CACHE, exist_ok=True)
        cpath = os.path.join(CACHE, fp + ".json")
        if os.path.exists(cpath) and "--force" not in sys.argv:
            data = json.load(open(cpath)); how = "cached"
        else:
            data = extract(); how = "extracted"
            with open(cpath + ".tmp", "w") as f: json.dump(data, f, indent=1)
            os.replace(cpath + ".tmp", cpath)
            for old in sorted(glob.glob(os.path.join(CACHE, "*.json")), key=os.path.getmtime)[:-8]:
                os.unlink(old)
        text = render(data)
        old = open(OUT).read() if os.path.exists(OUT) else None
        changed = old != text
        if changed:
            os.makedirs(os.path.dirname(OUT), exist_ok=True)
            with open(OUT, "w") as f: f.write(text)
        mut = [r for r in data["statics"] if not r["isConst"] and not r.get("tls")]
        uns = [c for c in data["calls"] if not c["safe"]]
        for r in mut: log("gen_statics: MUTABLE static %s (%s:%d) : %s" % (r["name"], r["file"], r["line"], r["type"]))
        for c in uns: log("gen_statics: call outside the MT-Safe allow-list: %s [%s] used at %s" % (c["name"], c["origin"], ",".join(c["users"])))
        detail = "".join(" MUTABLE %s (%s:%d)" % (r["name"], r["file"], r["line"]) for r in mut[:4]) + "".join(" UNSAFE-CALL %s [%s]" % (c["name"], c["origin"]) for c in uns[:4])
        print("gen_statics: %s statics=%d mutable=%d ext_calls=%d unsafe=%d changed=%s status=0%s" % (
            how, len(data["statics"]), len(mut), len(data["calls"]), len(uns), "Statics" if changed else "-", detail))
        return 0
    except Exception as e:
        log("gen_statics: translator could not run: %r" % (e,))
        print("gen_statics: translator could not run (%s); the last committed Generated/Statics.lean is used status=3" % type(e).__name__)
        return 3

if __name__ == "__main__":
    sys.exit(main())
