#!/bin/bash
# seeds sweep on the clean tree: every property, both tiers, seeds 2 and 3 (seed 1 is the default everywhere)
cd "$(dirname "$0")/.." || exit 2
# /repo is patched and restored by tools/seeded.py while other work goes on: sweep a snapshot of it instead (vp run --with-repo)
export ST_REPO="${VP_RUN_REPO:-/repo}"
python3 tools/setup.py > /dev/null 2>&1
for seed in 2 3; do for p in C01 C02 C03 C04 C05 C06 C07 C08 C09 C10 C11 C12 C13 C14 C15 C16 C17 C18 C19 C20; do
  for tier in quick thorough; do
    out=$(VERIF_SEED=$seed python3 tools/check.py $p --tier $tier 2>&1 | tail -3 | tr '\n' ' ')
    echo "seed=$seed $p $tier :: $out"
  done; done; done
