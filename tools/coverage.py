#!/usr/bin/env python3
"""Line coverage of /repo's headers under the correspondence generators (how much of the code the tie sees).

  tools/coverage.py [--tier quick] [--props C01,C07] [--out coverage/]

For every property: build its harness families from /repo's working tree with `--coverage -O0` (no sanitizers),
run the tier's generators (all slices, harness only - the Lean driver is not needed to know which lines ran), collect
gcov's per-line counts for include/*.h.  The union of all instrumented lines (every function some harness or the
library's own test suite instantiates) is the denominator; lines that no generator executes are where a change to the
library would be invisible to the correspondence.  Writes <out>/lines.json (file -> line -> [properties]) and
<out>/REPORT.md (per file: executed / instrumented, and the uncovered lines with their source text).

This is measurement of the tie, not a check: it never prints VIOLATION and is not registered in MANIFEST.json.
"""
import sys, os, json, subprocess, tempfile, shutil, glob, gzip, re, time
HERE = os.path.dirname(os.path.abspath(__file__))
VERIF = os.path.dirname(HERE)
sys.path.insert(0, HERE)
from registry import PROPS, FAMILIES
REPO = os.environ.get("ST_REPO", "/repo")
NCPU = min(16, os.cpu_count() or 4)

def sh(cmd, **kw):
    return subprocess.run(cmd, stdout=subprocess.PIPE, stderr=subprocess.STDOUT, text=True, **kw)

def gcov_lines(objdir, cwd):
    """{header basename: {line: count}} from every .gcda under objdir"""
    res = {}
    for gcda in glob.glob(os.path.join(objdir, "**", "*.gcda"), recursive=True):
        r = subprocess.run(["gcov", "--json-format", "--stdout", gcda], cwd=os.path.dirname(gcda), stdout=subprocess.PIPE, stderr=subprocess.DEVNULL)
        for doc in r.stdout.decode(errors="replace").splitlines():
            if not doc.strip().startswith("{"): continue
            try: j = json.loads(doc)
            except Exception: continue
            for f in j.get("files", []):
                fn = os.path.realpath(os.path.join(j.get("current_working_directory", cwd), f["file"]))
                if not fn.startswith(os.path.realpath(os.path.join(REPO, "include")) + os.sep): continue
                d = res.setdefault(os.path.basename(fn), {})
                for l in f["lines"]:
                    d[l["line_number"]] = d.get(l["line_number"], 0) + l["count"]
    return res

def build_cov(fam, variant, outdir):
    spec = FAMILIES[fam]
    defs = list(spec.get("defs", [])) + (variant.split(" ") if variant else []) + ["-DVH_COVERAGE"]
    cfg = os.path.join(outdir, "cfg")
    subprocess.check_call([sys.executable, os.path.join(HERE, "gen_config.py"), cfg], env=dict(os.environ, ST_REPO=REPO))
    libs = [l for l in spec.get("libs", []) if "sanitize" not in l]
    cmd = ["g++", "-std=c++20", "-O0", "-g", "-w", "--coverage", "-fprofile-update=atomic", "-pthread"] + defs + ["-I" + cfg, "-I" + os.path.join(REPO, "include"),
           "-I" + os.path.join(VERIF, "harness"), os.path.join(VERIF, "harness", spec["src"]), "-o", os.path.join(outdir, fam)] + libs
    r = sh(cmd, cwd=outdir)
    if r.returncode: print(r.stdout[-3000:]); return None
    return os.path.join(outdir, fam)

def run_prop(prop, tier, work):
    P = PROPS[prop]; fams = P.get("families") or [P["family"]]
    total = {}
    for fam in fams:
        for variant in P.get("variants", [""])[:1]:
            d = os.path.join(work, "%s-%s" % (prop, fam)); os.makedirs(d, exist_ok=True)
            binp = build_cov(fam, variant, d)
            if not binp: continue
            nsl = P.get("slices_by_family", {}).get(fam, P.get("slices", {})).get(tier, NCPU)
            procs = []
            for k in range(nsl):
                # one counter file per slice (GCOV_PREFIX): concurrent processes merging into one .gcda lose or corrupt counts
                sd = os.path.join(d, "s%d" % k); os.makedirs(sd, exist_ok=True)
                env = dict(os.environ, LC_ALL="C", GCOV_PREFIX=sd, GCOV_PREFIX_STRIP="99")
                procs.append(subprocess.Popen([binp, "--seed", os.environ.get("VERIF_SEED", "1"), "--tier", tier, "--prop", prop, "--slice", "%d/%d" % (k, nsl)],
                                              stdout=subprocess.DEVNULL, stderr=subprocess.DEVNULL, env=env, cwd=d))
                while sum(1 for p in procs if p.poll() is None) >= NCPU: time.sleep(0.05)
            for p in procs: p.wait()
            for k in range(nsl):
                sd = os.path.join(d, "s%d" % k)
                for g in glob.glob(os.path.join(d, "*.gcno")): shutil.copy(g, sd)
            for g in glob.glob(os.path.join(d, "*.gcda")): os.unlink(g)
            for f, ls in gcov_lines(d, d).items():
                t = total.setdefault(f, {})
                for l, c in ls.items(): t[l] = t.get(l, 0) + c
            shutil.rmtree(d, ignore_errors=True)
    return total

def suite_lines(work):
    """instrumented lines of the library's own test suite (denominator only): every template the tests instantiate"""
    d = os.path.join(work, "suite"); os.makedirs(d, exist_ok=True)
    cfg = os.path.join(d, "cfg")
    subprocess.check_call([sys.executable, os.path.join(HERE, "gen_config.py"), cfg], env=dict(os.environ, ST_REPO=REPO))
    srcs = sorted(glob.glob(os.path.join(REPO, "test", "test_*.cpp")))
    gt = "/usr/src/googletest/googletest"
    procs = []
    for s in srcs:
        o = os.path.join(d, os.path.basename(s) + ".o")
        procs.append(subprocess.Popen(["g++", "-std=c++20", "-O0", "-w", "--coverage", "-c", s, "-o", o, "-I" + cfg, "-I" + os.path.join(REPO, "include"),
                                       "-I" + gt + "/include", "-I" + os.path.join(REPO, "test")], cwd=d, stdout=subprocess.DEVNULL, stderr=subprocess.DEVNULL))
    for p in procs: p.wait()
    res = {}
    # the .gcno files alone give the instrumented lines (no execution needed)
    for gcno in glob.glob(os.path.join(d, "*.gcno")):
        r = subprocess.run(["gcov", "--json-format", "--stdout", gcno], cwd=d, stdout=subprocess.PIPE, stderr=subprocess.DEVNULL)
        for doc in r.stdout.decode(errors="replace").splitlines():
            if not doc.strip().startswith("{"): continue
            try: j = json.loads(doc)
            except Exception: continue
            for f in j.get("files", []):
                fn = os.path.realpath(os.path.join(j.get("current_working_directory", d), f["file"]))
                if not fn.startswith(os.path.realpath(os.path.join(REPO, "include")) + os.sep): continue
                t = res.setdefault(os.path.basename(fn), {})
                for l in f["lines"]: t.setdefault(l["line_number"], 0)
    shutil.rmtree(d, ignore_errors=True)
    return res

def main():
    argv = sys.argv[1:]; tier = "quick"; props = sorted(PROPS); out = os.path.join(VERIF, "coverage")
    i = 0
    while i < len(argv):
        if argv[i] == "--tier": tier = argv[i + 1]; i += 2
        elif argv[i] == "--props": props = argv[i + 1].split(","); i += 2
        elif argv[i] == "--out": out = argv[i + 1]; i += 2
        else: i += 1
    work = tempfile.mkdtemp(prefix="cov-", dir=os.path.join(VERIF, ".cache") if os.path.isdir(os.path.join(VERIF, ".cache")) else None)
    lines = {}      # file -> line -> set(props)
    instr = {}      # file -> set(lines)
    try:
        for p in props:
            t0 = time.time()
            tot = run_prop(p, tier, work)
            n = 0
            for f, ls in tot.items():
                for l, c in ls.items():
                    instr.setdefault(f, set()).add(l)
                    if c > 0: lines.setdefault(f, {}).setdefault(l, set()).add(p); n += 1
            print("%s: %d executed lines (%.0fs)" % (p, n, time.time() - t0), flush=True)
        for f, ls in suite_lines(work).items():
            instr.setdefault(f, set()).update(ls.keys())
    finally:
        shutil.rmtree(work, ignore_errors=True)
    os.makedirs(out, exist_ok=True)
    json.dump({f: {str(l): sorted(ps) for l, ps in sorted(d.items())} for f, d in sorted(lines.items())}, open(os.path.join(out, "lines.json"), "w"), indent=0)
    rep = ["# Which lines of /repo/include the correspondence generators execute (tier %s)\n" % tier,
           "Denominator: lines gcov instruments in any harness or in the library's own test suite (templates nobody instantiates have no lines).\n",
           "| header | instrumented | executed by some property's generators | % |", "|---|---|---|---|"]
    miss_txt = []
    ti = te = 0
    for f in sorted(instr):
        ins = instr[f]; ex = set(lines.get(f, {}))
        ti += len(ins); te += len(ex & ins)
        rep.append("| %s | %d | %d | %.1f |" % (f, len(ins), len(ex & ins), 100.0 * len(ex & ins) / max(1, len(ins))))
        src = open(os.path.join(REPO, "include", f), errors="replace").read().splitlines()
        miss = sorted(ins - ex)
        if miss:
            miss_txt.append("\n## %s: %d instrumented lines not executed\n\n```" % (f, len(miss)))
            for l in miss:
                miss_txt.append("%5d  %s" % (l, src[l - 1].rstrip() if l - 1 < len(src) else ""))
            miss_txt.append("```")
    rep.append("| **total** | %d | %d | %.1f |" % (ti, te, 100.0 * te / max(1, ti)))
    open(os.path.join(out, "REPORT.md"), "w").write("\n".join(rep + miss_txt) + "\n")
    print("total: %d / %d instrumented lines executed (%.1f%%); report in %s" % (te, ti, 100.0 * te / max(1, ti), os.path.join(out, "REPORT.md")))
    return 0

if __name__ == "__main__":
    sys.exit(main())
