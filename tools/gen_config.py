#!/usr/bin/env python3
"""Instantiate /repo/include/st_config.h.in the way CMake does on this platform
(every #cmakedefine ON, versions from CMakeLists.txt).  usage: gen_config.py <outdir>"""
import re, sys, os
REPO = os.environ.get("ST_REPO", "/repo")
def main(outdir):
    cm = open(os.path.join(REPO, "CMakeLists.txt")).read()
    vals = {}
    for k in ("ST_MAJOR_VERSION", "ST_MINOR_VERSION"):
        m = re.search(r"set\(\s*%s\s+(\d+)\s*\)" % k, cm)
        vals[k] = m.group(1) if m else "0"
    vals["ST_VERSION"] = "%s.%s" % (vals["ST_MAJOR_VERSION"], vals["ST_MINOR_VERSION"])
    src = open(os.path.join(REPO, "include", "st_config.h.in")).read()
    src = re.sub(r"@(\w+)@", lambda m: vals.get(m.group(1), ""), src)
    src = re.sub(r"#cmakedefine\s+(\w+)", r"#define \1", src)
    os.makedirs(outdir, exist_ok=True)
    with open(os.path.join(outdir, "st_config.h"), "w") as f:
        f.write(src)
if __name__ == "__main__":
    main(sys.argv[1])
