#!/usr/bin/env python3
"""Confirm and file a seeded change, then run the registered checks against it.

  tools/seeded.py confirm <src-dir> <name> [--props C15,C14]
      <src-dir> holds patch.diff, demo.cpp, meta.json (written by an independent agent).  In a scratch worktree
      of /repo (under /tmp, removed afterwards): the library's own suite must stay green with the patch, the demo
      must fail with it and pass without it.  On success the three files are copied to /verif/seeded/<name>/ and
      meta.json gains a `confirmed` record.
  tools/seeded.py run <name> [--tier quick] [--props C15,C14]
      git -C /repo apply seeded/<name>/patch.diff ; run the checks ; git -C /repo checkout -- . ; records which
      checks caught it into seeded/<name>/meta.json (`detected_by`).
"""
import sys, os, json, subprocess, shutil, time

HERE = os.path.dirname(os.path.abspath(__file__))
VERIF = os.path.dirname(HERE)
REPO = "/repo"

def sh(cmd, **kw):
    return subprocess.run(cmd, shell=True, stdout=subprocess.PIPE, stderr=subprocess.STDOUT, text=True, **kw)

def confirm(src, name, props):
    meta = json.load(open(os.path.join(src, "meta.json")))
    wt = "/tmp/wt/confirm-%s-%d" % (name, os.getpid())
    os.makedirs("/tmp/wt", exist_ok=True)
    r = sh("git -C %s worktree add -q --detach %s HEAD" % (REPO, wt))
    if r.returncode: print(r.stdout); return 2
    rec = {}
    try:
        cfg = ("cmake -G Ninja -S . -B _build -DFETCHCONTENT_SOURCE_DIR_GTEST=/usr/src/googletest -DST_BUILD_TESTS=ON "
               "-DCMAKE_BUILD_TYPE=RelWithDebInfo -DCMAKE_CXX_FLAGS=-Wno-error >/dev/null 2>&1 && cmake --build _build >/dev/null 2>&1")
        demo = "g++ -std=c++20 -O1 -g %s -I_build/include -Iinclude %s -o demo_bin 2>&1 | tail -5"
        extra = meta.get("demo_flags", "")
        san = "-fsanitize=address,undefined" if (meta.get("sanitize") or "sanitiz" in json.dumps(meta)) and "sanitize" not in extra else ""
        # unchanged tree
        r = sh(cfg, cwd=wt);
        if r.returncode: print("baseline build failed"); return 2
        r = sh(demo % (san + " " + extra, os.path.join(os.path.abspath(src), "demo.cpp")), cwd=wt)
        r0 = sh("timeout 120 ./demo_bin >/dev/null 2>&1; echo $?", cwd=wt).stdout.strip()
        rec["demo_rc_unchanged"] = r0
        # patched tree
        r = sh("git apply %s" % os.path.join(os.path.abspath(src), "patch.diff"), cwd=wt)
        if r.returncode: print("patch does not apply:", r.stdout); return 2
        r = sh(cfg, cwd=wt)
        if r.returncode: print("patched tree does not build"); rec["builds"] = False; return 2
        t = sh("./_build/test/st_gtests 2>&1 | tail -4", cwd=wt).stdout
        rec["suite_tail"] = t.strip().splitlines()[-2:] if t.strip() else []
        rec["suite_green"] = "[  PASSED  ] 112 tests" in t
        r = sh(demo % (san + " " + extra, os.path.join(os.path.abspath(src), "demo.cpp")), cwd=wt)
        r1 = sh("timeout 120 ./demo_bin >/dev/null 2>&1; echo $?", cwd=wt).stdout.strip()
        rec["demo_rc_patched"] = r1
    finally:
        sh("git -C %s worktree remove --force %s" % (REPO, wt))
    ok = rec.get("suite_green") and rec.get("demo_rc_unchanged") == "0" and rec.get("demo_rc_patched") not in ("0", None)
    rec["ok"] = bool(ok); rec["at_repo_commit"] = sh("git -C %s rev-parse --short HEAD" % REPO).stdout.strip()
    print(json.dumps(rec, indent=1))
    if not ok: return 1
    dst = os.path.join(VERIF, "seeded", name)
    os.makedirs(dst, exist_ok=True)
    for f in ("patch.diff", "demo.cpp"):
        shutil.copy(os.path.join(src, f), os.path.join(dst, f))
    meta["confirmed"] = rec
    if props: meta["breaks"] = props
    meta.setdefault("breaks", [meta.get("property")])
    json.dump(meta, open(os.path.join(dst, "meta.json"), "w"), indent=1)
    return 0

def run(name, tier, props):
    dst = os.path.join(VERIF, "seeded", name)
    meta = json.load(open(os.path.join(dst, "meta.json")))
    props = props or meta.get("breaks") or [meta.get("property")]
    # the checks look at a scratch worktree of /repo with the change applied (ST_REPO), so /repo itself is never touched
    # and other work on /repo can go on meanwhile; the worktree is removed straight afterwards
    wt = "/tmp/wt/run-%s-%d" % (name, os.getpid())
    os.makedirs("/tmp/wt", exist_ok=True)
    r = sh("git -C %s worktree add -q --detach %s HEAD" % (REPO, wt))
    if r.returncode: print(r.stdout); return 2
    res = {}
    try:
        r = sh("git -C %s apply %s" % (wt, os.path.join(dst, "patch.diff")))
        if r.returncode: print("patch does not apply:", r.stdout); return 2
        for p in props:
            t0 = time.time()
            r = sh("python3 %s %s --tier %s" % (os.path.join(HERE, "check.py"), p, tier), cwd=VERIF, env=dict(os.environ, ST_REPO=wt))
            lines = [l for l in r.stdout.splitlines() if l.startswith("VIOLATION") or l.startswith("KNOWN-FINDING")]
            res[p] = dict(rc=r.returncode, lines=lines[:6], wall_s=round(time.time() - t0, 1))
            # keep the replay of the first violation next to the seeded change
            for l in lines:
                if l.startswith("VIOLATION") and "replay=" in l:
                    path = l.split("replay=")[1].split()[0]
                    if os.path.exists(path):
                        shutil.copy(path, os.path.join(dst, "replay-%s-%s.json" % (p, tier)))
                    break
            print(p, res[p])
    finally:
        sh("git -C %s worktree remove --force %s" % (REPO, wt))
        for tool in ("gen_tables.py", "gen_statics.py", "gen_kernels.py"):      # generated Lean files back to what /repo says
            sh("python3 %s" % os.path.join(HERE, tool), env=dict(os.environ, ST_REPO=REPO))
    meta.setdefault("detected_by", {})[tier] = res
    json.dump(meta, open(os.path.join(dst, "meta.json"), "w"), indent=1)
    # restore the evidence files of the unchanged tree (they were rewritten by the run against the patched tree)
    sh("git -C %s checkout -- evidence" % VERIF)
    return 0 if all(v["rc"] == 1 for v in res.values()) else 1

def main():
    a = sys.argv[1:]
    props = None; tier = "quick"
    if "--props" in a: i = a.index("--props"); props = a[i + 1].split(","); del a[i:i + 2]
    if "--tier" in a: i = a.index("--tier"); tier = a[i + 1]; del a[i:i + 2]
    if a and a[0] == "confirm": return confirm(a[1], a[2], props)
    if a and a[0] == "run": return run(a[1], tier, props)
    print(__doc__); return 2

if __name__ == "__main__":
    sys.exit(main())
