#!/usr/bin/env python3
"""MANIFEST.setup_cmd: build the Lean library + driver from files on disk (offline)."""
import os, subprocess, sys
HERE = os.path.dirname(os.path.abspath(__file__))
VERIF = os.path.dirname(HERE)
subprocess.call([sys.executable, os.path.join(HERE, "gen_tables.py")])
for tool in ("gen_statics.py", "gen_kernels.py"):
    if os.path.exists(os.path.join(HERE, tool)):
        subprocess.call([sys.executable, os.path.join(HERE, tool)])
rc = subprocess.call(["lake", "build", "stdrv", "StVerif"], cwd=os.path.join(VERIF, "lean"))
sys.exit(rc)
