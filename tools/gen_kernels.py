#!/usr/bin/env python3
"""Translator: the bit-level kernels of the library, from C++ to Lean, on every run.

    clang++-14 -fsyntax-only -Xclang -ast-dump=json -Xclang -ast-dump-filter=_ST_PRIVATE::
        over a translation unit that includes the public headers of $ST_REPO/include
    -> the typed AST of the functions listed in KERNELS below
    -> lean/StVerif/Generated/Kernels.lean : one Lean definition per C++ function, in the
       machine monad of StVerif/Cxx/Machine.lean (reads of the source range can fault).

The hand-written model (StVerif/Model/*.lean) is what the property theorems are about; the
bridge theorems of StVerif/Lemmas/KernelBridge*.lean prove `generated = model` for every input,
so a changed mask, bound, shift or statement order in one of these functions changes the
generated definition and the bridge no longer checks (DESIGN.md section 14).

What the translator does, and therefore what is trusted about it:
  * values are mathematical integers; an expression whose value interval (computed here from
    the C++ types, literals, masks and the branch conditions on plain variables) stays inside
    the range of its C++ type is emitted without a wrap; otherwise unsigned arithmetic is
    emitted with an explicit `% 2^w` and signed overflow as the fault `.overflow`;
  * an expression that may be negative is emitted over `Int`, everything else over `Nat`;
  * pointers into the source are indices into `mem : List Nat`; `*p`, `p[k]`, `*p++` are
    `rd mem idx` (a fault outside the list); a non-const `T *&dest` that is only written
    through `*dest++ = e` is the list of units appended;
  * statements become single-assignment `let`s in source order; `if (a || b)` / `if (a && b)`
    become nested `if`s (short-circuit order kept, the controlled statements duplicated);
    statements after an `if` are duplicated into the branches that fall through;
  * a `while` loop becomes a recursive function with a fuel argument over the variables the
    body assigns; running out of fuel is the fault `.fuel`;
  * anything else (a construct not listed here) stops the translator: exit status 3, the last
    committed Kernels.lean stays in place and the caller reports that.

Exit status 0 = written / unchanged, 3 = could not translate."""
import sys, os, re, json, hashlib, subprocess, tempfile, shutil, glob

REPO = os.environ.get("ST_REPO", "/repo")
HERE = os.path.dirname(os.path.abspath(__file__))
VERIF = os.path.dirname(HERE)
OUT = os.path.join(VERIF, "lean", "StVerif", "Generated", "Kernels.lean")
CLANG = os.environ.get("ST_CLANG", "clang++-14")

# functions translated, in dependency order (callees first)
KERNELS = [
    "error_char", "char_error",
    "extract_utf8", "utf8_measure", "write_utf8",
    "extract_utf16", "utf16_measure", "write_utf16",
    "cl_fast_lower", "cl_fast_upper",
    "b64_encode_size",
    # the two-pass conversion loops (measure, then fill) of include/st_utf_conv_priv.h
    "utf8_measure_from_utf16", "utf8_convert_from_utf16", "utf8_measure_from_utf32", "utf8_convert_from_utf32",
    "utf16_measure_from_utf8", "utf16_convert_from_utf8", "utf16_measure_from_utf32", "utf16_convert_from_utf32",
    "utf32_measure_from_utf8", "utf32_convert_from_utf8", "utf32_measure_from_utf16", "utf32_convert_from_utf16",
    "utf8_measure_from_latin_1", "utf8_convert_from_latin_1", "utf16_convert_from_latin_1", "utf32_convert_from_latin_1",
    "latin_1_measure_from_utf8", "latin_1_convert_from_utf8", "latin_1_measure_from_utf16", "latin_1_convert_from_utf16",
    "latin_1_convert_from_utf32",
    "validate_utf8", "cleanup_utf8",
    # include/st_codecs_priv.h
    "hex_encode", "b64_encode",
    # include/st_string_priv.h: the case-insensitive comparison of two ranges of equal length
    "compare_ci/3",
    # include/st_codecs_priv.h: the decoders into a caller buffer
    "b64_decode_size", "hex_decode", "b64_decode",
    # include/st_format_priv.h
    "pad_size", "format_numeric_prefix", "format_numeric_string",
    # include/st_formatter.h: the padding / truncation of every text-like argument (namespace ST)
    "format_string@text:const char *",
    # include/st_string_priv.h: the case-insensitive search for one character
    "find_ci/3",
    # include/st_format_numeric.h: the digit generator (one instantiation per width)
    "uint_formatter<unsigned long>::format", "uint_formatter<unsigned int>::format",
]

class Unsupported(Exception):
    pass

def log(*a):
    print(*a, file=sys.stderr)

# ----------------------------------------------------------------------------- AST access
def dump_ast():
    tmp = tempfile.mkdtemp(prefix="stk-")
    try:
        sys.path.insert(0, HERE)
        import gen_config
        gen_config.REPO = REPO
        gen_config.main(os.path.join(tmp, "cfg"))
        tu = os.path.join(tmp, "tu.cpp")
        with open(tu, "w") as f:
            f.write('#include "st_string.h"\n#include "st_utf_conv.h"\n#include "st_codecs.h"\n'
                    '#include "st_format.h"\n#include "st_stringstream.h"\n')
        s = ""
        for flt in ("_ST_PRIVATE::", "utf_validation_t", "ST::assume_valid", "ST::substitute_invalid", "ST::check_validity", "digit_class_t", "ST::digit_", "alignment_t", "ST::align_", "ST::format_string", "uint_formatter"):
            r = subprocess.run([CLANG, "-std=gnu++20", "-fsyntax-only", "-I", os.path.join(tmp, "cfg"),
                                "-I", os.path.join(REPO, "include"), "-Xclang", "-ast-dump=json",
                                "-Xclang", "-ast-dump-filter=" + flt, tu],
                               stdout=subprocess.PIPE, stderr=subprocess.PIPE, text=True)
            if r.returncode != 0 or not r.stdout.strip():
                raise Unsupported("clang failed: " + r.stderr[-400:])
            s += r.stdout + "\n"
    finally:
        shutil.rmtree(tmp, ignore_errors=True)
    dec = json.JSONDecoder(); i = 0; objs = []
    n = len(s)
    while i < n:
        while i < n and s[i].isspace():
            i += 1
        if i >= n:
            break
        o, i = dec.raw_decode(s, i)
        objs.append(o)
    return objs

def inner(n):
    return [c for c in n.get("inner", []) if c.get("kind") not in ("WarnUnusedResultAttr", "FullComment")]

def qt(n):
    t = n.get("type", {})
    return t.get("desugaredQualType") or t.get("qualType", "")

# ----------------------------------------------------------------------------- types
INT_TYPES = {  # C++ type -> (signed, bits)   (x86-64 Linux, LP64; char is signed)
    "bool": (False, 1),
    "char": (True, 8), "signed char": (True, 8), "unsigned char": (False, 8), "char8_t": (False, 8),
    "short": (True, 16), "unsigned short": (False, 16), "char16_t": (False, 16),
    "int": (True, 32), "unsigned int": (False, 32), "char32_t": (False, 32), "wchar_t": (True, 32),
    "long": (True, 64), "unsigned long": (False, 64), "long long": (True, 64), "unsigned long long": (False, 64),
    "size_t": (False, 64), "ST_ssize_t": (True, 64), "std::size_t": (False, 64),
}
def c_string_bytes(lit):
    """bytes of a C string literal as clang prints it (with the terminating NUL)"""
    body = lit[lit.index('"') + 1: lit.rindex('"')]
    out = []; i = 0
    while i < len(body):
        c = body[i]
        if c != "\\":
            out += list(c.encode("utf-8")); i += 1; continue
        i += 1; c = body[i]
        if c in "01234567":
            j = i
            while j < len(body) and j < i + 3 and body[j] in "01234567":
                j += 1
            out.append(int(body[i:j], 8)); i = j
        elif c == "x":
            j = i + 1
            while j < len(body) and body[j] in "0123456789abcdefABCDEF":
                j += 1
            out.append(int(body[i + 1:j], 16)); i = j
        else:
            out.append({"n": 10, "t": 9, "r": 13, "0": 0, "\\": 92, '"': 34, "'": 39, "a": 7, "b": 8, "f": 12, "v": 11}[c]); i += 1
    return out + [0]

def strip_cv(t):
    t = re.sub(r"\b(const|volatile)\b", "", t)
    return re.sub(r"\s+", " ", t).strip()

def int_type(t, enums):
    t = strip_cv(t)
    if t in INT_TYPES:
        return INT_TYPES[t]
    if t in enums or t.split("::")[-1] in enums:
        return (True, 32)          # unscoped underlying type int; values are the enumerators
    return None

def type_range(t, enums):
    it = int_type(t, enums)
    if it is None:
        raise Unsupported("not an integer type: " + t)
    s, b = it
    if t.split("::")[-1] in enums:
        vals = enums[t.split("::")[-1]].values()
        return (min(vals), max(vals))
    return (-(1 << (b - 1)), (1 << (b - 1)) - 1) if s else (0, (1 << b) - 1)

def is_pointer(t):
    return strip_cv(t.replace("&", "")).endswith("*")
def is_ref(t):
    return t.strip().endswith("&")
def pointee(t):
    t = t.replace("&", "").strip()
    return t[:t.rindex("*")].strip()

# ----------------------------------------------------------------------------- expressions
class Val:
    """a translated expression: Lean text, value interval, and whether the text has type Int"""
    def __init__(self, text, lo, hi, isint=None, atom=False, boolean=False):
        self.text, self.lo, self.hi = text, lo, hi
        self.isint = (lo < 0) if isint is None else isint
        self.atom = atom
        self.boolean = boolean     # text is a decidable Prop
        self.raw8 = None           # for a value read through `const char *`: the name of the unsigned byte it came from
        self.mem = None            # for a pointer value: the Lean text of the list it points into (None = the function's `mem`)
        self.memint = None         # (lo, hi) when that list is a table of signed integers
        self.outpos = False        # the value is an offset into the output buffer
    def p(self):
        return self.text if self.atom else "(" + self.text + ")"

def lit(v):
    return Val(str(v), v, v, atom=True) if v >= 0 else Val("(%d : Int)" % v, v, v, isint=True, atom=True)

def to_int(v):
    if v.isint:
        return v
    if re.fullmatch(r"\d+", v.text):
        return Val("(%s : Int)" % v.text, v.lo, v.hi, isint=True, atom=True)
    return Val("((%s : Nat) : Int)" % v.text, v.lo, v.hi, isint=True, atom=True)

def to_nat(v):
    """a value known to be non-negative, as a Nat-typed text"""
    if not v.isint:
        return v
    if v.lo < 0:
        raise Unsupported("a possibly negative value where a natural number is needed")
    m = re.fullmatch(r"\((\d+) : Int\)", v.text)
    if m:
        return Val(m.group(1), v.lo, v.hi, isint=False, atom=True)
    return Val("%s.toNat" % v.p(), v.lo, v.hi, isint=False, atom=True)

def same_kind(a, b):
    if a.isint or b.isint:
        return to_int(a), to_int(b)
    return a, b

def pow2ceil(x):
    n = 1
    while n <= x:
        n <<= 1
    return n

class Fn:
    """state of the translation of one function"""
    def __init__(self, tr, decl):
        self.tr = tr
        self.decl = decl
        self.name = decl["name"]
        self.counter = 0
        self.aux = []          # auxiliary definitions (loops) emitted before the function
    def fresh(self, base):
        self.counter += 1
        return "%s_%d" % (base, self.counter)

class Env:
    """variable -> current single-assignment name and interval; the output stream's current name"""
    def __init__(self):
        self.vars = {}         # c name -> dict(name=lean name, lo=, hi=, isint=, kind='int'|'src'|'out')
        self.out = None        # lean name of the list written so far (or None)
        self.outbits = None
        self.pending = None    # units copied to the output position by char_traits::copy, not yet stepped over
        self.ev = None         # lean name of the list of format_writer calls made so far (or None)
        self.bout = None       # lean name of the text written backwards into a member buffer (`*--m_start = c`), or None
        self.bpend = False     # `--m_start;` done, the store through `*m_start` not yet
    def copy(self):
        e = Env(); e.vars = {k: dict(v) for k, v in self.vars.items()}; e.out = self.out; e.outbits = self.outbits; e.pending = self.pending; e.ev = self.ev; e.bout = self.bout; e.bpend = self.bpend
        return e

class Translator:
    def __init__(self, objs):
        self.enums = {}
        self.fdecls = {}
        for o in objs:
            if o["kind"] == "EnumDecl" and o.get("name"):
                vals = {}; nxt = 0
                for c in inner(o):
                    if c["kind"] != "EnumConstantDecl":
                        continue
                    v = nxt
                    for x in inner(c):
                        if x["kind"] == "ConstantExpr" and "value" in x:
                            v = int(x["value"])
                    vals[c["name"]] = v; nxt = v + 1
                self.enums[o["name"]] = vals
            if o["kind"] == "FunctionDecl" and any(c["kind"] == "CompoundStmt" for c in inner(o)):
                self.fdecls.setdefault(o["name"], []).append(o)
            if o["kind"] == "ClassTemplateDecl":
                for sp in inner(o):
                    if sp.get("kind") != "ClassTemplateSpecializationDecl":
                        continue
                    targs = [c for c in inner(sp) if c.get("kind") == "TemplateArgument"]
                    ta = targs[0].get("type", {}).get("qualType") if targs else "?"
                    for m in inner(sp):
                        if m.get("kind") == "CXXMethodDecl" and any(c["kind"] == "CompoundStmt" for c in inner(m)):
                            fields = {f["name"]: qt(f) for f in inner(sp) if f.get("kind") == "FieldDecl"}
                            m = dict(m); m["_fields"] = fields
                            self.fdecls.setdefault("%s<%s>::%s" % (o["name"], ta, m["name"]), []).append(m)
        self.sigs = {}         # translated functions: name -> signature description
        # namespace-scope constants of integer type: evaluated here (their initialisers are constant expressions)
        self.arrays = {}
        for o in objs:
            if o["kind"] == "VarDecl" and o.get("name") and inner(o) and inner(o)[0]["kind"] == "StringLiteral":
                self.arrays[o["name"]] = c_string_bytes(inner(o)[0]["value"])
        self.consts = {}
        for o in objs:
            if o["kind"] == "VarDecl" and o.get("name") and int_type(qt(o), self.enums) and inner(o):
                try:
                    l, v, _ = self.expr(None, inner(o)[0], Env())
                    v = self.convert(v, qt(o))
                    if not l and v.lo == v.hi:
                        self.consts[o["name"]] = v.lo
                except Unsupported:
                    pass

    # ---- expressions.  Returns (lines, Val, env) ; `lines` are do-block lines to run first
    def expr(self, fn, n, env):
        k = n["kind"]
        if k in ("ParenExpr", "ConstantExpr", "ExprWithCleanups"):
            return self.expr(fn, inner(n)[0], env)
        if k == "IntegerLiteral":
            return [], lit(int(n["value"])), env
        if k == "CharacterLiteral":
            return [], lit(int(n["value"])), env
        if k == "CXXBoolLiteralExpr":
            return [], Val("True" if n["value"] else "False", 1 if n["value"] else 0, 1 if n["value"] else 0, atom=True, boolean=True), env
        if k == "DeclRefExpr":
            ref = n["referencedDecl"]
            if ref["kind"] == "EnumConstantDecl":
                en = qt(n).split("::")[-1]
                return [], lit(self.enums[en][ref["name"]]), env
            raise Unsupported("lvalue used as a value without a load: " + ref.get("name", "?"))
        if k == "ImplicitCastExpr" or k in ("CStyleCastExpr", "CXXStaticCastExpr", "CXXFunctionalCastExpr", "CXXReinterpretCastExpr"):
            ck = n.get("castKind")
            sub = inner(n)[0]
            if ck == "LValueToRValue":
                return self.load(fn, sub, env)
            if ck in ("NoOp", "BitCast") :
                return self.expr(fn, sub, env)
            if ck == "ArrayToPointerDecay":
                x = sub
                while x["kind"] in ("ParenExpr",):
                    x = inner(x)[0]
                an = x["referencedDecl"].get("name") if x["kind"] == "DeclRefExpr" else None
                if fn is not None and an in fn.arrays:
                    r = Val("0", 0, 0, atom=True)
                    r.mem = "%s_%s" % (fn.name, an)
                    if an in fn.int_tables:
                        r.memint = (min(fn.arrays[an]), max(fn.arrays[an]))
                    return [], r, env
                arr = self.arrays.get(an)
                if arr is not None:
                    r = Val("0", 0, 0, atom=True)
                    r.mem = "[" + ", ".join(str(b) for b in arr) + "]"
                    return [], r, env
                raise Unsupported("array used as a pointer")
            if ck == "PointerToBoolean":
                x = sub
                while x["kind"] in ("ImplicitCastExpr", "ParenExpr"):
                    x = inner(x)[0]
                if x["kind"] == "DeclRefExpr":
                    var = env.vars.get(x["referencedDecl"]["name"], {})
                    if var.get("nullflag"):
                        return [], Val("%s = false" % var["nullflag"], 0, 1, boolean=True), env
                    if var.get("kind") == "out":
                        return [], Val("True", 1, 1, atom=True, boolean=True), env      # an output pointer nobody passes as null
                raise Unsupported("pointer used as a truth value")
            if ck == "IntegralCast":
                lines, v, env = self.expr(fn, sub, env)
                if v.raw8 and int_type(qt(n), self.enums) == (False, 8):
                    return lines, Val(v.raw8, 0, 255, atom=True), env
                r = self.convert(v, qt(n))
                if v.raw8 and r.lo == v.lo and r.hi == v.hi:
                    r.raw8 = v.raw8
                return lines, r, env
            if ck == "IntegralToBoolean":
                lines, v, env = self.expr(fn, sub, env)
                z = "(0 : Int)" if v.isint else "0"
                return lines, Val("%s ≠ %s" % (v.p(), z), 0, 1, boolean=True), env
            raise Unsupported("cast kind " + str(ck))
        if k == "UnaryOperator":
            op = n["opcode"]
            sub = inner(n)[0]
            if op == "~":
                lines, v, env = self.expr(fn, sub, env)
                s, b = int_type(qt(n), self.enums)
                if v.lo == v.hi and not s:
                    return lines, lit(((1 << b) - 1) ^ v.lo), env
                if not s and v.lo >= 0:
                    v = to_nat(v)
                    return lines, Val("%d - %s" % ((1 << b) - 1, v.p()), (1 << b) - 1 - v.hi, (1 << b) - 1 - v.lo), env
                raise Unsupported("~ on a signed value")
            if op == "!":
                lines, v, env = self.cond(fn, sub, env)
                return lines, Val("¬ %s" % v.p(), 0, 1, boolean=True), env
            if op == "-":
                lines, v, env = self.expr(fn, sub, env)
                v = to_int(v)
                return lines, self.signed_result(Val("- %s" % v.p(), -v.hi, -v.lo, isint=True), qt(n)), env
            if op in ("++", "--"):
                return self.incdec_value(fn, n, env)
            if op == "*":
                raise Unsupported("lvalue operator used as a value without a load")
            raise Unsupported("unary " + op)
        if k == "BinaryOperator":
            return self.binop(fn, n, env)
        if k == "ConditionalOperator":
            c, a, b = inner(n)
            l0, cv, env = self.cond(fn, c, env)
            l1, av, e1 = self.expr(fn, a, env)
            l2, bv, e2 = self.expr(fn, b, env)
            if l1 or l2:
                raise Unsupported("side effects inside ?:")
            av, bv = same_kind(av, bv)
            return l0, Val("if %s then %s else %s" % (cv.text, av.text, bv.text), min(av.lo, bv.lo), max(av.hi, bv.hi), isint=av.isint), env
        if k == "CXXMemberCallExpr":
            me = inner(n)[0]
            obj = inner(me)[0] if me.get("kind") == "MemberExpr" else {}
            while obj.get("kind") in ("ImplicitCastExpr", "ParenExpr"):
                obj = inner(obj)[0]
            var = env.vars.get(obj.get("referencedDecl", {}).get("name")) if obj.get("kind") == "DeclRefExpr" else None
            if var and var["kind"] == "ststring" and len(inner(n)) == 1:
                if me.get("name") == "size":
                    return [], Val(var["size"], 0, (1 << 28) - 1, atom=True), env      # documented limit of ST::string: below 2^28 bytes
                if me.get("name") == "c_str":
                    r = Val("0", 0, 0, atom=True); r.mem = var.get("mem")
                    return [], r, env
            raise Unsupported("member call " + str(me.get("name")))
        if k == "CallExpr":
            return self.call(fn, n, env)
        if k == "UnaryExprOrTypeTraitExpr" and n.get("name") == "sizeof":
            at = n.get("argType", {}).get("qualType") or qt(inner(n)[0])
            m = re.match(r"^(.*)\[(\d+)\]$", strip_cv(at))
            if m and int_type(m.group(1), self.enums):
                return [], lit(int(m.group(2)) * int_type(m.group(1), self.enums)[1] // 8), env
            if int_type(at, self.enums):
                return [], lit(max(1, int_type(at, self.enums)[1] // 8)), env
            raise Unsupported("sizeof " + at)
        raise Unsupported("expression kind " + k)

    def convert(self, v, target):
        """integral conversion of a value to C++ type `target`"""
        it = int_type(target, self.enums)
        if it is None:
            raise Unsupported("conversion to " + target)
        s, b = it
        if v.boolean:
            v = Val("if %s then 1 else 0" % v.text, 0, 1)
        lo, hi = (-(1 << (b - 1)), (1 << (b - 1)) - 1) if s else (0, (1 << b) - 1)
        if lo <= v.lo and v.hi <= hi:
            return v                                   # value preserved
        if not s:                                      # modular conversion to an unsigned type
            if v.isint:
                return Val("(%s %% %d).toNat" % (v.p(), 1 << b), 0, hi, isint=False, atom=True)
            return Val("%s %% %d" % (v.p(), 1 << b), 0, hi)
        # conversion to a signed type that may not hold the value: two's complement (gcc/clang; C++20 defines it)
        v = to_int(v)
        return Val("(%s + %d) %% %d - %d" % (v.p(), 1 << (b - 1), 1 << b, 1 << (b - 1)), lo, hi, isint=True)

    def signed_result(self, v, t):
        """result of arithmetic in C++ type t: wrap (unsigned) or must fit (signed; else unsupported here)"""
        s, b = int_type(t, self.enums)
        lo, hi = (-(1 << (b - 1)), (1 << (b - 1)) - 1) if s else (0, (1 << b) - 1)
        if lo <= v.lo and v.hi <= hi:
            return v
        if not s:
            if v.lo < 0:   # unsigned subtraction that may wrap: add the modulus first
                return Val("(%s + %d).toNat %% %d" % (v.p(), 1 << b, 1 << b), 0, hi, isint=False) if v.isint else \
                       Val("%s %% %d" % (v.p(), 1 << b), 0, hi)
            return Val("%s %% %d" % (v.p(), 1 << b), 0, hi, isint=v.isint)
        raise Unsupported("signed arithmetic in %s may overflow (interval %d..%d)" % (t, v.lo, v.hi))

    def binop(self, fn, n, env):
        op = n["opcode"]
        a, b = inner(n)
        if op in ("&&", "||"):
            l1, av, env = self.cond(fn, a, env)
            l2, bv, env2 = self.cond(fn, b, env)
            if l2:
                raise Unsupported("short-circuit operator with effects on the right outside an if condition")
            sym = "∧" if op == "&&" else "∨"
            return l1, Val("%s %s %s" % (av.p(), sym, bv.p()), 0, 1, boolean=True), env
        if op == ",":
            raise Unsupported("comma operator")
        ta, tb = qt(a), qt(b)
        if is_pointer(ta) or is_pointer(tb):
            return self.ptr_binop(fn, n, env)
        l1, av, env = self.expr(fn, a, env)
        l2, bv, env = self.expr(fn, b, env)
        lines = l1 + l2
        t = qt(n)
        if op in ("<", ">", "<=", ">=", "==", "!="):
            av, bv = same_kind(av, bv)
            sym = {"<": "<", ">": ">", "<=": "≤", ">=": "≥", "==": "=", "!=": "≠"}[op]
            return lines, Val("%s %s %s" % (av.p(), sym, bv.p()), 0, 1, boolean=True), env
        if av.boolean:
            av = self.convert(av, "int")
        if bv.boolean:
            bv = self.convert(bv, "int")
        if op == "+":
            av, bv = same_kind(av, bv)
            return lines, self.signed_result(Val("%s + %s" % (av.p(), bv.p()), av.lo + bv.lo, av.hi + bv.hi, isint=av.isint), t), env
        if op == "-":
            lo, hi = av.lo - bv.hi, av.hi - bv.lo
            if lo >= 0 and not (av.isint or bv.isint):
                return lines, Val("%s - %s" % (av.p(), bv.p()), lo, hi), env
            av, bv = to_int(av), to_int(bv)
            return lines, self.signed_result(Val("%s - %s" % (av.p(), bv.p()), lo, hi, isint=True), t), env
        if op == "*":
            if av.lo < 0 or bv.lo < 0:
                raise Unsupported("* on possibly negative values")
            av, bv = to_nat(av), to_nat(bv)
            return lines, self.signed_result(Val("%s * %s" % (av.p(), bv.p()), av.lo * bv.lo, av.hi * bv.hi), t), env
        if op in ("/", "%"):
            if av.lo >= 0 and bv.lo == 0 and bv.hi > 0:
                # a divisor that may be zero: the translation faults there (C++: undefined)
                bv = to_nat(bv); dn = fn.fresh("d")
                lines = lines + ["let %s ← chkNZ %s" % (dn, bv.p())]
                bv = Val(dn, 1, bv.hi, atom=True)
            if av.lo < 0 or bv.lo <= 0:
                raise Unsupported("/ or % with a possibly negative or zero operand")
            av, bv = to_nat(av), to_nat(bv)
            if op == "/":
                return lines, Val("%s / %s" % (av.p(), bv.p()), av.lo // bv.hi, av.hi // bv.lo), env
            return lines, Val("%s %% %s" % (av.p(), bv.p()), 0, min(av.hi, bv.hi - 1)), env
        if op in ("&", "|", "^"):
            if (av.lo < 0 and not (op == "&" and av.raw8)) or bv.lo < 0:
                raise Unsupported("bit operator on a possibly negative value")
            sym = {"&": "&&&", "|": "|||", "^": "^^^"}[op]
            if op == "&" and av.raw8 and 0 <= bv.lo == bv.hi <= 255:
                # a `char` promoted to int, masked with a byte-sized constant: the low eight bits are the byte itself
                return lines, Val("%s &&& %s" % (av.raw8, to_nat(bv).p()), 0, bv.hi), env
            av, bv = to_nat(av), to_nat(bv)
            if op == "&":
                hi = min(av.hi, bv.hi)
            else:
                hi = pow2ceil(max(av.hi, bv.hi)) - 1
            return lines, Val("%s %s %s" % (av.p(), sym, bv.p()), 0, hi), env
        if op in ("<<", ">>"):
            if av.lo < 0 or bv.lo < 0 or bv.lo != bv.hi:
                raise Unsupported("shift of a possibly negative value or by a non-constant")
            s, bits = int_type(t, self.enums)
            if bv.hi >= bits:
                raise Unsupported("shift count >= width")
            av, bv = to_nat(av), to_nat(bv)
            if op == "<<":
                return lines, self.signed_result(Val("%s <<< %s" % (av.p(), bv.p()), av.lo << bv.lo, av.hi << bv.lo), t), env
            return lines, Val("%s >>> %s" % (av.p(), bv.p()), av.lo >> bv.lo, av.hi >> bv.lo), env
        raise Unsupported("binary " + op)

    def ptr_binop(self, fn, n, env):
        op = n["opcode"]
        a, b = inner(n)
        l1, av, env = self.ptr_or_int(fn, a, env)
        l2, bv, env = self.ptr_or_int(fn, b, env)
        lines = l1 + l2
        if op in ("<", ">", "<=", ">=", "==", "!="):
            sym = {"<": "<", ">": ">", "<=": "≤", ">=": "≥", "==": "=", "!=": "≠"}[op]
            return lines, Val("%s %s %s" % (av.p(), sym, bv.p()), 0, 1, boolean=True), env
        if op == "+":
            av, bv = to_nat(av), to_nat(bv)
            r = Val("%s + %s" % (av.p(), bv.p()), av.lo + bv.lo, av.hi + bv.hi)
            r.mem = av.mem or bv.mem; r.memint = av.memint or bv.memint; r.outpos = av.outpos or bv.outpos
            return lines, r, env
        if op == "-" and av.outpos and bv.outpos and bv.lo == bv.hi == 0:
            return lines, Val(av.text, av.lo, av.hi, atom=av.atom), env       # distance of an output position from the start of the buffer
        raise Unsupported("pointer " + op)

    def ptr_or_int(self, fn, n, env):
        return self.expr(fn, n, env)

    # ---- loads: an lvalue read
    def load(self, fn, n, env):
        k = n["kind"]
        if k == "ParenExpr":
            return self.load(fn, inner(n)[0], env)
        if k == "DeclRefExpr":
            name = n["referencedDecl"]["name"]
            if name not in env.vars:
                if fn is not None and getattr(fn, "backbuf", None) and name == "digits":
                    return [], lit(fn.backbuf["cap"]), env      # std::numeric_limits<uint_T>::digits, as the member buffer's declared size says
                if name in self.consts:
                    return [], lit(self.consts[name]), env
                raise Unsupported("unknown variable " + name)
            v = env.vars[name]
            if v["name"] is None and v["kind"] not in ("out", "outbase"):
                raise Unsupported("read of uninitialised " + name)
            if v["kind"] == "out":
                r = Val(curlen(env), 0, 1 << 62, atom=True); r.outpos = True      # the cursor: as many units as were stored
                return [], r, env
            if v["kind"] == "outbase":
                r = Val("0", 0, 0, atom=True); r.outpos = True
                return [], r, env
            r = Val(v["name"], v["lo"], v["hi"], isint=v["isint"], atom=True)
            r.outpos = v["kind"] == "pos"
            r.mem = v.get("mem")
            return [], r, env
        if k == "ImplicitCastExpr" and n.get("castKind") == "NoOp":
            return self.load(fn, inner(n)[0], env)
        if k == "ConditionalOperator":      # `c ? x : y` with both branches lvalues
            c, a, b = inner(n)
            l0, cv, env = self.cond(fn, c, env)
            l1, av, _ = self.load(fn, a, env)
            l2, bv, _ = self.load(fn, b, env)
            if l1 or l2:
                raise Unsupported("side effects inside ?:")
            av, bv = same_kind(av, bv)
            return l0, Val("if %s then %s else %s" % (cv.text, av.text, bv.text), min(av.lo, bv.lo), max(av.hi, bv.hi), isint=av.isint), env
        if k == "MemberExpr":
            b = inner(n)[0]
            while b["kind"] in ("ImplicitCastExpr", "ParenExpr"):
                b = inner(b)[0]
            key = "%s.%s" % (b.get("referencedDecl", {}).get("name"), n.get("name"))
            if b["kind"] == "DeclRefExpr" and key in env.vars:
                v = env.vars[key]
                return [], Val(v["name"], v["lo"], v["hi"], isint=v["isint"], atom=True), env
            raise Unsupported("member access " + key)
        if k == "UnaryOperator" and n["opcode"] == "*":
            sub = inner(n)[0]
            lines, idx, env = self.expr(fn, sub, env)
            return self.read(fn, lines, idx, qt(n), env)
        if k == "ArraySubscriptExpr":
            base, idx = inner(n)
            key = local_elem(fn, n)
            if key is not None:
                if key not in env.vars or env.vars[key]["name"] is None:
                    raise Unsupported("read of an unset array element " + key)
                v = env.vars[key]
                return [], Val(v["name"], v["lo"], v["hi"], isint=v["isint"], atom=True), env
            l1, bv, env = self.expr(fn, base, env)
            l2, iv, env = self.expr(fn, idx, env)
            if iv.lo < 0:
                raise Unsupported("negative subscript")
            iv = to_nat(iv)
            ix = Val("%s + %s" % (bv.p(), iv.p()), bv.lo + iv.lo, bv.hi + iv.hi); ix.mem = bv.mem; ix.memint = bv.memint
            return self.read(fn, l1 + l2, ix, qt(n), env)
        raise Unsupported("load of " + k)

    def read(self, fn, lines, idx, elem_t, env):
        s, b = int_type(elem_t, self.enums)
        t = fn.fresh("t")
        if idx.memint is not None:
            lines = lines + ["let %s ← rdI %s %s" % (t, idx.mem, idx.p())]
            return lines, Val(t, idx.memint[0], idx.memint[1], isint=True, atom=True), env
        lines = lines + ["let %s ← rd%d %s %s" % (t, b, idx.mem or "mem", idx.p())]
        if s:
            if b != 8:
                raise Unsupported("read through a pointer to a signed type wider than char")
            v = Val("toChar %s" % t, -128, 127, isint=True)
            v.raw8 = t
            return lines, v, env
        return lines, Val(t, 0, (1 << b) - 1, atom=True), env

    # ---- a postfix/prefix increment used as an expression (value of a pointer / integer variable)
    def incdec_value(self, fn, n, env):
        sub = inner(n)[0]
        if sub["kind"] != "DeclRefExpr":
            raise Unsupported("++ on a non-variable")
        name = sub["referencedDecl"]["name"]
        v = env.vars[name]
        if v["kind"] == "out":
            raise Unsupported("output pointer stepped outside `*dest++ = e`")
        old = Val(v["name"], v["lo"], v["hi"], isint=v["isint"], atom=True)
        old.mem = v.get("mem")
        d = 1 if n["opcode"] == "++" else -1
        env = env.copy()
        new = fn.fresh(name)
        if d == 1:
            line = "let %s := %s + 1" % (new, v["name"])
        else:
            if v["lo"] < 1 and not v["isint"]:
                if v["kind"] != "int":
                    raise Unsupported("-- on a pointer that may be at the start of its range")
                r = self.var_range(v)      # unsigned wrap-around: 0 - 1 = 2^w - 1
                line = "let %s := (%s + %d) %% %d" % (new, v["name"], r[1], r[1] + 1)
                nv = dict(v); nv["name"] = new; nv["lo"], nv["hi"] = r
                env.vars[name] = nv
                newv = Val(new, r[0], r[1], atom=True)
                return [line], (old if n.get("isPostfix") else newv), env
            line = "let %s := %s - 1" % (new, v["name"])
        nv = dict(v); nv["name"] = new; nv["lo"] = v["lo"] + d; nv["hi"] = v["hi"] + d
        if v["kind"] == "int":
            r = self.var_range(v)
            if not (r[0] <= nv["lo"] and nv["hi"] <= r[1]):
                if v["isint"]:
                    # signed overflow is undefined: the translation faults there (Fault.overflow), the bridge shows it unreachable
                    bits = int_type(v["ctype"], self.enums)[1]
                    line = "let %s ← chkS %d (%s %s 1)" % (new, bits, v["name"], "+" if d == 1 else "-")
                    nv["lo"], nv["hi"] = max(nv["lo"], r[0]), min(nv["hi"], r[1])
                    env.vars[name] = nv
                    newv = Val(new, nv["lo"], nv["hi"], isint=True, atom=True)
                    return [line], (old if n.get("isPostfix") else newv), env
                if d != 1:
                    raise Unsupported("++/-- may leave the type's range: " + name)
                line = "let %s := (%s + 1) %% %d" % (new, v["name"], r[1] + 1)      # unsigned wrap-around
                nv["lo"], nv["hi"] = r
        env.vars[name] = nv
        newv = Val(new, nv["lo"], nv["hi"], isint=v["isint"], atom=True)
        newv.mem = v.get("mem")
        return [line], (old if n.get("isPostfix") else newv), env

    def var_range(self, v):
        return type_range(v["ctype"], self.enums)

    # the generic `expr` does not see ++ because it needs the lvalue: patch it in here
    def expr_with_incdec(self, fn, n, env):
        return self.expr(fn, n, env)

    # ---- conditions: a Val with boolean=True
    def cond(self, fn, n, env):
        lines, v, env = self.expr(fn, n, env)
        if not v.boolean:
            z = "(0 : Int)" if v.isint else "0"
            v = Val("%s ≠ %s" % (v.p(), z), 0, 1, boolean=True)
        return lines, v, env

    # ---- calls to functions translated earlier
    def call(self, fn, n, env):
        parts = inner(n)
        callee = parts[0]
        while callee["kind"] in ("ImplicitCastExpr", "ParenExpr"):
            callee = inner(callee)[0]
        if callee["kind"] != "DeclRefExpr":
            raise Unsupported("indirect call")
        name = callee["referencedDecl"]["name"]
        args = parts[1:]
        pre_lines = []
        if name in INLINE and name in self.fdecls:
            # a small helper specialised per call site: the range a `const T *` parameter points into and constant integer
            # arguments are fixed in a clone `<caller>_<callee><k>` translated from the helper's own body
            decl = self.fdecls[name][0]
            special = {}; key = []
            for a, prm in zip(args, [c for c in inner(decl) if c["kind"] == "ParmVarDecl"]):
                t = qt(prm)
                if is_pointer(t) and "const" in pointee(t):
                    l0, v0, _ = self.expr(fn, a, env)
                    special[prm["name"]] = dict(mem=v0.mem or "mem"); key.append(v0.mem or "mem")
                elif not is_pointer(t):
                    l0, v0, _ = self.expr(fn, a, env)
                    if not l0 and v0.lo == v0.hi:
                        special[prm["name"]] = dict(const=v0.lo); key.append(str(v0.lo))
            key = (name, tuple(key))
            if key not in fn.clones:
                cname = "%s_%s%d" % (fn.name, name, len(fn.clones) + 1)
                fn.clones[key] = cname
                fn.aux += self.function(name, special=special, as_name=cname)
                fn.aux.append("")
            name = fn.clones[key]
        if name not in self.sigs:
            raise Unsupported("call of a function that is not translated: " + name)
        sig = self.sigs[name]
        lines = []; texts = []; inout = []
        if len(args) != sig.get("arity", len(args)):
            raise Unsupported("call of an overload of %s that is not translated" % name)
        if sig["mem"] and not sig.get("regions"):
            texts.append(fn.mem_args if not fn.regions else "mem")
            if fn.regions:
                raise Unsupported("call of a single-range function from a function with several source ranges")
        if sig.get("regions"):
            for a, prm in zip(args, sig["params"]):
                if prm["kind"] in ("src", "srcref"):
                    _, v0, _ = self.expr(fn, a, env) if prm["kind"] == "src" else ([], Val("", 0, 0), env)
                    if prm["kind"] == "srcref":
                        x0 = a
                        while x0["kind"] in ("ImplicitCastExpr", "ParenExpr"):
                            x0 = inner(x0)[0]
                        m0 = env.vars.get(x0.get("referencedDecl", {}).get("name"), {}).get("mem")
                    else:
                        m0 = v0.mem
                    texts.append(m0 or "mem")
        if sig.get("fuel"):
            texts.append("fuel"); fn.needs_fuel = True
        for a, p in zip(args, sig["params"]):
            if p["kind"] == "omitted":
                continue
            if p["kind"] == "ev":
                continue
            if p["kind"] == "struct":
                x0 = a
                while x0["kind"] in ("ImplicitCastExpr", "ParenExpr"):
                    x0 = inner(x0)[0]
                sn = x0.get("referencedDecl", {}).get("name")
                for f0 in p["fields"]:
                    key = "%s.%s" % (sn, f0)
                    if key not in env.vars:
                        raise Unsupported("structure argument whose field %s the caller does not have" % f0)
                    texts.append(env.vars[key]["name"])
                continue
            if p["kind"] == "out":
                if p.get("nullflag"):
                    x0 = a
                    while x0["kind"] in ("ImplicitCastExpr", "ParenExpr"):
                        x0 = inner(x0)[0]
                    texts.append(env.vars.get(x0.get("referencedDecl", {}).get("name"), {}).get("nullflag") or "false")
                x = a
                while x["kind"] in ("ImplicitCastExpr", "ParenExpr"):
                    x = inner(x)[0]
                if not (p.get("ref") and x["kind"] == "DeclRefExpr" and env.vars.get(x["referencedDecl"]["name"], {}).get("kind") == "out"):
                    raise Unsupported("call passing the output pointer other than by reference")
                continue
            if p["kind"] == "srcref":
                if a["kind"] != "DeclRefExpr":
                    raise Unsupported("reference argument is not a variable")
                vn = a["referencedDecl"]["name"]
                texts.append(env.vars[vn]["name"]); inout.append(vn)
                continue
            l, v, env = self.expr(fn, a, env)
            lines += l
            v = to_int(v) if p["isint"] else to_nat(v)
            texts.append(v.p())
            if p.get("nullflag"):
                x = a
                while x["kind"] in ("ImplicitCastExpr", "ParenExpr"):
                    x = inner(x)[0]
                flag = env.vars.get(x.get("referencedDecl", {}).get("name"), {}).get("nullflag") if x["kind"] == "DeclRefExpr" else None
                if not flag:
                    raise Unsupported("a pointer that the callee tests for null is not a parameter of the caller")
                texts.append(flag)
        r = fn.fresh("r")
        names = []
        if sig["ret"] is not None:
            names.append(r)
        env = env.copy()
        for vn in inout:
            nn = fn.fresh(vn); names.append(nn)
            nv = dict(env.vars[vn]); nv["name"] = nn; nv["hi"] = nv["hi"] + sig.get("advance", 4); env.vars[vn] = nv
        us = None
        if sig["out"]:
            us = fn.fresh("us"); names.append(us)
        evs = None
        if sig.get("ev"):
            if not fn.has_ev:
                raise Unsupported("call of a function that writes to a sink the caller does not have")
            evs = fn.fresh("evs"); names.append(evs)
        pat = names[0] if len(names) == 1 else "(" + ", ".join(names) + ")"
        lines.append("let %s ← %s %s" % (pat, name, " ".join(texts)))
        if us:
            if env.pending is not None:
                raise Unsupported("output written while a block copy is pending")
            no = fn.fresh("out")
            lines.append("let %s := %s ++ %s" % (no, env.out, us))
            env.out = no
        if evs:
            ne = fn.fresh("ev")
            lines.append("let %s := %s ++ %s" % (ne, env.ev, evs))
            env.ev = ne
        if sig["ret"] is None:
            return lines, None, env
        if sig["ret"] == "ptr":
            raise Unsupported("call of a function that returns a pointer")
        lo, hi, isint = sig["ret"]
        return lines, Val(r, lo, hi, isint=isint, atom=True), env

    # ------------------------------------------------------------------------- statements
    # every handler returns the do-block lines for "this statement, then k(env)"
    def block(self, fn, stmts, env, k, ind):
        if not stmts:
            return k(env, ind)
        s, rest = stmts[0], stmts[1:]
        return self.stmt(fn, s, env, lambda e, i: self.block(fn, rest, e, k, i), ind)

    def stmt(self, fn, s, env, k, ind):
        kind = s["kind"]
        pad = "  " * ind
        if kind == "CompoundStmt":
            return self.block(fn, inner(s), env, k, ind)
        if kind == "NullStmt":
            return k(env, ind)
        if kind == "DeclStmt":
            lines = []
            for d in inner(s):
                if d["kind"] == "StaticAssertDecl":
                    continue
                if d["kind"] != "VarDecl":
                    raise Unsupported("declaration " + d["kind"])
                if inner(d) and inner(d)[0]["kind"] == "InitListExpr" and re.search(r"\[\d+\]$", strip_cv(qt(d))):
                    elems = inner(inner(d)[0])
                    if "const" in qt(d):
                        vals = []
                        for e in elems:
                            l0, v0, _ = self.expr(fn, e, env)
                            if l0 or v0.lo != v0.hi:
                                raise Unsupported("table entry is not a constant")
                            vals.append(v0.lo)
                        fn.arrays[d["name"]] = vals; fn.int_tables.add(d["name"])
                        fn.aux += ["/-- the table `%s` of `%s` -/" % (d["name"], fn.name),
                                   "def %s_%s : List Int := [%s]" % (fn.name, d["name"], ", ".join(str(b) for b in vals)), ""]
                        continue
                    # a small local array: one variable per element, in initialiser order
                    fn.local_arrays.add(d["name"])
                    et = strip_cv(qt(d)); et = et[:et.index("[")].strip()
                    for i, e in enumerate(elems):
                        l0, v0, env = self.expr(fn, e, env)
                        lines += [pad + x for x in l0]
                        v0 = self.convert(v0, et)
                        it0 = int_type(et, self.enums)
                        v0 = to_int(v0) if it0[0] else to_nat(v0)
                        nn = fn.fresh("%s_%d" % (d["name"], i))
                        env = env.copy()
                        env.vars["%s[%d]" % (d["name"], i)] = dict(name=nn, lo=v0.lo, hi=v0.hi, isint=it0[0], kind="int", ctype=et)
                        lines.append(pad + "let %s := %s" % (nn, v0.text))
                    continue
                if inner(d) and inner(d)[0]["kind"] == "StringLiteral" and "const" in qt(d) and re.search(r"\[\d+\]$", strip_cv(qt(d))):
                    fn.arrays[d["name"]] = c_string_bytes(inner(d)[0]["value"])      # a constant table local to the function
                    fn.aux += ["/-- the table `%s` of `%s` (with its terminating NUL) -/" % (d["name"], fn.name),
                               "def %s_%s : List Nat := [%s]" % (fn.name, d["name"], ", ".join(str(b) for b in fn.arrays[d["name"]])), ""]
                    continue
                l, env = self.vardecl(fn, d, env)
                lines += [pad + x for x in l]
            return lines + k(env, ind)
        if kind == "ReturnStmt":
            if env.pending is not None:
                raise Unsupported("return while a block copy is pending")
            sub = inner(s)
            if sub and fn.ret == "ptr":
                x = sub[0]
                while x["kind"] in ("ImplicitCastExpr", "ParenExpr"):
                    if x["kind"] == "ImplicitCastExpr" and x.get("castKind") == "NullToPointer":
                        break
                    x = inner(x)[0]
                if x.get("castKind") == "NullToPointer" or x["kind"] == "CXXNullPtrLiteralExpr":
                    l, v = [], Val("(none : Option Nat)", 0, 0, atom=True)
                else:
                    l, v, env = self.expr(fn, sub[0], env)
                    v = Val("(some %s)" % to_nat(v).p(), 0, 0, atom=True)
            elif sub:
                l, v, env = self.expr(fn, sub[0], env)
                v = self.convert(v, fn.ret_t)
                v = to_int(v) if fn.ret[2] else to_nat(v)
            else:
                l, v = [], None
            return [pad + x for x in l] + [pad + "pure " + self.result_tuple(fn, env, v)]
        if kind == "IfStmt":
            parts = inner(s)
            c = parts[0]; th = parts[1]; el = parts[2] if len(parts) > 2 else None
            then_k = lambda e, i: self.stmt(fn, th, e, k, i)
            else_k = (lambda e, i: self.stmt(fn, el, e, k, i)) if el is not None else k
            return self.cond_tree(fn, c, env, then_k, else_k, ind)
        if kind == "DoStmt":
            body, c = inner(s)
            x = c
            while x["kind"] in ("ImplicitCastExpr", "ParenExpr"):
                x = inner(x)[0]
            if (x["kind"] == "IntegerLiteral" and int(x["value"]) == 0) or (x["kind"] == "CXXBoolLiteralExpr" and not x["value"]):
                if has_kind(body, ("BreakStmt", "ContinueStmt")):
                    raise Unsupported("break/continue inside do { } while (0)")
                return self.stmt(fn, body, env, k, ind)       # runs exactly once
            raise Unsupported("do-while loop")
        if kind in ("WhileStmt", "ForStmt"):
            return self.loop(fn, s, env, k, ind)
        if kind == "ContinueStmt":
            if not fn.loopctx:
                raise Unsupported("continue outside a loop")
            return fn.loopctx[-1][0](env, ind)
        if kind == "BreakStmt":
            if not fn.loopctx:
                raise Unsupported("break outside a loop")
            return fn.loopctx[-1][1](env, ind)
        if kind == "CallExpr" and callee_name(s) == "assert_handler":
            msg = [a for a in inner(s)[1:]][-1]
            while msg["kind"] in ("ImplicitCastExpr", "ParenExpr"):
                msg = inner(msg)[0]
            text = bytes(c_string_bytes(msg["value"])[:-1]).decode("ascii", "replace").replace('"', "'")
            return [pad + 'throw (Fault.assertFail "%s")' % text]
        if kind == "SwitchStmt":
            return self.switch(fn, s, env, k, ind)
        # expression statements
        l, env = self.effect(fn, s, env)
        return [pad + x for x in l] + k(env, ind)

    def result_tuple(self, fn, env, v):
        parts = []
        if fn.ret is not None:
            if v is None:
                raise Unsupported("return without a value")
            parts.append(v.text)
        for pn in fn.inouts:
            parts.append(env.vars[pn]["name"])
        if fn.has_out:
            parts.append(env.out)
        if fn.has_ev:
            parts.append(env.ev)
        if fn.backbuf:
            if env.bpend or env.bout is None:
                raise Unsupported("return with the member cursor in an unexpected state")
            parts.append(env.bout)
        if not parts:
            return "()"
        return "(" + ", ".join(parts) + ")" if len(parts) > 1 else parts[0] if v is None or v.atom else "(" + parts[0] + ")"

    def vardecl(self, fn, d, env):
        name = d["name"]; t = qt(d)
        env = env.copy()
        init = [c for c in inner(d)]
        if is_pointer(t):
            if not init:
                raise Unsupported("uninitialised pointer " + name)
            l, v, env = self.expr(fn, init[0], env)
            if v.outpos:
                if name in fn.cursors:
                    if v.text != curlen(env):
                        raise Unsupported("an output cursor that does not start at the current end of the output")
                    env.vars[name] = dict(name=None, lo=0, hi=0, isint=False, kind="out", ctype=t)
                    return l, env
                nn = fn.fresh(name)
                env.vars[name] = dict(name=nn, lo=v.lo, hi=v.hi, isint=False, kind="pos", ctype=t)
                return l + ["let %s := %s" % (nn, v.text)], env
            nn = fn.fresh(name)
            env.vars[name] = dict(name=nn, lo=v.lo, hi=v.hi, isint=False, kind="src", ctype=t, mem=v.mem)
            return l + ["let %s := %s" % (nn, v.text)], env
        it = int_type(t, self.enums)
        if it is None:
            raise Unsupported("local of type " + t)
        if not init:
            env.vars[name] = dict(name=None, lo=0, hi=0, isint=it[0], kind="int", ctype=t)
            return [], env
        l, v, env = self.expr(fn, init[0], env)
        v = self.convert(v, t)
        v = to_int(v) if it[0] else to_nat(v)
        nn = fn.fresh(name)
        env = env.copy()
        env.vars[name] = dict(name=nn, lo=v.lo, hi=v.hi, isint=it[0], kind="int", ctype=t)
        return l + ["let %s := %s" % (nn, v.text)], env

    def assign(self, fn, name, v, env):
        var = env.vars[name]
        if var["kind"] == "int":
            v = self.convert(v, var["ctype"])
            v = to_int(v) if var["isint"] else to_nat(v)
        nn = fn.fresh(name)
        env = env.copy()
        nv = dict(var); nv.update(name=nn, lo=v.lo, hi=v.hi)
        env.vars[name] = nv
        return ["let %s := %s" % (nn, v.text)], env

    def is_out_store(self, lhs, env):
        """`*dest++` with dest the output pointer"""
        n = lhs
        while n["kind"] == "ParenExpr":
            n = inner(n)[0]
        if n["kind"] == "UnaryOperator" and n["opcode"] == "*":
            m = inner(n)[0]
            if m["kind"] == "UnaryOperator" and m["opcode"] == "++" and m.get("isPostfix"):
                r = inner(m)[0]
                if r["kind"] == "DeclRefExpr" and env.vars.get(r["referencedDecl"]["name"], {}).get("kind") == "out":
                    return qt(n)
        return None

    def effect(self, fn, s, env):
        kind = s["kind"]
        if kind in ("ParenExpr", "ExprWithCleanups"):
            return self.effect(fn, inner(s)[0], env)
        def member_of_this(x, name=None):
            while x.get("kind") in ("ParenExpr", "ImplicitCastExpr"):
                x = inner(x)[0]
            if x.get("kind") == "MemberExpr" and inner(x) and inner(x)[0].get("kind") == "CXXThisExpr":
                return x.get("name") if name is None else (x.get("name") == name)
            return None if name is None else False
        if fn.backbuf and kind == "UnaryOperator" and s["opcode"] == "--" and not s.get("isPostfix") and member_of_this(inner(s)[0], fn.backbuf["cursor"]):
            if env.bpend:
                raise Unsupported("the member cursor stepped twice without a store")
            env = env.copy(); env.bpend = True
            return [], env
        if fn.backbuf and kind == "BinaryOperator" and s["opcode"] == "=":
            lhs, rhs = inner(s)
            x = lhs
            while x["kind"] == "ParenExpr":
                x = inner(x)[0]
            cap = fn.backbuf["cap"]
            # m_buffer[digits] = 0 : the terminator behind the text
            if x["kind"] == "ArraySubscriptExpr" and member_of_this(inner(x)[0], fn.backbuf["buffer"]):
                l0, iv, _ = self.expr(fn, inner(x)[1], env)
                l1, tv, _ = self.expr(fn, rhs, env)
                if l0 or l1 or iv.lo != iv.hi or iv.lo != cap or tv.lo != 0 or tv.hi != 0:
                    raise Unsupported("store into the member buffer other than the terminator at its end")
                return [], env
            # m_start = &m_buffer[digits] : the cursor at the end, nothing written yet
            if member_of_this(x, fn.backbuf["cursor"]):
                y = rhs
                while y["kind"] in ("ParenExpr", "ImplicitCastExpr"):
                    y = inner(y)[0]
                ok = y["kind"] == "UnaryOperator" and y["opcode"] == "&"
                z = inner(y)[0] if ok else {}
                if ok and z.get("kind") == "ArraySubscriptExpr" and member_of_this(inner(z)[0], fn.backbuf["buffer"]):
                    l0, iv, _ = self.expr(fn, inner(z)[1], env)
                    if not l0 and iv.lo == iv.hi == cap:
                        env = env.copy(); env.bout = "([] : List Nat)"; env.bpend = False
                        return [], env
                raise Unsupported("the member cursor set other than to the end of the member buffer")
            # *--m_start = e   /   (--m_start; ...) *m_start = e
            if x["kind"] == "UnaryOperator" and x["opcode"] == "*":
                y = inner(x)[0]
                while y["kind"] in ("ParenExpr", "ImplicitCastExpr"):
                    y = inner(y)[0]
                pre = y["kind"] == "UnaryOperator" and y["opcode"] == "--" and not y.get("isPostfix") and member_of_this(inner(y)[0], fn.backbuf["cursor"])
                plain = member_of_this(y, fn.backbuf["cursor"])
                if (pre and not env.bpend) or (plain and env.bpend):
                    if env.bout is None:
                        raise Unsupported("store through the member cursor before it was set")
                    while rhs["kind"] in ("ImplicitCastExpr", "ParenExpr") and (rhs["kind"] == "ParenExpr" or (rhs.get("castKind") in ("IntegralCast", "NoOp") and strip_cv(qt(rhs)) == "char")):
                        rhs = inner(rhs)[0]
                    l, v, env = self.expr(fn, rhs, env)
                    if v.lo < 0 or v.hi > 255:
                        v = self.convert(v, "unsigned char")
                    v = to_nat(v)
                    nb = fn.fresh("text"); env = env.copy()
                    l = l + ["let %s ← pushFront %d %s %s" % (nb, cap, v.p(), env.bout)]
                    env.bout = nb; env.bpend = False
                    return l, env
                raise Unsupported("store through the member cursor in an unexpected state")
        if kind == "BinaryOperator" and s["opcode"] == "=":
            lhs, rhs = inner(s)
            et = self.is_out_store(lhs, env)
            if et is not None:
                # the stored unit is the bit pattern: a conversion to the (possibly signed) element type
                # followed by reading it as unsigned is the conversion to the unsigned type of that width
                while rhs["kind"] in ("ImplicitCastExpr", "CXXStaticCastExpr", "CStyleCastExpr", "ParenExpr") and \
                        (rhs["kind"] == "ParenExpr" or (rhs.get("castKind") in ("IntegralCast", "NoOp") and strip_cv(qt(rhs)) == strip_cv(et))):
                    rhs = inner(rhs)[0]
                l, v, env = self.expr(fn, rhs, env)
                if env.pending is not None:
                    raise Unsupported("output written while a block copy is pending")
                sgn, b = int_type(et, self.enums)
                if v.raw8 and b == 8:
                    v = Val(v.raw8, 0, 255, atom=True)
                # the stored unit is reported as the unsigned value of its bit pattern
                if v.boolean or v.lo < 0 or v.hi >= (1 << b):
                    v = self.convert(v, {8: "unsigned char", 16: "char16_t", 32: "char32_t"}[b])
                v = to_nat(v)
                if env.outbits not in (None, b):
                    raise Unsupported("two output widths")
                no = fn.fresh("out")
                env = env.copy()
                line = "let %s := %s ++ [%s]" % (no, env.out, v.text)
                env.out = no; env.outbits = b
                return l + [line], env
            if lhs["kind"] == "DeclRefExpr":
                l, v, env = self.expr(fn, rhs, env)
                l2, env = self.assign(fn, lhs["referencedDecl"]["name"], v, env)
                return l + l2, env
            raise Unsupported("assignment to " + lhs["kind"])
        if kind == "CompoundAssignOperator":
            lhs, rhs = inner(s)
            if lhs["kind"] != "DeclRefExpr":
                raise Unsupported("compound assignment to " + lhs["kind"])
            name = lhs["referencedDecl"]["name"]
            var = env.vars[name]
            if var["kind"] == "out":
                l, rv, env = self.expr(fn, rhs, env)
                if s["opcode"] != "+=" or l or rv.lo != rv.hi or env.pending is None or len(env.pending) != rv.lo:
                    raise Unsupported("output pointer moved other than over a block just copied")
                no = fn.fresh("out"); env = env.copy()
                line = "let %s := %s ++ [%s]" % (no, env.out, ", ".join(str(b) for b in env.pending))
                env.out = no; env.pending = None
                return [line], env
            if var["name"] is None:
                raise Unsupported("read of uninitialised " + name)
            op = s["opcode"][:-1]
            cur = Val(var["name"], var["lo"], var["hi"], isint=var["isint"], atom=True)
            l, rv, env = self.expr(fn, rhs, env)
            if var["kind"] == "src":
                if op != "+" or rv.lo < 0:
                    raise Unsupported("pointer " + s["opcode"])
                v = Val("%s + %s" % (cur.p(), rv.p()), cur.lo + rv.lo, cur.hi + rv.hi)
            else:
                ct = s.get("computeResultType", {}).get("qualType") or var["ctype"]
                cur = self.convert(cur, ct)
                it_ct = int_type(ct, self.enums)
                if op in ("/", "%") and it_ct and not it_ct[0]:
                    cur = to_nat(cur); rv = to_nat(self.convert(rv, ct))
                    if rv.lo == 0 and rv.hi > 0:
                        dn = fn.fresh("d")
                        l = l + ["let %s ← chkNZ %s" % (dn, rv.p())]
                        rv = Val(dn, 1, rv.hi, atom=True)
                    if rv.lo <= 0:
                        raise Unsupported("/= by a possibly zero value")
                    v = Val("%s %s %s" % (cur.p(), op, rv.p()), 0, cur.hi) if op == "/" else Val("%s %% %s" % (cur.p(), rv.p()), 0, min(cur.hi, rv.hi - 1))
                    l2, env = self.assign(fn, name, v, env)
                    return l + l2, env
                if it_ct and it_ct[0] and op in ("+", "-"):
                    # signed compound assignment: checked (a fault where C++ leaves the behaviour undefined)
                    a2, b2 = to_int(cur), to_int(rv)
                    lo2, hi2 = (a2.lo + b2.lo, a2.hi + b2.hi) if op == "+" else (a2.lo - b2.hi, a2.hi - b2.lo)
                    rlo, rhi = -(1 << (it_ct[1] - 1)), (1 << (it_ct[1] - 1)) - 1
                    if not (rlo <= lo2 and hi2 <= rhi):
                        tmp = fn.fresh(name)
                        l = l + ["let %s ← chkS %d (%s %s %s)" % (tmp, it_ct[1], a2.p(), op, b2.p())]
                        v = Val(tmp, max(lo2, rlo), min(hi2, rhi), isint=True, atom=True)
                        l2, env = self.assign(fn, name, v, env)
                        return l + l2, env
                v = self.arith(op, cur, rv, ct)
            l2, env = self.assign(fn, name, v, env)
            return l + l2, env
        if kind == "UnaryOperator" and s["opcode"] in ("++", "--"):
            l, _, env = self.incdec_value(fn, s, env)
            return l, env
        if kind == "CXXMemberCallExpr":
            me = inner(s)[0]
            obj = inner(me)[0] if me.get("kind") == "MemberExpr" else {}
            while obj.get("kind") in ("ImplicitCastExpr", "ParenExpr"):
                obj = inner(obj)[0]
            var = env.vars.get(obj.get("referencedDecl", {}).get("name")) if obj.get("kind") == "DeclRefExpr" else None
            if not (var and var["kind"] == "ev"):
                raise Unsupported("member call statement")
            args = inner(s)[1:]
            lines = []
            if me.get("name") == "append_char" and len(args) == 2:
                l, cv, env = self.expr(fn, args[0], env); lines += l
                cv = self.convert(cv, "unsigned char") if (cv.lo < 0 or cv.hi > 255) else cv      # the byte the sink receives
                cv = to_nat(cv)
                if args[1]["kind"] == "CXXDefaultArgExpr":
                    nv = lit(1)                              # `size_t count = 1`
                else:
                    l, nv, env = self.expr(fn, args[1], env); lines += l; nv = to_nat(nv)
                item = "Ev.appendChar %s %s" % (cv.p(), nv.p())
            elif me.get("name") == "append" and len(args) == 2:
                d0 = args[0]
                while d0["kind"] in ("ImplicitCastExpr", "ParenExpr"):
                    d0 = inner(d0)[0]
                l, nv, env = self.expr(fn, args[1], env); lines += l; nv = to_nat(nv)
                if d0["kind"] == "StringLiteral":
                    bs = c_string_bytes(d0["value"])
                    if nv.lo != nv.hi or nv.lo > len(bs):
                        raise Unsupported("append of a literal with a size that is not a constant within it")
                    item = "Ev.append [%s]" % ", ".join(str(b) for b in bs[:nv.lo])
                else:
                    l, pv, env = self.expr(fn, args[0], env); lines += l
                    t = fn.fresh("bs")
                    lines.append("let %s ← rdRange %s %s %s" % (t, pv.mem or "mem", pv.p(), nv.p()))
                    item = "Ev.append %s" % t
            else:
                raise Unsupported("sink call " + str(me.get("name")))
            ne = fn.fresh("ev"); env = env.copy()
            lines.append("let %s := %s ++ [%s]" % (ne, env.ev, item))
            env.ev = ne
            return lines, env
        if kind == "CallExpr" and callee_name(s) == "copy":
            args = inner(s)[1:]
            d, src, cnt = args
            while d["kind"] in ("ImplicitCastExpr", "ParenExpr"):
                d = inner(d)[0]
            while src["kind"] in ("ImplicitCastExpr", "ParenExpr"):
                src = inner(src)[0]
            l, cv, env = self.expr(fn, cnt, env)
            if not (d["kind"] == "DeclRefExpr" and env.vars.get(d["referencedDecl"]["name"], {}).get("kind") == "out"
                    and not l and cv.lo == cv.hi and env.pending is None):
                raise Unsupported("char_traits::copy other than (output position, source, constant count)")
            if src["kind"] == "DeclRefExpr" and src["referencedDecl"]["name"] in self.arrays:
                if cv.lo > len(self.arrays[src["referencedDecl"]["name"]]):
                    raise Unsupported("copy past the end of a constant array")
                env = env.copy(); env.pending = self.arrays[src["referencedDecl"]["name"]][:cv.lo]
                return [], env
            # a block of `count` units read from a source range
            ls, sv, env = self.expr(fn, args[1], env)
            names = []
            for i in range(cv.lo):
                ix = Val("%s + %d" % (sv.p(), i), sv.lo + i, sv.hi + i) if i else sv
                ix.mem = sv.mem
                lr, tv, env = self.read(fn, [], ix, "unsigned char", env)
                ls += lr; names.append(tv.text)
            env = env.copy(); env.pending = names
            return ls, env
        if kind == "CallExpr":
            l, _, env = self.call(fn, s, env)
            return l, env
        if kind == "ImplicitCastExpr" or kind == "CStyleCastExpr":
            return self.effect(fn, inner(s)[0], env)
        raise Unsupported("statement " + kind)

    def arith(self, op, av, bv, t):
        """binary arithmetic on two translated values in C++ type t (used by compound assignment)"""
        fake = {"opcode": op}
        if op == "+":
            av, bv = same_kind(av, bv)
            return self.signed_result(Val("%s + %s" % (av.p(), bv.p()), av.lo + bv.lo, av.hi + bv.hi, isint=av.isint), t)
        if op == "-":
            lo, hi = av.lo - bv.hi, av.hi - bv.lo
            if lo >= 0 and not (av.isint or bv.isint):
                return Val("%s - %s" % (av.p(), bv.p()), lo, hi)
            av, bv = to_int(av), to_int(bv)
            return self.signed_result(Val("%s - %s" % (av.p(), bv.p()), lo, hi, isint=True), t)
        if op in ("&", "|", "^"):
            if av.lo < 0 or bv.lo < 0:
                raise Unsupported("bit operator on a possibly negative value")
            sym = {"&": "&&&", "|": "|||", "^": "^^^"}[op]
            av, bv = to_nat(av), to_nat(bv)
            hi = min(av.hi, bv.hi) if op == "&" else pow2ceil(max(av.hi, bv.hi)) - 1
            return Val("%s %s %s" % (av.p(), sym, bv.p()), 0, hi)
        raise Unsupported("compound " + op)

    # ---- conditions of if statements: a decision tree in short-circuit order
    def cond_tree(self, fn, c, env, then_k, else_k, ind):
        n = c
        while n["kind"] in ("ParenExpr", "ExprWithCleanups"):
            n = inner(n)[0]
        if n["kind"] == "BinaryOperator" and n["opcode"] == "||":
            a, b = inner(n)
            return self.cond_tree(fn, a, env, then_k, lambda e, i: self.cond_tree(fn, b, e, then_k, else_k, i), ind)
        if n["kind"] == "BinaryOperator" and n["opcode"] == "&&":
            a, b = inner(n)
            return self.cond_tree(fn, a, env, lambda e, i: self.cond_tree(fn, b, e, then_k, else_k, i), else_k, ind)
        if n["kind"] == "UnaryOperator" and n["opcode"] == "!":
            return self.cond_tree(fn, inner(n)[0], env, else_k, then_k, ind)
        pad = "  " * ind
        l, v, env = self.cond(fn, n, env)
        self.cur_fn = fn
        et = self.refine(n, env, True); ee = self.refine(n, env, False)
        return ([pad + x for x in l] + [pad + "if %s then" % v.text] + then_k(et, ind + 1)
                + [pad + "else"] + else_k(ee, ind + 1))

    def refine(self, n, env, truth):
        """narrow the interval of a plain variable compared with a literal"""
        def strip(x):
            while x["kind"] in ("ParenExpr", "ImplicitCastExpr", "ConstantExpr") and (x["kind"] != "ImplicitCastExpr" or x.get("castKind") in ("IntegralCast", "LValueToRValue", "NoOp")):
                x = inner(x)[0]
            return x
        if n["kind"] == "ImplicitCastExpr" and n.get("castKind") == "IntegralToBoolean":
            x = strip(inner(n)[0])
            if x["kind"] == "DeclRefExpr" and env.vars.get(x["referencedDecl"].get("name"), {}).get("kind") == "int":
                env = env.copy(); v = env.vars[x["referencedDecl"]["name"]]
                if truth:
                    if v["lo"] == 0: v["lo"] = 1
                else:
                    v["lo"] = max(v["lo"], 0); v["hi"] = min(v["hi"], 0)
            return env
        if n["kind"] != "BinaryOperator" or n["opcode"] not in ("<", ">", "<=", ">=", "==", "!="):
            return env
        a, b = [strip(x) for x in inner(n)]
        op = n["opcode"]
        if a["kind"] in ("IntegerLiteral", "CharacterLiteral") and b["kind"] == "DeclRefExpr":
            a, b = b, a
            op = {"<": ">", ">": "<", "<=": ">=", ">=": "<=", "==": "==", "!=": "!="}[op]
        if a["kind"] == "ArraySubscriptExpr" and b["kind"] in ("IntegerLiteral", "CharacterLiteral") and local_elem(self.cur_fn, a):
            name = local_elem(self.cur_fn, a)
        elif not (a["kind"] == "DeclRefExpr" and b["kind"] in ("IntegerLiteral", "CharacterLiteral")):
            return env
        else:
            name = a["referencedDecl"].get("name")
        if name not in env.vars or env.vars[name]["kind"] != "int":
            return env
        c = int(b["value"])
        if not truth:
            op = {"<": ">=", ">": "<=", "<=": ">", ">=": "<", "==": "!=", "!=": "=="}[op]
        env = env.copy(); v = env.vars[name]
        if op == "<": v["hi"] = min(v["hi"], c - 1)
        elif op == "<=": v["hi"] = min(v["hi"], c)
        elif op == ">": v["lo"] = max(v["lo"], c + 1)
        elif op == ">=": v["lo"] = max(v["lo"], c)
        elif op == "==": v["lo"] = max(v["lo"], c); v["hi"] = min(v["hi"], c)
        return env

    def loop(self, fn, s, env, k, ind):
        """`while (c) body` / `for (init; c; inc) body`  ->  a recursive function over the fuel; the statements after the
        loop become its exit branch, so an early `return` in the body is simply a result"""
        pad = "  " * ind
        parts = s.get("inner", [])
        if s["kind"] == "WhileStmt":
            parts = inner(s)
            cond, body = parts[-2], parts[-1]; init = None; inc = None
        else:
            # clang: [init, condition variable, cond, inc, body]; absent parts are empty objects
            raw = s["inner"]
            init, _cv, cond, inc, body = raw
            init = init if init.get("kind") else None
            inc = inc if inc.get("kind") else None
            if not cond.get("kind"):
                raise Unsupported("for loop without a condition")
        pre = []
        if init is not None:
            if init["kind"] == "DeclStmt":
                for d in inner(init):
                    l, env = self.vardecl(fn, d, env)
                    pre += [pad + x for x in l]
            else:
                l, env = self.effect(fn, init, env)
                pre += [pad + x for x in l]
        if env.pending is not None:
            raise Unsupported("loop entered while a block copy is pending")
        if fn.has_ev:
            raise Unsupported("loop in a function that writes to a sink")
        fn.loops += 1; fn.needs_fuel = True
        lname = "%s_loop%d" % (fn.name, fn.loops)
        mod = assigned_vars(body, set()) | (assigned_vars(inc, set()) if inc is not None else set()) | assigned_vars(cond, set())
        live = [(c, v) for c, v in env.vars.items() if v["kind"] not in ("out", "outbase", "ststring") and v["name"] is not None]
        live += [(c + "#size", dict(name=v["size"], isint=False, kind="int")) for c, v in env.vars.items() if v["kind"] == "ststring"]
        carried = [(c, v) for c, v in live if c in mod]
        fixed = [(c, v) for c, v in live if c not in mod]
        flags = [v["nullflag"] for c, v in env.vars.items() if v.get("nullflag")]
        has_out = fn.has_out
        # inside the loop function the carried variables have the full range of their types
        lenv = env.copy()
        for c, v in carried:
            nv = lenv.vars[c]
            if nv["kind"] == "int":
                nv["lo"], nv["hi"] = type_range(nv["ctype"], self.enums)
            else:
                nv["lo"], nv["hi"] = 0, 1 << 62
        for c, v in lenv.vars.items():      # a variable declared before the loop but first assigned inside it
            if v["name"] is None and v["kind"] == "int" and c in mod:
                raise Unsupported("variable first assigned inside a loop and used after it: " + c)
        out0 = env.out
        if has_out:
            lenv.out = "out"
        def ty(v):
            return "Int" if v["isint"] else "Nat"
        fixed_b = " ".join("(%s : %s)" % (v["name"], ty(v)) for c, v in fixed) + "".join(" (%s : Bool)" % f for f in flags)
        has_b = fn.backbuf is not None
        if has_b:
            if env.bpend or env.bout is None:
                raise Unsupported("loop entered with the member cursor in an unexpected state")
            bout0 = env.bout; lenv.bout = "text"
        carried_names = [v["name"] for c, v in carried] + (["out"] if has_out else []) + (["text"] if has_b else [])
        carried_tys = [ty(v) for c, v in carried] + (["List Nat"] if has_out else []) + (["List Nat"] if has_b else [])
        def recur(e, i):
            if e.pending is not None:
                raise Unsupported("loop iteration ends while a block copy is pending")
            if has_b and e.bpend:
                raise Unsupported("loop iteration ends with the member cursor stepped but nothing stored")
            args = [e.vars[c]["name"] for c, v in carried] + ([e.out] if has_out else []) + ([e.bout] if has_b else [])
            return ["  " * i + "%s %s %s fuel %s" % (lname, fn.mem_args, " ".join([v["name"] for c, v in fixed] + flags), " ".join(args))]
        def after_body(e, i):
            if inc is None:
                return recur(e, i)
            l, e2 = self.effect(fn, inc, e)
            return ["  " * i + x for x in l] + recur(e2, i)
        fn.loopctx.append((after_body, lambda e, i: k(e, i)))
        try:
            body_lines = self.cond_tree(fn, cond, lenv, lambda e, i: self.stmt(fn, body, e, after_body, i), lambda e, i: k(e, i), 2)
        finally:
            fn.loopctx.pop()
        sig = "def %s %s %s : Nat → %s → M (%s)" % (lname, fn.mem_binders, fixed_b, " → ".join(carried_tys) if carried_tys else "Unit", "%RTY%")
        pats = ", ".join(carried_names) if carried_names else "_"
        fn.aux += [sig,
                   "  | 0, %s => throw Fault.fuel" % ", ".join("_" for _ in (carried_names or ["_"])),
                   "  | fuel + 1, %s => do" % pats] + body_lines + [""]
        args = [v["name"] for c, v in carried] + ([out0] if has_out else []) + ([bout0] if has_b else [])
        if not carried_names:
            args = ["()"]
        return pre + [pad + "%s %s %s fuel %s" % (lname, fn.mem_args, " ".join([v["name"] for c, v in fixed] + flags), " ".join(args))]
    def switch(self, fn, s, env, k, ind):
        """`switch (v) { case c: ...; break; ... default: ...; break; }` without fall-through -> an if-chain on v"""
        parts = inner(s)
        cond, body = parts[-2], parts[-1]
        if body["kind"] != "CompoundStmt":
            raise Unsupported("switch body")
        sections = []      # (list of case constants or None for default, statements)
        for c in inner(body):
            if c["kind"] in ("CaseStmt", "DefaultStmt"):
                labels = []; node = c
                while node["kind"] in ("CaseStmt", "DefaultStmt"):      # `case 1: case 2: stmt`
                    if node["kind"] == "CaseStmt":
                        ce = inner(node)[0]
                        l0, cv, _ = self.expr(fn, ce, env)
                        if l0 or cv.lo != cv.hi:
                            raise Unsupported("case label is not a constant")
                        labels.append(cv.lo); node = inner(node)[1]
                    else:
                        labels.append(None); node = inner(node)[0]
                sections.append((labels, [node]))
            else:
                if not sections:
                    raise Unsupported("statement before the first case label")
                sections[-1][1].append(c)
        for labels, stmts in sections:
            if not stmts or stmts[-1]["kind"] not in ("BreakStmt", "ReturnStmt"):
                raise Unsupported("switch section falls through")
        pad = "  " * ind
        l, v, env = self.expr(fn, cond, env)
        lines = [pad + x for x in l]
        default = [st for lb, st in sections if None in lb]
        cases = [(lb, st) for lb, st in sections if None not in lb]
        def section(stmts):
            body = stmts[:-1] if stmts[-1]["kind"] == "BreakStmt" else stmts
            if any(has_kind(x, ("BreakStmt",)) for x in body):
                raise Unsupported("break inside a switch section other than at its end")
            return lambda e, i: self.block(fn, body, e, k, i)
        def chain(rest, e, i):
            if not rest:
                return section(default[0])(e, i) if default else k(e, i)
            (lb, st) = rest[0]
            p = "  " * i
            test = " ∨ ".join("%s = %s" % (v.p(), lit(c).text if not v.isint else "(%d : Int)" % c) for c in lb)
            e_then = e
            return [p + "if %s then" % test] + section(st)(e_then, i + 1) + [p + "else"] + chain(rest[1:], e, i + 1)
        return lines + chain(cases, env, ind)

    # ------------------------------------------------------------------------- functions
    def function(self, name, special=None, as_name=None):
        arity = None; ptype = None
        if "@" in name:
            name, ptype = name.split("@"); ptype = ptype.split(":", 1)
        if "/" in name:
            name, arity = name.split("/"); arity = int(arity)
        cands = self.fdecls.get(name, [])
        if arity is not None:
            cands = [c for c in cands if len([x for x in inner(c) if x["kind"] == "ParmVarDecl"]) == arity]
        if ptype is not None:
            cands = [c for c in cands if any(x["kind"] == "ParmVarDecl" and x.get("name") == ptype[0] and strip_cv(qt(x)) == strip_cv(ptype[1]) for x in inner(c))]
        # the same definition may be dumped by several filters
        uniq = {}
        for c in cands:
            uniq.setdefault(c.get("id"), c)
        cands = list(uniq.values())
        if len(cands) != 1:
            raise Unsupported("%d definitions of %s" % (len(cands), name))
        d = cands[0]
        special = special or {}
        fn = Fn(self, d)
        if as_name:
            fn.name = as_name
        elif "::" in name or "<" in name:
            fn.name = re.sub(r"[^A-Za-z0-9_]+", "_", name).strip("_")      # uint_formatter<unsigned long>::format -> uint_formatter_unsigned_long_format
        fn.loops = 0; fn.needs_fuel = False; fn.loopctx = []; fn.clones = {}; fn.arrays = {}
        fn.int_tables = set(); fn.local_arrays = set(); fn.cursors = cursor_vars(d); fn.has_ev = False
        fn.backbuf = None
        if d.get("_fields"):
            bufs = [(k, t) for k, t in d["_fields"].items() if re.fullmatch(r"char\[\d+\]", strip_cv(t))]
            curs = [k for k, t in d["_fields"].items() if strip_cv(t) == "char *"]
            if len(bufs) == 1 and len(curs) == 1:
                fn.backbuf = dict(buffer=bufs[0][0], cursor=curs[0], cap=int(re.search(r"\[(\d+)\]", bufs[0][1]).group(1)) - 1)
        # a function with several `const T *` parameters reads several source ranges: one list per parameter
        # (which parameters point into different ranges is stated in SEPARATE_RANGES; by default every `const T *` parameter of a
        # function points into the one range `mem`, as `utf8` and `end` of extract_utf8 do)
        srcs = [c["name"] for c in inner(d) if c["kind"] == "ParmVarDecl" and is_pointer(qt(c)) and "const" in pointee(qt(c))
                and "mem" not in special.get(c["name"], {}) and c["name"] in SEPARATE_RANGES.get(name, ())]
        fn.regions = ["mem_" + lean_name(x) for x in srcs] if len(srcs) > 1 else None
        fn.mem_binders = " ".join("(%s : List Nat)" % r for r in fn.regions) if fn.regions else "(mem : List Nat)"
        fn.mem_args = " ".join(fn.regions) if fn.regions else "mem"
        env = Env()
        params = []; binders = []; fn.inouts = []; fn.has_out = False; uses_mem = False
        body = None
        for c in inner(d):
            if c["kind"] == "ParmVarDecl":
                t = qt(c); pn = c["name"]; ln = lean_name(pn)
                if "const" in special.get(pn, {}):
                    k = special[pn]["const"]
                    env.vars[pn] = dict(name=str(k), lo=k, hi=k, isint=False, kind="int", ctype=t)
                    params.append(dict(kind="omitted"))
                    continue
                if strip_cv(t.replace("&", "")).strip() in ("ST::format_writer", "format_writer") and is_ref(t):
                    # the sink: the sequence of its two virtual calls, append(data, size) and append_char(ch, count)
                    fn.has_ev = True
                    env.vars[pn] = dict(name=None, lo=0, hi=0, isint=False, kind="ev", ctype=t)
                    env.ev = "([] : List Ev)"
                    params.append(dict(kind="ev", isint=False))
                    continue
                if strip_cv(t.replace("&", "")).strip() in ("ST::format_spec", "format_spec") and is_ref(t) and "const" in t:
                    # a structure passed by const reference: one parameter per field the function reads
                    fields = struct_fields(d, pn, self.sigs)
                    params.append(dict(kind="struct", isint=False, fields=[f0 for f0, _ in fields]))
                    for fname, ftype in fields:
                        it = int_type(ftype, self.enums)
                        if it is None:
                            raise Unsupported("field %s.%s of type %s" % (pn, fname, ftype))
                        lo, hi = type_range(ftype, self.enums)
                        fl = "%s_%s" % (ln, fname)
                        env.vars["%s.%s" % (pn, fname)] = dict(name=fl, lo=lo, hi=hi, isint=it[0], kind="int", ctype=ftype)
                        binders.append("(%s : %s)" % (fl, "Int" if it[0] else "Nat"))
                    continue
                if strip_cv(t.replace("&", "")).strip() in ("ST::string", "string") and is_ref(t) and "const" in t:
                    uses_mem = True
                    env.vars[pn] = dict(name=None, lo=0, hi=0, isint=False, kind="ststring", ctype=t, size=ln + "_size", mem=None)
                    binders.append("(%s_size : Nat)" % ln)
                    params.append(dict(kind="ststring", isint=False))
                    continue
                if is_pointer(t):
                    const = "const" in pointee(t)
                    if const:
                        region = special.get(pn, {}).get("mem")
                        if region in (None, "mem"):
                            uses_mem = True; region = ("mem_" + ln) if fn.regions else None
                        env.vars[pn] = dict(name=ln, lo=0, hi=(1 << 62), isint=False, kind="src", ctype=t, mem=region)
                        binders.append("(%s : Nat)" % ln)
                        if is_ref(t):
                            fn.inouts.append(pn); params.append(dict(kind="srcref", isint=False))
                        else:
                            params.append(dict(kind="src", isint=False))
                            if null_tested(d, pn, self.sigs):
                                env.vars[pn]["nullflag"] = ln + "_null"
                                binders.append("(%s_null : Bool)" % ln)
                                params[-1]["nullflag"] = True
                    else:
                        if fn.has_out:
                            raise Unsupported("two output pointers")
                        fn.has_out = True
                        env.vars[pn] = dict(name=None, lo=0, hi=0, isint=False, kind="out" if (pn in fn.cursors or not fn.cursors) else "outbase", ctype=t)
                        env.out = "([] : List Nat)"
                        params.append(dict(kind="out", isint=False, ref=is_ref(t)))
                        if null_tested(d, pn, self.sigs) or passed_to(d, pn, INLINE):
                            env.vars[pn]["nullflag"] = ln + "_null"
                            binders.append("(%s_null : Bool)" % ln)
                            params[-1]["nullflag"] = True
                else:
                    it = int_type(t, self.enums)
                    if it is None:
                        raise Unsupported("parameter type " + t)
                    lo, hi = type_range(t, self.enums)
                    env.vars[pn] = dict(name=ln, lo=lo, hi=hi, isint=it[0], kind="int", ctype=t)
                    binders.append("(%s : %s)" % (ln, "Int" if it[0] else "Nat"))
                    params.append(dict(kind="int", isint=it[0]))
            elif c["kind"] == "CompoundStmt":
                body = c
        rt = qt(d); rt = rt[:rt.index("(")].strip()
        if rt == "void":
            fn.ret = None; fn.ret_t = None
        elif is_pointer(rt) and "const" in pointee(rt):
            fn.ret = "ptr"; fn.ret_t = rt          # a pointer into the source, or null: `Option Nat`
        else:
            it = int_type(rt, self.enums)
            if it is None:
                raise Unsupported("return type " + rt)
            lo, hi = type_range(rt, self.enums)
            fn.ret = (lo, hi, it[0]); fn.ret_t = rt
        def fallthrough(e, i):
            if fn.ret is not None:
                raise Unsupported("control reaches the end of a non-void function")
            return ["  " * i + "pure " + self.result_tuple(fn, e, None)]
        lines = self.block(fn, inner(body), env, fallthrough, 1)
        uses_mem = uses_mem or any(" mem " in x for x in lines)
        rtys = []
        if fn.ret == "ptr":
            rtys.append("Option Nat")
        elif fn.ret is not None:
            rtys.append("Int" if fn.ret[2] else "Nat")
        rtys += ["Nat"] * len(fn.inouts)
        if fn.has_out:
            rtys.append("List Nat")
        if fn.has_ev:
            rtys.append("List Ev")
        if fn.backbuf:
            rtys.append("List Nat")
        rty = " × ".join(rtys) if rtys else "Unit"
        uses_mem = uses_mem or fn.needs_fuel
        name = fn.name
        if "::" in name or "<" in name:
            name = re.sub(r"[^A-Za-z0-9_]+", "_", name).strip("_"); fn.name = name
        head = "def %s %s%s%s: M (%s) := do" % (name, (fn.mem_binders + " ") if uses_mem else "", "(fuel : Nat) " if fn.needs_fuel else "",
                                                  " ".join(binders) + (" " if binders else ""), rty)
        fn.aux = [x.replace("%RTY%", rty) for x in fn.aux]
        self.sigs[name] = dict(mem=uses_mem, params=params, ret=fn.ret, out=fn.has_out, fuel=fn.needs_fuel, regions=fn.regions, arity=len(params), ev=fn.has_ev,
                               struct_types={c["name"]: [(f0, t0) for f0, t0 in struct_fields(d, c["name"], self.sigs)] for c in inner(d)
                                             if c["kind"] == "ParmVarDecl" and strip_cv(qt(c).replace("&", "")).strip() in ("ST::format_spec", "format_spec")})
        loc = d.get("loc", {})
        src = "/-- `%s` (%s) -/" % (d["name"] if not as_name else "%s, specialised for a call site of %s" % (d["name"], as_name.rsplit("_", 2)[0]), os.path.basename(loc.get("file", loc.get("includedFrom", {}).get("file", "")) or "") or "include/")
        return fn.aux + [src, head] + lines

def curlen(env):
    """offset of the output cursor = number of units stored so far"""
    return "0" if env.out == "([] : List Nat)" else env.out + ".length"

def cursor_vars(fdecl):
    """names of the pointer variables written through (`*x++ = e`, `*x = e`)"""
    acc = set()
    def walk(n):
        if n.get("kind") == "BinaryOperator" and n.get("opcode") == "=":
            x = inner(n)[0]
            while x.get("kind") == "ParenExpr":
                x = inner(x)[0]
            if x.get("kind") == "UnaryOperator" and x.get("opcode") == "*":
                y = inner(x)[0]
                while y.get("kind") in ("ParenExpr", "ImplicitCastExpr"):
                    y = inner(y)[0]
                if y.get("kind") == "UnaryOperator" and y.get("opcode") in ("++",):
                    y = inner(y)[0]
                if y.get("kind") == "DeclRefExpr":
                    acc.add(y["referencedDecl"].get("name"))
        for c in n.get("inner", []):
            if isinstance(c, dict):
                walk(c)
    walk(fdecl)
    return acc

INLINE = {"append_chars"}
# functions whose pointer parameters address different source ranges (everything else reads one range)
SEPARATE_RANGES = {"compare_ci": ("left", "right")}

def passed_to(fdecl, pname, callees):
    def walk(n):
        if n.get("kind") == "CallExpr" and callee_name(n) in callees:
            for a in inner(n)[1:]:
                x = a
                while x.get("kind") in ("ImplicitCastExpr", "ParenExpr"):
                    x = inner(x)[0]
                if x.get("kind") == "DeclRefExpr" and x["referencedDecl"].get("name") == pname:
                    return True
        return any(walk(c) for c in n.get("inner", []) if isinstance(c, dict))
    return walk(fdecl)

def null_tested(fdecl, pname, sigs={}):
    def walk(n):
        if n.get("kind") == "CallExpr" and callee_name(n) in sigs:
            for a, prm in zip(inner(n)[1:], sigs[callee_name(n)]["params"]):
                x = a
                while x.get("kind") in ("ImplicitCastExpr", "ParenExpr"):
                    x = inner(x)[0]
                if prm.get("nullflag") and x.get("kind") == "DeclRefExpr" and x["referencedDecl"].get("name") == pname:
                    return True
        if n.get("kind") == "ImplicitCastExpr" and n.get("castKind") == "PointerToBoolean":
            x = n
            while x.get("kind") in ("ImplicitCastExpr", "ParenExpr"):
                x = inner(x)[0]
            if x.get("kind") == "DeclRefExpr" and x["referencedDecl"].get("name") == pname:
                return True
        return any(walk(c) for c in n.get("inner", []) if isinstance(c, dict))
    return walk(fdecl)

def struct_fields(fdecl, pname, sigs={}):
    """(field, type) of every `pname.field` the function (or a translated function it passes the structure to) reads,
    in order of first use"""
    seen = []
    def walk(n):
        if n.get("kind") == "CallExpr" and callee_name(n) in sigs:
            sg = sigs[callee_name(n)]
            for a, prm in zip(inner(n)[1:], sg["params"]):
                x = a
                while x.get("kind") in ("ImplicitCastExpr", "ParenExpr"):
                    x = inner(x)[0]
                if prm.get("kind") == "struct" and x.get("kind") == "DeclRefExpr" and x["referencedDecl"].get("name") == pname:
                    for f0, t0 in list(sg.get("struct_types", {}).values())[0] if sg.get("struct_types") else []:
                        if f0 not in [y[0] for y in seen]:
                            seen.append((f0, t0))
        if n.get("kind") == "MemberExpr":
            b = inner(n)[0] if inner(n) else {}
            while b.get("kind") in ("ImplicitCastExpr", "ParenExpr"):
                b = inner(b)[0]
            if b.get("kind") == "DeclRefExpr" and b["referencedDecl"].get("name") == pname:
                if n["name"] not in [x[0] for x in seen]:
                    seen.append((n["name"], qt(n)))
        for c in n.get("inner", []):
            if isinstance(c, dict):
                walk(c)
    walk(fdecl)
    return sorted(seen)      # by field name: the order in which a function happens to read the fields is not part of its meaning

def local_elem(fn, n):
    """`arr[k]` with `arr` a local array of the function and `k` a literal -> the name of the element variable"""
    if fn is None or n.get("kind") != "ArraySubscriptExpr":
        return None
    base, idx = inner(n)
    while base.get("kind") in ("ImplicitCastExpr", "ParenExpr"):
        base = inner(base)[0]
    while idx.get("kind") in ("ImplicitCastExpr", "ParenExpr"):
        idx = inner(idx)[0]
    if base.get("kind") == "DeclRefExpr" and base["referencedDecl"].get("name") in fn.local_arrays and idx.get("kind") == "IntegerLiteral":
        return "%s[%d]" % (base["referencedDecl"]["name"], int(idx["value"]))
    return None

def callee_name(call):
    c = inner(call)[0]
    while c["kind"] in ("ImplicitCastExpr", "ParenExpr"):
        c = inner(c)[0]
    return c.get("referencedDecl", {}).get("name") if c["kind"] == "DeclRefExpr" else None

def has_kind(n, kinds):
    if n.get("kind") in kinds:
        return True
    return any(has_kind(c, kinds) for c in n.get("inner", []) if isinstance(c, dict))

def assigned_vars(n, acc):
    """names of the variables a statement may assign (assignment, compound assignment, ++/--, passed by reference)"""
    k = n.get("kind")
    def target(x):
        while x.get("kind") in ("ParenExpr", "ImplicitCastExpr"):
            x = inner(x)[0]
        if x.get("kind") == "DeclRefExpr":
            acc.add(x["referencedDecl"].get("name"))
        elif x.get("kind") == "UnaryOperator":
            target(inner(x)[0])
    if k in ("BinaryOperator",) and n.get("opcode") == "=":
        target(inner(n)[0])
    if k == "CompoundAssignOperator":
        target(inner(n)[0])
    if k == "UnaryOperator" and n.get("opcode") in ("++", "--"):
        target(inner(n)[0])
    if k == "CallExpr":
        for a in inner(n)[1:]:
            if a.get("kind") == "DeclRefExpr":      # an lvalue argument: bound to a reference parameter
                acc.add(a["referencedDecl"].get("name"))
    for c in n.get("inner", []):
        if isinstance(c, dict):
            assigned_vars(c, acc)
    return acc

LEAN_KEYWORDS = {"end", "from", "at", "in", "do", "then", "else", "if", "let", "have", "show", "fun", "match", "with", "def",
                 "open", "local", "prefix", "infix", "notation", "where", "by", "calc", "mem", "rd8", "rd16", "rd32", "out"}
def lean_name(n):
    return n + "_" if n in LEAN_KEYWORDS else n

HEADER = """-- GENERATED by tools/gen_kernels.py from the clang AST of $ST_REPO/include; do not edit.
-- One definition per C++ function of namespace _ST_PRIVATE listed in the tool (DESIGN.md section 14).
import StVerif.Cxx.Machine
set_option linter.unusedVariables false
namespace StVerif.Generated.Kernels
open StVerif.Cxx
"""

def fingerprint():
    h = hashlib.sha256()
    files = sorted(glob.glob(os.path.join(REPO, "include", "**", "*"), recursive=True)) + [os.path.join(REPO, "CMakeLists.txt"),
             os.path.abspath(__file__), os.path.join(HERE, "gen_config.py")]
    for path in files:
        if os.path.isfile(path):
            h.update(os.path.basename(path).encode()); h.update(open(path, "rb").read())
    return h.hexdigest()[:24]

def main():
    cache = os.path.join(VERIF, ".cache", "kernels", fingerprint() + ".lean")
    if os.path.exists(cache):
        text = open(cache).read()
        old = open(OUT).read() if os.path.exists(OUT) else None
        if text != old:
            with open(OUT, "w") as f:
                f.write(text)
        print("gen_kernels: Kernels.lean %s (%d functions, cached translation of this tree)" % ("rewritten" if text != old else "unchanged", len(KERNELS)))
        return 0
    try:
        objs = dump_ast()
        tr = Translator(objs)
        out = [HEADER]
        for name in KERNELS:
            try:
                out += tr.function(name)
            except Unsupported as e:
                raise Unsupported("%s: %s" % (name, e))
            out.append("")
        out.append("end StVerif.Generated.Kernels")
        text = "\n".join(out) + "\n"
    except Unsupported as e:
        print("gen_kernels: cannot translate (%s); Kernels.lean left as committed" % e)
        return 3
    os.makedirs(os.path.dirname(cache), exist_ok=True)
    with open(cache, "w") as f:
        f.write(text)
    old = open(OUT).read() if os.path.exists(OUT) else None
    if text != old:
        os.makedirs(os.path.dirname(OUT), exist_ok=True)
        with open(OUT, "w") as f:
            f.write(text)
        print("gen_kernels: Kernels.lean rewritten (%d functions)" % len(KERNELS))
    else:
        print("gen_kernels: Kernels.lean unchanged (%d functions)" % len(KERNELS))
    return 0

if __name__ == "__main__":
    sys.exit(main())
