#!/usr/bin/env python3
"""Entry point of every MANIFEST command:  tools/check.py <Cnn> [--tier quick|thorough] [--replay FILE]

One run = regenerate tables from /repo -> lake build (re-checks every proof) -> audit (no sorry /
axioms) -> build the family's harness from /repo's working tree under sanitizers -> run
harness | stdrv pipelines -> classify per DESIGN.md section 1 -> replay files, VIOLATION /
KNOWN-FINDING lines, evidence/<id>.json.  Exit 0 = property held on everything explored."""
import sys, os, json, time, subprocess, hashlib, tempfile, shutil, fcntl, re, glob

HERE = os.path.dirname(os.path.abspath(__file__))
VERIF = os.path.dirname(HERE)
sys.path.insert(0, HERE)
from registry import PROPS, FAMILIES, ALLOWED_AXIOMS, TRUSTED_BASE_COMMON

REPO = os.environ.get("ST_REPO", "/repo")
LEAN = os.path.join(VERIF, "lean")
STDRV = os.path.join(LEAN, ".lake", "build", "bin", "stdrv")
CACHE = os.path.join(VERIF, ".cache")
NCPU = min(16, os.cpu_count() or 4)

def log(*a):
    print(*a, file=sys.stderr, flush=True)

def run(cmd, **kw):
    return subprocess.run(cmd, stdout=subprocess.PIPE, stderr=subprocess.STDOUT, text=True, **kw)

# ----------------------------------------------------------------------------- build steps
class Lock:
    def __init__(self, name):
        os.makedirs(CACHE, exist_ok=True)
        self.f = open(os.path.join(CACHE, name + ".lock"), "w")
    def __enter__(self):
        fcntl.flock(self.f, fcntl.LOCK_EX); return self
    def __exit__(self, *a):
        fcntl.flock(self.f, fcntl.LOCK_UN); self.f.close()

def regenerate():
    notes = []
    for tool in ("gen_tables.py", "gen_statics.py", "gen_kernels.py"):
        path = os.path.join(HERE, tool)
        if not os.path.exists(path):
            continue
        r = run([sys.executable, path], env=dict(os.environ, ST_REPO=REPO))
        notes.append("%s: %s" % (tool, r.stdout.strip().splitlines()[-1] if r.stdout.strip() else "rc=%d" % r.returncode))
        if r.returncode not in (0, 3):
            notes.append("%s failed rc=%d" % (tool, r.returncode))
    return notes

def lake_build(prop):
    """returns (driver_ok, proofs_ok, log).  Only the property's own proof module is built and audited: its import cone
    is exactly what its theorems depend on, so a proof obligation of another property that stops checking (e.g. C20's
    regenerated static-variable inventory) does not turn this property red."""
    with Lock("lake"):
        r1 = run(["lake", "build", "stdrv"], cwd=LEAN)
        r2 = run(["lake", "build", "StVerif.Props." + prop], cwd=LEAN)
        # the tie theorems `translated function = model` live in a module of their own (Props/<prop>Tie.lean, importing the
        # property's module): when a bridge stops checking, the property's other theorems stay built and audited
        r3 = run(["lake", "build", "StVerif.Props." + prop + "Tie"], cwd=LEAN) if has_tie(prop) else None
    ok = r2.returncode == 0 and (r3 is None or r3.returncode == 0)
    return r1.returncode == 0, ok, (r1.stdout[-3000:] + "\n" + r2.stdout[-6000:] + ("\n" + r3.stdout[-6000:] if r3 else ""))

def has_tie(prop):
    return os.path.exists(os.path.join(LEAN, "StVerif", "Props", prop + "Tie.lean"))

def tie_theorems(prop, theorems):
    """the registered theorems that are stated in Props/<prop>Tie.lean"""
    if not has_tie(prop):
        return []
    src = strip_lean_comments(open(os.path.join(LEAN, "StVerif", "Props", prop + "Tie.lean")).read())
    names = set(re.findall(r"^theorem\s+(\S+)", src, re.M))
    return [t for t in theorems if t.split(".")[-1] in names]

def strip_lean_comments(src):
    out = []; i = 0; depth = 0; n = len(src)
    while i < n:
        if src.startswith("/-", i):
            depth += 1; i += 2; continue
        if depth and src.startswith("-/", i):
            depth -= 1; i += 2; continue
        if depth:
            i += 1; continue
        if src.startswith("--", i):
            j = src.find("\n", i); i = n if j < 0 else j; continue
        out.append(src[i]); i += 1
    return "".join(out)

FORBIDDEN = [r"\bsorry\b", r"\badmit\b", r"^\s*axiom\s", r"\bnative_decide\b", r"\bbv_decide\b",
             r"\bimplemented_by\b", r"\bunsafe\s", r"maxHeartbeats\s+0\b", r"\bextern\b"]

def audit_sources():
    """grep the library sources (comments stripped) for escape hatches"""
    hits = []
    for path in glob.glob(os.path.join(LEAN, "StVerif", "**", "*.lean"), recursive=True):
        src = strip_lean_comments(open(path).read())
        for pat in FORBIDDEN:
            for m in re.finditer(pat, src, re.M):
                hits.append("%s: %s" % (os.path.relpath(path, LEAN), m.group(0).strip()))
        if re.search(r"\bpartial\s+def\b", src):
            hits.append("%s: partial def" % os.path.relpath(path, LEAN))
    return hits

def audit_axioms(theorems, prop, module=None):
    """#print axioms for each theorem; returns {name: (ok, axioms or error)}"""
    res = {}
    if not theorems:
        return res
    tie = tie_theorems(prop, theorems)
    if tie and module is None:
        res.update(audit_axioms([t for t in theorems if t not in tie], prop, prop))
        res.update(audit_axioms(tie, prop, prop + "Tie"))
        return res
    with tempfile.NamedTemporaryFile("w", suffix=".lean", dir=LEAN, delete=False) as f:
        f.write("import StVerif.Props.%s\n" % (module or prop))
        for t in theorems:
            f.write("#print axioms %s\n" % t)
        tmp = f.name
    try:
        r = run(["lake", "env", "lean", tmp], cwd=LEAN)
    finally:
        os.unlink(tmp)
    out = r.stdout
    for t in theorems:
        m = re.search(r"'%s' depends on axioms: \[(.*?)\]" % re.escape(t), out, re.S)
        if m:
            ax = [a.strip() for a in m.group(1).replace("\n", " ").split(",") if a.strip()]
            bad = [a for a in ax if a not in ALLOWED_AXIOMS]
            res[t] = (not bad, ax)
        elif re.search(r"'%s' does not depend on any axioms" % re.escape(t), out):
            res[t] = (True, [])
        else:
            res[t] = (False, ["<not found / does not check>"])
    return res

def repo_fingerprint():
    h = hashlib.sha256()
    for path in sorted(glob.glob(os.path.join(REPO, "include", "**", "*"), recursive=True)) + [os.path.join(REPO, "CMakeLists.txt")]:
        if os.path.isfile(path):
            h.update(path.encode()); h.update(open(path, "rb").read())
    return h

def build_harness(fam, variant=""):
    """compile harness/<src> against /repo's current headers (content-addressed cache)"""
    spec = FAMILIES[fam]
    flags = list(spec.get("flags", ["-fsanitize=address,undefined", "-fno-sanitize-recover=all"]))
    defs = list(spec.get("defs", [])) + (variant.split(" ") if variant else [])
    h = repo_fingerprint()
    for src in [spec["src"], "common.hpp", "st_common.hpp"] + spec.get("deps", []):
        h.update(open(os.path.join(VERIF, "harness", src), "rb").read())
    h.update(" ".join(flags + defs).encode())
    key = h.hexdigest()[:24]
    d = os.path.join(CACHE, "harness", key)
    binp = os.path.join(d, fam)
    if os.path.exists(binp):
        return binp, "cached"
    with Lock("harness-" + key):
        if os.path.exists(binp):
            return binp, "cached"
        tmp = tempfile.mkdtemp(prefix="hb-", dir=CACHE)
        try:
            subprocess.check_call([sys.executable, os.path.join(HERE, "gen_config.py"), os.path.join(tmp, "cfg")], env=dict(os.environ, ST_REPO=REPO))
            cmd = ["g++", "-std=c++20", "-O1", "-g", "-w"] + flags + defs + ["-I" + os.path.join(tmp, "cfg"), "-I" + os.path.join(REPO, "include"),
                   "-I" + os.path.join(VERIF, "harness"), os.path.join(VERIF, "harness", spec["src"]), "-o", os.path.join(tmp, fam)] + spec.get("libs", [])
            r = run(cmd)
            if r.returncode != 0:
                return None, r.stdout[-4000:]
            os.makedirs(d, exist_ok=True)
            os.replace(os.path.join(tmp, fam), binp)
        finally:
            shutil.rmtree(tmp, ignore_errors=True)
    # keep the cache small: drop all but the 12 most recent builds
    dirs = sorted(glob.glob(os.path.join(CACHE, "harness", "*")), key=os.path.getmtime)
    for old in dirs[:-12]:
        shutil.rmtree(old, ignore_errors=True)
    return binp, "built"

SAN_ENV = {
    "ASAN_OPTIONS": "symbolize=0:abort_on_error=1:allocator_may_return_null=1:detect_leaks=1:detect_stack_use_after_return=0:handle_abort=0",
    "UBSAN_OPTIONS": "print_stacktrace=0:halt_on_error=1",
    "TSAN_OPTIONS": "halt_on_error=1:report_signal_unsafe=0",
    "LSAN_OPTIONS": "exitcode=23",
    "LC_ALL": "C",
}

# ----------------------------------------------------------------------------- pipelines
def run_pipelines(binp, args_list, known_ids, timeout):
    """run `binp args | stdrv` for each args in args_list in parallel (<= NCPU at a time)"""
    env = dict(os.environ); env.update(SAN_ENV); env["ST_KNOWN"] = ",".join(known_ids)
    results = []; pending = list(enumerate(args_list)); running = []
    t0 = time.time()
    def start(i, a):
        h = subprocess.Popen([binp] + a, stdout=subprocess.PIPE, stderr=subprocess.PIPE, env=env)
        d = subprocess.Popen([STDRV], stdin=h.stdout, stdout=subprocess.PIPE, stderr=subprocess.PIPE, env=env, text=True)
        h.stdout.close()
        return (i, a, h, d)
    outs = {}
    while pending or running:
        while pending and len(running) < NCPU:
            i, a = pending.pop(0); running.append(start(i, a))
        i, a, h, d = running.pop(0)
        try:
            out, derr = d.communicate(timeout=max(5, timeout - (time.time() - t0)))
            herr = h.stderr.read().decode(errors="replace"); h.wait()
            outs[i] = dict(args=a, out=out, hrc=h.returncode, drc=d.returncode, herr=herr[-2000:], derr=derr[-2000:], timed_out=False)
        except subprocess.TimeoutExpired:
            h.kill(); d.kill(); d.communicate(); h.wait()
            outs[i] = dict(args=a, out="", hrc=-9, drc=-9, herr="timeout", derr="", timed_out=True)
    return [outs[i] for i in sorted(outs)]

def parse_driver(out):
    rlines = []; summary = None
    for line in out.splitlines():
        if line.startswith("R "):
            m = re.match(r"R (\w+) known=(\S+) why=(\S+) model=(\S*) :: (.*)$", line)
            if m:
                rlines.append(dict(kind=m.group(1), known=m.group(2), why=m.group(3), model=m.group(4), line=m.group(5)))
        elif line.startswith("SUMMARY "):
            try: summary = json.loads(line[8:])
            except Exception: summary = None
    return rlines, summary

def merge_summaries(sums):
    tot = dict(lines=0, items=0, passed=0, mismatch=0, violation=0, specfail=0, known=0, distinct=0, nontrivial=0, branches={}, samples=[])
    for s in sums:
        if not s: continue
        tot["lines"] += s["lines"]; tot["items"] += s["items"]; tot["passed"] += s["pass"]
        for k in ("mismatch", "violation", "specfail", "known", "distinct", "nontrivial"):
            tot[k] += s[k]
        for b, n in s["branches"].items():
            tot["branches"][b] = tot["branches"].get(b, 0) + n
        tot["samples"] += s["samples"][:2]
    tot["samples"] = tot["samples"][:8]
    return tot

def exec_lines(binp, lines, known_ids, timeout=120, case_timeout=None):
    """run given input lines through harness --replay | stdrv; returns (rlines, summary, raw)"""
    fd, path = tempfile.mkstemp(prefix="replay-", suffix=".txt", dir=CACHE)
    with os.fdopen(fd, "w") as f:
        for l in lines:
            f.write(l.split(" => ")[0] + "\n")
    try:
        extra = ["--timeout", str(case_timeout)] if case_timeout else []
        res = run_pipelines(binp, [["--replay", path] + extra], known_ids, timeout)[0]
    finally:
        os.unlink(path)
    r, s = parse_driver(res["out"])
    return r, s, res

# ----------------------------------------------------------------------------- shrinking
def shrink(binp, fail, known_ids, budget_s=20):
    """greedy shrink of hex-unit arguments of one failing line while it still fails the same way"""
    t0 = time.time()
    line = fail["line"].split(" => ")[0]
    kind = fail["kind"]
    toks = line.split(" ")
    def width_of(tokens):
        for t in tokens:
            if t.startswith("w="):
                try: return int(t[2:])
                except ValueError: pass
        return 8
    def still_fails(cand):
        r, s, raw = exec_lines(binp, [cand], known_ids, timeout=30)
        for x in r:
            if x["kind"] == kind:
                return x
        return None
    best = fail
    # operation lists (ops=a;b;c): drop operations while the failure persists
    toks = best["line"].split(" => ")[0].split(" ")
    for ti, t in enumerate(toks):
        if t.startswith("ops=") and ";" in t:
            ops = t[4:].split(";")
            i = len(ops) - 1
            while i >= 0 and time.time() - t0 < budget_s:
                cand_ops = ops[:i] + ops[i + 1:]
                if cand_ops:
                    cand = " ".join(toks[:ti] + ["ops=" + ";".join(cand_ops)] + toks[ti + 1:])
                    got = still_fails(cand)
                    if got:
                        ops = cand_ops; best = got; toks = cand.split(" ")
                i -= 1
    changed = True
    while changed and time.time() - t0 < budget_s:
        changed = False
        toks = best["line"].split(" => ")[0].split(" ")
        d = width_of(toks) // 4
        for ti, t in enumerate(toks):
            if "=" not in t: continue
            k, v = t.split("=", 1)
            if k in ("w", "cap", "lo", "n", "alpha") or not re.fullmatch(r"[0-9a-f]+", v) or len(v) % d or len(v) <= d:
                continue
            units = [v[i:i + d] for i in range(0, len(v), d)]
            # try removing halves, then single units
            step = max(1, len(units) // 2)
            while step >= 1 and time.time() - t0 < budget_s:
                i = 0; progressed = False
                while i < len(units) and time.time() - t0 < budget_s:
                    cand_units = units[:i] + units[i + step:]
                    if not cand_units: i += step; continue
                    cand = " ".join(toks[:ti] + [k + "=" + "".join(cand_units)] + toks[ti + 1:])
                    got = still_fails(cand)
                    if got:
                        units = cand_units; best = got; toks = cand.split(" "); progressed = True; changed = True
                    else:
                        i += step
                if step == 1 and not progressed: break
                step = step // 2 if step > 1 else (1 if progressed else 0)
                if step == 0: break
    return best

# ----------------------------------------------------------------------------- main check
def load_known():
    path = os.path.join(VERIF, "known_findings.json")
    if not os.path.exists(path):
        return []
    return json.load(open(path)).get("findings", [])

def write_replay(prop, seed, n, payload):
    os.makedirs(os.path.join(VERIF, "replays"), exist_ok=True)
    path = os.path.join(VERIF, "replays", "%s-%s-%d.json" % (prop, seed, n))
    with open(path, "w") as f:
        json.dump(payload, f, indent=1)
    return path

def main():
    argv = sys.argv[1:]
    if not argv or argv[0] not in PROPS:
        log("usage: check.py <%s> [--tier quick|thorough] [--replay FILE]" % "|".join(sorted(PROPS))); return 2
    prop = argv[0]
    tier = os.environ.get("VERIF_TIER", "quick")
    replay = None
    i = 1
    while i < len(argv):
        if argv[i] == "--tier": tier = argv[i + 1]; i += 2
        elif argv[i] == "--replay": replay = argv[i + 1]; i += 2
        else: i += 1
    if tier not in ("quick", "thorough"): tier = "quick"
    try: seed = int(os.environ.get("VERIF_SEED", "1"))
    except ValueError: seed = 1
    P = PROPS[prop]
    fams = P.get("families") or [P["family"]]      # a property may be decided over several harness families (C19)
    fam = fams[0]
    t0 = time.time()
    os.makedirs(CACHE, exist_ok=True)
    violations = []      # (replay payload, suffix)
    notes = []

    # 1. regenerate + 2. build (proof re-check)
    notes += regenerate()
    driver_ok, proofs_ok, blog = lake_build(prop)
    if not driver_ok:
        log(blog); log("check: the model driver does not build - environment/model error"); return 2
    # 3. audit
    src_hits = audit_sources()
    theorems = P["theorems"]
    ax = audit_axioms(theorems, prop) if theorems else {}
    discharged = [t for t in theorems if ax.get(t, (False,))[0]] if not src_hits else []
    failed_thms = [t for t in theorems if t not in discharged]
    if tier == "thorough" and proofs_ok and P.get("leanchecker", True):
        with Lock("lake"):
            r = run(["lake", "env", "leanchecker", "StVerif.Props." + prop], cwd=LEAN)
            if r.returncode == 0 and has_tie(prop):
                r = run(["lake", "env", "leanchecker", "StVerif.Props." + prop + "Tie"], cwd=LEAN)
        notes.append("leanchecker StVerif.Props.%s%s rc=%d" % (prop, " and StVerif.Props.%sTie" % prop if has_tie(prop) else "", r.returncode))
        if r.returncode != 0:
            failed_thms = failed_thms or ["leanchecker:StVerif.Props." + prop]
            notes.append(r.stdout[-500:])
    # 4. harness
    known = [k for k in load_known() if k["property"] == prop]
    known_ids = [k["id"] for k in known]
    variants = P.get("variants", [""])
    if tier == "quick" and len(variants) > 1:
        variants = [variants[0], variants[1 + seed % (len(variants) - 1)]]
    all_r = []; sums = []; harness_notes = []; env_error = False; faults_fired = {}; gen_crashes = []
    timeout = P.get("timeout", {}).get(tier, 1500 if tier == "quick" else 7200)
    for fam in fams:
      for variant in variants:
            binp, how = build_harness(fam, variant)
            if binp is None:
                # the harness no longer compiles against the changed headers: the public API the property
                # is stated over changed shape; nothing can be shown
                violations.append((dict(kind="harness-build-failure", detail=how, variant=variant), " no-failing-input-found"))
                continue
            harness_notes.append("harness %s%s: %s" % (fam, (" " + variant) if variant else "", how))
            if replay:
                payload = json.load(open(replay))
                lines = payload.get("lines", [])
                ops = FAMILIES[fam].get("ops")
                if len(fams) > 1 and ops and lines and not any(lines[0].startswith(o) for o in ops):
                    continue      # these lines belong to another family's harness
                r, s, raw = exec_lines(binp, lines, known_ids)
                bad = [x for x in r if x["kind"] in ("VIOLATION", "SPECFAIL", "MISMATCH")]
                for x in r: print("%s %s :: %s" % (x["kind"], x["why"], x["line"]))
                print("replay: %d lines, %d failing" % (len(lines), len(bad)))
                return 1 if bad else 0
            # witnesses of recorded findings run first, so their KNOWN-FINDING line never depends on the generators
            wl = [w for k in known for w in k.get("witness", [])]
            if wl:
                r, s_, raw = exec_lines(binp, wl, known_ids)
                for y in r: y["variant"] = variant; y["bin"] = binp
                all_r += r
                if s_: sums.append(s_)
            nsl = P.get("slices_by_family", {}).get(fam, P.get("slices", {})).get(tier, NCPU)
            base = ["--seed", str(seed), "--tier", tier, "--prop", prop]
            args_list = [base + ["--slice", "%d/%d" % (k, nsl)] for k in range(nsl)]
            res = run_pipelines(binp, args_list, known_ids, timeout)
            for x in res:
                r, s = parse_driver(x["out"])
                if x["timed_out"]:
                    notes.append("slice %s timed out (not a verdict)" % x["args"][-1]); env_error = True; continue
                if x["hrc"] != 0 or x["drc"] != 0 or s is None:
                    log("pipeline error: harness rc=%s driver rc=%s\n%s\n%s" % (x["hrc"], x["drc"], x["herr"], x["derr"]))
                    env_error = True
                    if s is None: continue
                if "truncated_after_too_many_aborts" in x["herr"]:
                    notes.append("slice %s stopped after 40 aborted cases (each reported)" % x["args"][-1])
                for y in r: y["variant"] = variant; y["bin"] = binp
                all_r += r; sums.append(s)
                mg = re.search(r"generator_crash=(\S+)", x["herr"])
                if mg and mg.group(1) not in gen_crashes: gen_crashes.append(mg.group(1))
                m = re.search(r"alloc_faults_fired=(\d+)", x["herr"])
                if m and int(m.group(1)): faults_fired[fam] = faults_fired.get(fam, 0) + int(m.group(1))
    tot = merge_summaries(sums)
    for f_, n_ in sorted(faults_fired.items()):
        harness_notes.append("injected allocation faults that fired, family %s: %d" % (f_, n_))

    # 5. classify
    # DESIGN section 6: a timed-out case is re-run alone before it is reported (a loaded machine can stall a worker for
    # longer than the per-case timeout; a genuine hang reproduces)
    rerun_ok = 0; rerun_again = 0
    for x in [y for y in all_r if y["kind"] in ("VIOLATION", "SPECFAIL", "MISMATCH") and y["line"].rstrip().endswith("=> hang")][:40]:
        if rerun_again >= 3: break          # genuine hangs reproduce: no need to wait for every one of them again
        r_, s_, raw_ = exec_lines(x["bin"], [x["line"]], known_ids, timeout=60)
        if s_ and s_.get("lines") == 1 and s_.get("pass") == 1:
            all_r.remove(x); rerun_ok += 1
        else:
            rerun_again += 1
    if rerun_ok:
        notes.append("%d case(s) reported as hang passed when re-run alone (machine load); not counted as failures" % rerun_ok)
    fails = [x for x in all_r if x["kind"] in ("VIOLATION", "SPECFAIL", "MISMATCH")]
    # a case reported as a hang is re-run alone with a generous limit before it is believed (the per-case limit is
    # wall-clock, and the machine may be loaded)
    hangs = [x for x in fails if x["line"].endswith("=> hang")]
    if hangs:
        transient = 0; confirmed = 0
        for x in hangs[:12]:
            if confirmed >= 2: break          # real hangs: no need to wait for each of them again
            r, s_, raw = exec_lines(x["bin"], [x["line"]], known_ids, timeout=180, case_timeout=30)
            again = [y for y in r if y["kind"] in ("VIOLATION", "SPECFAIL", "MISMATCH")]
            if not again and s_ and s_.get("lines") == 1:
                fails.remove(x); transient += 1
            else:
                confirmed += 1
        if transient:
            notes.append("%d case(s) exceeded the per-case time limit under load and completed normally when re-run alone" % transient)
    known_hits = {}
    for x in all_r:
        if x["kind"] == "KNOWN": known_hits.setdefault(x["known"], x)
    # expand failing blocks to single items
    expanded = []
    for x in fails[:6]:
        if x["line"].startswith("blk"):
            r, s, raw = exec_lines(x["bin"], [x["line"].split(" => ")[0] + " expand=1"], known_ids)
            items = [y for y in r if y["kind"] in ("VIOLATION", "SPECFAIL", "MISMATCH")]
            for y in items: y["variant"] = x["variant"]; y["bin"] = x["bin"]; y["from_block"] = x["line"]
            expanded += items[:50] if items else [x]
        else:
            expanded.append(x)
    expanded += [x for x in fails[6:] if not x["line"].startswith("blk")][:200]
    hard = [x for x in expanded if x["kind"] in ("VIOLATION", "SPECFAIL")]
    soft = [x for x in expanded if x["kind"] == "MISMATCH"]
    nrep = 0
    reported_classes = set()
    def class_of(x):
        return (x["kind"], x["line"].split(" ")[0], x["why"])
    for x in hard:
        c = class_of(x)
        if c in reported_classes: continue
        reported_classes.add(c)
        if len(reported_classes) > 4: break
        small = shrink(x["bin"], x, known_ids) if not x["line"].startswith("blk") else x
        nrep += 1
        violations.append((dict(kind=small["kind"], why=small["why"], lines=[small["line"]], model=small["model"], original=x["line"],
                                variant=x.get("variant", ""), from_block=x.get("from_block"),
                                explanation="the implementation's observable behaviour on this input fails the property's predicate (Spec)"), ""))
    if soft and not hard:
        # correspondence broken but the property's predicate holds on every observed case: the property
        # is no longer *shown*.  Search harder (thorough generators, bounded time) for a spec failure.
        found = None
        if tier == "quick" and not env_error:
            binp = soft[0]["bin"]
            base = ["--seed", str(seed + 1), "--tier", "thorough", "--prop", prop]
            res = run_pipelines(binp, [base + ["--slice", "%d/%d" % (k, NCPU)] for k in range(NCPU)], known_ids, P.get("search_timeout", 240))
            for y in res:
                r, s = parse_driver(y["out"])
                cand = [z for z in r if z["kind"] in ("VIOLATION", "SPECFAIL")]
                if cand:
                    found = cand[0]; found["bin"] = binp; break
        if found:
            if found["line"].startswith("blk"):
                r, s, raw = exec_lines(found["bin"], [found["line"].split(" => ")[0] + " expand=1"], known_ids)
                items = [y for y in r if y["kind"] in ("VIOLATION", "SPECFAIL")]
                if items: items[0]["bin"] = found["bin"]; found = items[0]
            small = shrink(found["bin"], found, known_ids) if not found["line"].startswith("blk") else found
            violations.append((dict(kind=small["kind"], why=small["why"], lines=[small["line"]], model=small["model"],
                                    explanation="correspondence broke; deeper search found this input on which the property fails"), ""))
        else:
            first = soft[0]
            violations.append((dict(kind="MISMATCH", why="model and implementation differ; property predicate holds on all explored cases",
                                    lines=[z["line"] for z in soft[:20]], model=first["model"],
                                    correspondence="family %s, op %s" % (fam, first["line"].split(" ")[0]),
                                    explanation="the correspondence between the Lean model (about which the theorems are proved) and the code no longer "
                                                "checks at these cases, so the property is no longer shown to hold; no input violating the property itself was found"),
                               " no-failing-input-found"))
    if gen_crashes:
        # the library crashed (or hung) while a generator was calling it to build inputs for later cases (e.g. decoding what the
        # encoder had just produced): a crash of the library on a generator-made input that no single case line carries
        concrete = [v for v in violations if v[1] == ""]
        violations.append((dict(kind="GENERATOR-CRASH", crashes=gen_crashes[:8],
                                explanation="the library crashed or hung between two cases, inside a generator that calls the library to build its next "
                                            "inputs; the classes and the index of the last completed case of the slice are listed"
                                            + ("" if concrete else "; no single case line reproduces it")), "" if concrete else " no-failing-input-found"))
    if (failed_thms or src_hits or not proofs_ok) and not [v for v in violations if v[1] == ""]:
        # which file and line stopped checking: the bridge theorem (Lemmas/Kernel*.lean) or the property theorem itself
        where = sorted(set(re.findall(r"error: (StVerif/\S+\.lean:\d+)", blog)))[:8] if not proofs_ok else []
        violations.append((dict(kind="PROOF", theorems=failed_thms, no_longer_checks_at=where, source_audit=src_hits, build_ok=proofs_ok,
                                axioms={t: ax.get(t, (False, ["?"]))[1] for t in theorems}, build_log=blog[-3000:] if not proofs_ok else "",
                                explanation="a proof obligation of this property no longer checks against the regenerated model; the "
                                            "correspondence run found no concrete input on which the property fails"), " no-failing-input-found"))
    if env_error and not violations:
        log("check: environment error (pipeline failure or timeout); no verdict");
    # known findings
    for k in known:
        if k["id"] in known_hits:
            print("KNOWN-FINDING: property=%s %s" % (prop, k["what"]))
    exit_code = 0
    for n, (payload, suffix) in enumerate(violations):
        payload.update(property=prop, seed=seed, tier=tier,
                       replay_cmd="python3 tools/check.py %s --replay <this file>" % prop)
        path = write_replay(prop, seed, n, payload)
        print("VIOLATION property=%s replay=%s%s" % (prop, path, suffix))
        exit_code = 1
    if env_error and exit_code == 0:
        exit_code = 2

    # 6. evidence
    wall = time.time() - t0
    cov = dict(
        obligations=max(1, len(theorems)), discharged=len(discharged) if theorems else 0,
        theorems={t: dict(ok=ax.get(t, (False,))[0], axioms=ax.get(t, (False, []))[1]) for t in theorems},
        checker_cmd="cd /verif/lean && lake build StVerif.Props.%s && lake env lean <import StVerif.Props.%s; #print axioms for each theorem>" % (prop, prop) + (" (and the same for StVerif.Props.%sTie, the tie theorems)" % prop if has_tie(prop) else "") + (" && lake env leanchecker StVerif.Props.%s" % prop if tier == "thorough" else ""),
        trusted_base=TRUSTED_BASE_COMMON + P.get("trusted_base", []) + (
            ["tools/gen_kernels.py: the translator clang-14 JSON AST -> Lean that regenerates lean/StVerif/Generated/Kernels.lean from $ST_REPO/include on every run "
             "(supported C++ subset, interval-based integer semantics, loads as faulting reads, loops over a fuel argument: DESIGN.md section 14); the bridge theorems "
             "registered for this property (names ending in _is_model / _are_model / decode_steps_* / translated_*) are about its output"]
            if any(("_is_model" in t or "_are_model" in t or "translated_" in t) for t in theorems) else []),
        evaluations=tot["items"], lines=tot["lines"], distinct_nontrivial=tot["nontrivial"], distinct_lines=tot["distinct"],
        rule=P.get("rule", ""), samples=tot["samples"] or ["<no cases ran>"], exhaustive=bool(P.get("exhaustive", {}).get(tier, False)),
        exhaustive_note=P.get("exhaustive_note", ""),
        branches=tot["branches"], correspondence=dict(passed=tot["passed"], mismatch=tot["mismatch"], violation=tot["violation"],
                                                      specfail=tot["specfail"], known=tot["known"]),
        partial=P.get("partial", ""), notes=notes + harness_notes, source_audit_hits=src_hits, proofs_build_ok=proofs_ok,
        known_findings=[k["id"] for k in known if k["id"] in known_hits],
    )
    ev = dict(property_id=prop, tier=tier, seed=seed, level="proof", coverage=cov,
              assumptions=P.get("assumptions", []), wall_s=round(wall, 2), violations=len(violations))
    os.makedirs(os.path.join(VERIF, "evidence"), exist_ok=True)
    with open(os.path.join(VERIF, "evidence", prop + ".json"), "w") as f:
        json.dump(ev, f, indent=1)
    log("check %s tier=%s seed=%d: items=%d lines=%d pass=%d fails=%d known=%d theorems=%d/%d wall=%.1fs exit=%d" % (
        prop, tier, seed, tot["items"], tot["lines"], tot["passed"], len(fails), tot["known"], len(discharged), len(theorems), wall, exit_code))
    return exit_code

if __name__ == "__main__":
    sys.exit(main())
