"""Helpers shared by the per-family registry plug-ins (tools/props/*.py)."""

DEFAULT_MODE_VARIANTS = ["", "-DST_DEFAULT_VALIDATION=ST::substitute_invalid -DVH_DEFAULT_MODE=\"s\"",
                         "-DST_DEFAULT_VALIDATION=ST::assume_valid -DVH_DEFAULT_MODE=\"a\""]

def T(prop, *names):
    """fully qualified names of the property theorems of `prop` (namespace StVerif.Props.<prop>)"""
    return ["StVerif.Props.%s.%s" % (prop, n) for n in names]
