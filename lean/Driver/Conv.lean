import Driver.Proto
import StVerif.Model.Utf
import StVerif.Spec.Unicode

namespace Driver.Conv
open StVerif StVerif.Utf Driver
open StVerif.Spec

def encOf (s : String) : Enc :=
  if s == "u8" then .utf8 else if s == "u16" || s == "u16c8" then .utf16 else if s == "l1" then .latin1 else .utf32

def widthOf (s : String) : Nat := if s == "u8" || s == "l1" then 8 else if s == "u16" || s == "u16c8" then 16 else 32

def modeOfTok (s : String) : Mode :=
  if s == "a" then .assumeValid else if s == "s" then .substituteInvalid else .checkValidity

def modeOf (c : Case) : Mode :=
  let m := c.get "m"
  if m == "d" then modeOfTok (c.get "dflt") else modeOfTok m

/-- routes that ignore the requested mode -/
def routeMode (route : String) (m : Mode) : Mode :=
  if route == "literal" || route == "validated" || route == "validated_c8" || route == "literal_c8" then .assumeValid
  else if route.startsWith "plus" then .checkValidity
  else m

def showO (w : Nat) (o : Outcome (List Nat)) : String := fmtOutcome (fmtUnits w) o

/-- model answer and reference answer for one conversion case -/
def evalCase (kind srcS dstS route : String) (m : Mode) (sub : Bool) (input : Option (List Nat)) :
    Outcome (List Nat) × Outcome (List Nat) × Bool :=
  let src := encOf srcS; let dst := encOf dstS
  let xs := input.getD []
  if kind == "free" then
    if (srcS == "w" && dstS == "u32") || (srcS == "u32" && dstS == "w") then
      (.ok xs, .ok xs, true)       -- plain copies on this platform (wchar_t is 32-bit)
    else
      (convert src dst m sub input, Unicode.reference src dst m sub xs, Unicode.wellFormedByDesign src xs)
  else if kind == "from" then
    let m := routeMode route m
    -- character concatenation widens every unit on its own: UTF-16 units are read as scalars, not as surrogate pairs
    let src := if route.startsWith "plus" && src == .utf16 then .utf32 else src
    if src == .utf8 then (stringFrom .utf8 m input, Unicode.referenceString m xs, Unicode.wellFormedByDesign .utf8 xs)
    else (stringFrom src m input, Unicode.reference src .utf8 m true xs, Unicode.wellFormedByDesign src xs)
  else
    (stringTo dst sub xs, if dst == .utf8 then .ok xs else Unicode.reference .utf8 dst .assumeValid sub xs,
      Unicode.wellFormedByDesign .utf8 xs)

def isOkOrUnicode (obs : String) : Bool := obs.startsWith "ok " || obs == "throw unicode_error"

def verdictOf (kind srcS dstS route : String) (m : Mode) (sub : Bool) (input : Option (List Nat)) (obs : String) : Verdict :=
  let w := if kind == "from" then 8 else widthOf dstS
  let (mo, ro, wf) := evalCase kind srcS dstS route m sub input
  let ms := showO w mo
  let rs := showO w ro
  -- assume_valid on malformed input: the properties only require a safe, well-shaped outcome
  let lenient := (m == .assumeValid || kind == "to") && !wf
  let spec := if lenient then isOkOrUnicode obs else obs == rs
  let known :=
    if obs.startsWith "abort assert:st_utf_conv_priv.h:Input_character_out_of_range" then "C03-utf8-to-utf16-above-10FFFF-assert" else ""
  { corr := ms == obs, spec, model := ms, known,
    why := if spec then "" else s!"outcome differs from the reference transcoding ({rs})",
    branch := s!"{kind}.{srcS}>{dstS}." ++ (if wf then "wf" else "malformed") ++ "." ++ (if obs.startsWith "ok" then "ok" else if obs.startsWith "throw" then "throw" else "other"),
    nontrivial := !(input.getD []).isEmpty }

def encScalar (e : String) (c : Nat) : List Nat :=
  if e == "u8" then Unicode.encUtf8 c else if e == "u16" then Unicode.encUtf16 c else [c]

def handle (c : Case) : Verdict :=
  let obs := obsString c
  match c.op with
  | "conv" =>
      if obs == "skip" then { nontrivial := false, branch := "skip" } else
      let kind := c.get "kind"; let srcS := c.get "src"
      let inS := c.get "in"
      let w := if kind == "to" then 8 else widthOf srcS
      let input : Option (List Nat) := if inS == "N" then none else some (parseUnits w inS)
      verdictOf kind srcS (c.get "dst") (c.get "route") (modeOf c) (c.nat "sub" 1 != 0) input obs
  | "reval" =>
      let srcS := c.get "src"; let dstS := c.get "dst"
      let src := encOf srcS; let dst := encOf dstS
      let xs := parseUnits (widthOf srcS) (c.get "in")
      let first := if src == .utf8 && dst == .utf8 then stringSetUtf8 .substituteInvalid (some xs) else convert src dst .substituteInvalid true (some xs)
      let ms := match first with
        | .ok out => if Unicode.wellFormedByDesign dst out then "valid" else "invalid"
        | _ => "first:" ++ (showO 8 first)
      -- class of the recorded finding: a tolerated form that crosses encodings onto a value the target's validator refuses
      let crossing := (Unicode.seg src xs).any fun sg => match sg with
        | .good v _ => (dst == .utf16 && 0xD800 ≤ v && v < 0xE000) || (dst == .utf32 && v > 0x10FFFF)
        | .bad _ => false
      { corr := ms == obs, spec := obs == "valid", model := ms,
        known := if crossing then (if dst == .utf16 then "C02-subst-utf16-encoded-surrogate" else "C02-subst-utf32-above-10FFFF") else "",
        why := "output of substitute_invalid does not pass check_validity of the target encoding",
        branch := s!"reval.{srcS}>{dstS}.{obs}", nontrivial := !xs.isEmpty }
  | "blk.conv" =>
      let kind := c.get "kind"; let srcS := c.get "src"; let dstS := c.get "dst"; let route := c.get "route"
      let inEnc := if kind == "to" then "u8" else srcS
      let w := widthOf inEnc
      let pre := parseUnits w (c.get "pre"); let suf := parseUnits w (c.get "suf")
      let lo := c.nat "lo"; let n := c.nat "n"; let m := modeOf c; let sub := c.nat "sub" 1 != 0
      let wo := if kind == "from" then 8 else widthOf dstS
      Id.run do
        let mut f : Fnv := {}
        let mut specOk := true
        let mut cnt := 0
        for ch in [lo:lo+n] do
          if ch ≥ 0xD800 ∧ ch < 0xE000 then continue
          cnt := cnt + 1
          let input := pre ++ encScalar inEnc ch ++ suf
          let (mo, ro, _) := evalCase kind srcS dstS route m sub (some input)
          if mo != ro then specOk := false
          f := f.str (showO wo mo)
        let ms := "digest " ++ f.hex
        return { corr := ms == obs, spec := specOk || ms != obs, model := ms,
                 why := "block: the model differs from the reference transcoding on some scalar",
                 branch := s!"blk.{kind}.{srcS}>{dstS}", items := cnt }
  | _ => { corr := false, why := "unknown op" }

end Driver.Conv
