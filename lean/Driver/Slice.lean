import Driver.Proto
import StVerif.Model.Slice
import StVerif.Spec.Slice

/-!
  Handler of the "slice" family (C08): `sl.substr`, `sl.left`, `sl.right`, `sl.trim_left`,
  `sl.trim_right`, `sl.trim`, `sl.ba` (before_first / after_first / before_last / after_last of one
  subject and separator in one line).

  Observation of a single call: `ok <bytes> alloc=<largest operator new request of the call>`.
-/
namespace Driver.Slice
open StVerif StVerif.Slice StVerif.Search Driver
open StVerif.Spec

/-- the revision of the code the driver follows (the repaired tree) -/
def rev : Rev := .fixed

def showRes (r : Res) : String := s!"{fmtUnits 8 r.bytes} alloc={r.alloc}"
def showO (o : Outcome Res) : String := fmtOutcome showRes o

/-- the property's predicate on one observed call: returned the stated bytes, and asked the
    allocator for no more than the subject's own size (+ terminator) -/
def specOne (s want : List Nat) (obsBytes : String) (obsAlloc : Nat) : Bool × String :=
  if obsBytes != fmtUnits 8 want then (false, s!"result differs from the specified slice ({fmtUnits 8 want})")
  else if obsAlloc > s.length + 1 then (false, s!"allocation request of {obsAlloc} units exceeds the subject's size {s.length}+1")
  else (true, "")

def specCall (s want : List Nat) (c : Case) : Bool × String :=
  match c.obs with
  | ["ok", b, a] =>
    if a.startsWith "alloc=" then specOne s want b ((a.drop 6).toString.toNat?.getD (2^64)) else (false, "malformed observation")
  | _ => (false, s!"did not return a string (specified: {fmtUnits 8 want})")

def caseOf (ci : Bool) : CaseMode := if ci then .insensitive else .sensitive

def sepOf (form : String) (bytes : List Nat) : Sep :=
  if form == "char" then .char (bytes.headD 0)
  else if form == "null" then .cstr none
  else if form == "cstr" then .cstr (some bytes)
  else .str bytes

def startClass (len : Nat) (start : Int) : String :=
  if start < -(len : Int) then "neg-beyond" else if start < 0 then "neg"
  else if start == 0 then "zero" else if start < len then "inside" else if start == len then "end" else "beyond"

def countClass (len : Nat) (start : Int) (count : Nat) : String :=
  if count == 2^64 - 1 then "auto" else if count ≥ 2^64 - 1 - len - 1 then "nearmax"
  else if count == 0 then "zero" else if (count : Int) + start.natAbs < len then "short" else if count ≤ len then "reach" else "over"

def nClass (len n : Nat) : String :=
  if n < len then "n<size" else if n == len then "n=size" else if n < 2 * len then "size<n<2size"
  else if n < 2^63 then "n>=2size" else "huge"

def handle (c : Case) : Verdict :=
  -- a throwing call also reports its largest allocation request; the model's outcome has no such field
  let obs := match c.obs with
    | "throw" :: kind :: _ => "throw " ++ kind
    | _ => obsString c
  let s := parseUnits 8 (c.get "s")
  match c.op with
  | "sl.substr" =>
    let start := c.int "start"; let count := c.nat "count"
    let m := showO (substr s start count rev)
    let (sp, why) := specCall s (Spec.Slice.substr s start count) c
    { corr := m == obs, spec := sp, why, model := m, nontrivial := !s.isEmpty,
      branch := s!"substr.{startClass s.length start}.{countClass s.length start count}" }
  | "sl.left" | "sl.right" =>
    let n := c.nat "n"
    let isL := c.op == "sl.left"
    let m := showO (if isL then left s n rev else right s n rev)
    let (sp, why) := specCall s (if isL then Spec.Slice.left s n else Spec.Slice.right s n) c
    { corr := m == obs, spec := sp, why, model := m, nontrivial := !s.isEmpty,
      branch := (if isL then "left." else "right.") ++ nClass s.length n }
  | "sl.trim_left" | "sl.trim_right" | "sl.trim" =>
    let dflt := c.get "cs" == "dflt"
    let charset := if dflt then whitespace else parseUnits 8 (c.get "cs")
    let cset := if dflt then Spec.Slice.whitespace else Spec.Slice.cString charset
    let (mo, want) :=
      if c.op == "sl.trim_left" then (trimLeft s charset rev, Spec.Slice.trimLeft s cset)
      else if c.op == "sl.trim_right" then (trimRight s charset rev, Spec.Slice.trimRight s cset)
      else (trim s charset rev, Spec.Slice.trim s cset)
    let m := showO mo
    let (sp, why) := specCall s want c
    { corr := m == obs, spec := sp, why, model := m, nontrivial := !s.isEmpty,
      branch := (c.op.drop 3).toString ++ (if dflt then ".dflt" else ".set") ++
        (if want.length == s.length then ".nothing" else if want.isEmpty then ".all" else ".some") }
  | "sl.ba" =>
    let form := c.get "form"
    let ci := c.get "ci" == "1"
    let sepBytes := parseUnits 8 (c.get "sep")
    let sep := sepOf form sepBytes
    let cs := caseOf ci
    let one (o : Outcome Res) : String :=
      match o with
      | .ok r => s!"{fmtUnits 8 r.bytes}/{r.alloc}"
      | o => "!" ++ sanitize (fmtOutcome (fun _ => "") o)
    let m := s!"ok bf={one (beforeFirst cs s sep rev)} af={one (afterFirst cs s sep rev)} " ++
             s!"bl={one (beforeLast cs s sep rev)} al={one (afterLast cs s sep rev)}"
    -- the bytes the separator denotes, independent of the overload form
    let sb := if form == "char" then [sepBytes.headD 0] else if form == "null" then [] else if form == "cstr" then Spec.Slice.cString sepBytes else sepBytes
    let wants := [("bf", Spec.Slice.beforeFirst cs s sb), ("af", Spec.Slice.afterFirst cs s sb), ("bl", Spec.Slice.beforeLast cs s sb), ("al", Spec.Slice.afterLast cs s sb)]
    let (sp, why) : Bool × String :=
      match c.obs with
      | "ok" :: rest =>
        if rest.length != 4 then (false, "malformed observation") else
        (wants.zip rest).foldl (fun acc (w, tok) =>
          if !acc.1 then acc else
          match (tok.splitOn "=") with
          | [k, v] =>
            match v.splitOn "/" with
            | [b, a] =>
              if k != w.1 then (false, "malformed observation") else
              let r := specOne s w.2 b (a.toNat?.getD (2^64))
              if r.1 then acc else (false, w.1 ++ ": " ++ r.2)
            | _ => (false, w.1 ++ ": did not return a string")
          | _ => (false, "malformed observation")) (true, "")
      | _ => (false, "did not return")
    { corr := m == obs, spec := sp, why, model := m, nontrivial := !s.isEmpty && !sb.isEmpty,
      branch := s!"ba.{form}.{if ci then "ci" else "cs"}." ++ (if Spec.Slice.occurs cs s sb then "occurs" else "absent") }
  | _ => { corr := false, spec := true, why := "unknown op", model := "?" }

end Driver.Slice
