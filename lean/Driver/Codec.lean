import Driver.Proto
import StVerif.Model.Codec
import StVerif.Spec.Rfc4648

namespace Driver.Codec
open StVerif StVerif.Codec Driver
open StVerif.Spec

def showEnc (o : Outcome (List Nat)) : String := fmtOutcome (fmtUnits 8) o

def showDec (r : DecRes) : String :=
  if r.oob then "abort asan:oob" else
  s!"ret={r.ret} out={fmtUnits 8 (if r.ret > 0 then r.writes.take r.ret.toNat else [])}"

/-- spec verdict for an encoder observation -/
def specEnc (b64 : Bool) (bs : List Nat) (obs : String) : Bool × String :=
  let want := if b64 then Rfc4648.b64Encode bs else Rfc4648.hexEncode bs
  let wantLen := if b64 then 4 * ((bs.length + 2) / 3) else 2 * bs.length
  if obs != "ok " ++ fmtUnits 8 want then (false, "encoding differs from RFC 4648")
  else if want.length != wantLen then (false, "length") else (true, "")

/-- the decoded bytes are the ones the text encodes (C14's "decodes back"): re-encoding them with the RFC encoder gives the
    text again — up to the unused low bits of the last data character of a padded group, which RFC 4648 lets a decoder
    ignore, and up to letter case for hex -/
def decodedMatches (b64 : Bool) (txt out : List Nat) : Bool :=
  if b64 then
    let enc := Rfc4648.b64Encode out
    let k := txt.length - 1 - Rfc4648.padCount txt       -- index of the last data character
    enc.length == txt.length &&
      (List.range txt.length).all fun i => enc.getD i 0 == txt.getD i 1 || (i == k && Rfc4648.padCount txt > 0)
  else Rfc4648.hexEncode out == txt.map fun c => if 65 ≤ c && c ≤ 70 then c + 32 else c

/-- spec verdict for the allocating decoder -/
def specDecAlloc (b64 : Bool) (txt : List Nat) (obs : String) : Bool × String :=
  let valid := if b64 then Rfc4648.b64Valid txt else Rfc4648.hexValid txt
  if valid then
    if obs.startsWith "ok " then
      let out := parseUnits 8 (obs.drop 3).toString
      let wantLen := if b64 then Rfc4648.b64DecodedLength txt else txt.length / 2
      if out.length != wantLen then (false, "decoded length")
      else if !decodedMatches b64 txt out then (false, "decoded bytes are not the bytes the text encodes")
      else (true, "")
    else (false, "valid input rejected")
  else
    if obs == "throw codec_error" then (true, "") else (false, "invalid input not rejected with codec_error")

/-- spec verdict for the caller-buffer decoder (`cap = none`: null output) -/
def specDecInto (b64 : Bool) (txt : List Nat) (cap : Option Nat) (c : Case) : Bool × String :=
  let valid := if b64 then Rfc4648.b64Valid txt else Rfc4648.hexValid txt
  let wantLen := if b64 then Rfc4648.b64DecodedLength txt else txt.length / 2
  let ret := ((c.obs.headD "").drop 4).toString.toInt?.getD (-99)
  if c.obs.any (·.startsWith "!") || (c.obs.any fun t => t.startsWith "out=!") then (false, "wrote outside the output") else
  match cap with
  | none =>
      -- length implied by the input's length and padding (−1 when the length itself is invalid)
      let lenOk := if b64 then txt.length % 4 == 0 else txt.length % 2 == 0
      let q : Nat := if b64 then Rfc4648.b64SizeQuery txt else txt.length / 2
      -- on valid text the length is unambiguous; on text with invalid characters either reading of
      -- "implied by length and padding" is accepted (strict trailing padding, or each '=' of the last two)
      if lenOk then (if (valid ∧ ret == wantLen) ∨ (!valid ∧ (ret == q ∨ ret == wantLen)) then (true, "") else (false, "null-output size query"))
      else (if ret == -1 then (true, "") else (false, "null-output size query on bad length"))
  | some cap =>
      if valid ∧ wantLen ≤ cap then
        if ret != wantLen then (false, "valid input that fits not decoded to the implied length")
        else
          let outTok := (c.obs.find? (·.startsWith "out=")).getD "out=-"
          if !decodedMatches b64 txt (parseUnits 8 (outTok.drop 4).toString) then (false, "decoded bytes are not the bytes the text encodes")
          else (true, "")
      else if ret == -1 then (true, "") else (false, "invalid or oversized input not rejected with -1")

def itemBytes (kind : String) (i : Nat) : List Nat :=
  if kind == "g3" then [(i >>> 16) % 256, (i >>> 8) % 256, i % 256]
  else if kind == "g2" then [(i >>> 8) % 256, i % 256] else [i % 256]

def groupText (alpha : Array Nat) (i : Nat) (len : Nat) : List Nat := Id.run do
  let mut i := i
  let mut g : List Nat := []
  for _ in [0:len] do
    g := alpha[i % alpha.size]! :: g
    i := i / alpha.size
  return g

def handle (c : Case) : Verdict :=
  let obs := obsString c
  match c.op with
  | "hexenc" | "b64enc" =>
      let b64 := c.op == "b64enc"
      let bs := parseUnits 8 (c.get "in")
      let m := showEnc (.ok (if b64 then b64Encode bs else hexEncode bs))
      let (sp, why) := specEnc b64 bs obs
      { corr := m == obs, spec := sp, why, model := m, branch := c.op ++ s!".len%3={bs.length % 3}", nontrivial := !bs.isEmpty }
  | "hexencN" | "b64encN" =>
      -- null data pointer: the empty text for size 0, `std::invalid_argument` otherwise (the documented contract)
      let m := if c.nat "size" == 0 then "ok -" else "throw invalid_argument"
      { corr := m == obs, spec := m == obs, why := if m == obs then "" else "null data pointer: expected " ++ m, model := m,
        branch := c.op ++ (if c.nat "size" == 0 then ".empty" else ".invalid_argument"), nontrivial := false }
  | "hexdecA" | "b64decA" =>
      let b64 := c.op == "b64decA"
      let txt := parseUnits 8 (c.get "in")
      let o := if b64 then b64DecodeAlloc txt else hexDecodeAlloc txt
      let m := showEnc o
      let (sp, why) := specDecAlloc b64 txt obs
      { corr := m == obs, spec := sp, why, model := m, branch := c.op ++ (if o.isOk then ".accept" else ".reject"), nontrivial := !txt.isEmpty }
  | "hexdec" | "b64dec" =>
      let b64 := c.op == "b64dec"
      let txt := parseUnits 8 (c.get "in")
      let cap : Option Nat := if c.get "cap" == "null" then none else some (c.nat "cap")
      let r := if b64 then b64DecodeInto txt cap else hexDecodeInto txt cap
      let m := showDec r
      let (sp, why) := specDecInto b64 txt cap c
      { corr := m == obs, spec := sp, why, model := m,
        branch := c.op ++ (if cap.isNone then ".null" else if r.ret < 0 then ".reject" else ".accept"), nontrivial := !txt.isEmpty }
  | "blk.enc" =>
      let b64 := c.get "codec" == "b64"
      let lo := c.nat "lo"; let n := c.nat "n"; let kind := c.get "kind"
      Id.run do
        let mut f : Fnv := {}
        let mut specOk := true
        for i in [lo:lo+n] do
          let bs := itemBytes kind i
          let enc := if b64 then b64Encode bs else hexEncode bs
          let want := if b64 then Rfc4648.b64Encode bs else Rfc4648.hexEncode bs
          if enc != want then specOk := false
          f := f.str (showEnc (.ok enc))
          let dA := if b64 then b64DecodeAlloc enc else hexDecodeAlloc enc
          if dA != .ok bs then specOk := false
          f := f.str (showEnc dA)
          let dI := if b64 then b64DecodeInto enc (some bs.length) else hexDecodeInto enc (some bs.length)
          if dI != { writes := bs, ret := bs.length } then specOk := false
          f := f.str (showDec dI)
        let m := "digest " ++ f.hex
        -- the model is checked against the spec item by item; a digest equal to the model's
        -- therefore certifies the implementation's items too
        return { corr := m == obs, spec := specOk || m != obs, why := "block: model item violates RFC 4648 / round trip",
                 model := m, branch := s!"blk.enc.{c.get "codec"}.{kind}", items := n }
  | "blk.dec" =>
      let b64 := c.get "codec" == "b64"
      let lo := c.nat "lo"; let n := c.nat "n"; let len := c.nat "len"
      let pre := parseUnits 8 (c.get "pre"); let alpha := (parseUnits 8 (c.get "alpha")).toArray
      let capd := c.int "capd"
      Id.run do
        let mut f : Fnv := {}
        let mut specOk := true
        for i in [lo:lo+n] do
          let txt := pre ++ groupText alpha i len
          let dA := if b64 then b64DecodeAlloc txt else hexDecodeAlloc txt
          let sA := showEnc dA
          if !(specDecAlloc b64 txt sA).1 then specOk := false
          f := f.str sA
          let need := (if b64 then b64DecodeInto txt none else hexDecodeInto txt none).ret
          f := f.i64 need
          let capI : Int := if need < 0 then 8 else need + capd
          let cap := capI.toNat
          let dI := if b64 then b64DecodeInto txt (some cap) else hexDecodeInto txt (some cap)
          let sI := showDec dI
          if !(specDecInto b64 txt (some cap) (parseLine ("x => " ++ sI))).1 then specOk := false
          if dI.writes.length > cap then specOk := false
          f := f.str sI
        let m := "digest " ++ f.hex
        return { corr := m == obs, spec := specOk || m != obs, why := "block: model item violates the acceptance spec",
                 model := m, branch := s!"blk.dec.{c.get "codec"}.capd={capd}", items := n }
  | _ => { corr := false, spec := true, why := "unknown op", model := "?" }

end Driver.Codec
