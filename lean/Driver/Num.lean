import Driver.Proto
import StVerif.Model.Num
import StVerif.Spec.Digits

namespace Driver.Num
open StVerif StVerif.Num Driver
open StVerif.Spec

def tyOf (s : String) : IntTy :=
  match s with
  | "s8" => .s8 | "s16" => .s16 | "s32" => .s32 | "s64" => .s64 | "sll" => .sll
  | "u8" => .u8 | "u16" => .u16 | "u32" => .u32 | "u64" => .u64 | _ => .ull

def clsOf (s : String) : DigitClass :=
  match s with
  | "def" => .dflt | "d" => .dec | "x" => .hex | "X" => .hexUpper | "o" => .oct | "b" => .bin | _ => .chr

def clsRadix : DigitClass → Nat × Bool
  | .hexUpper => (16, true) | .hex => (16, false) | .oct => (8, false) | .bin => (2, false) | _ => (10, false)

def baseCls (base : Nat) (up : Bool) : DigitClass :=
  if base == 16 then (if up then .hexUpper else .hex) else if base == 8 then .oct else if base == 2 then .bin else .dflt

def b01 (b : Bool) : String := if b then "1" else "0"

/-- the to_* members of one signedness with at least `minbits` bits, in the harness's order -/
def memberList (sgn : Bool) (minbits : Nat) : List (String × IntTy) :=
  if sgn then
    (if minbits ≤ 16 then [("short", IntTy.s16)] else []) ++ (if minbits ≤ 32 then [("int", IntTy.s32)] else []) ++
      [("long", .s64), ("llong", .sll), ("int64", .s64)]
  else
    (if minbits ≤ 16 then [("ushort", IntTy.u16)] else []) ++ (if minbits ≤ 32 then [("uint", IntTy.u32)] else []) ++
      [("ulong", .u64), ("ullong", .ull), ("uint64", .u64)]

def showMembers (s : List Nat) (base : Nat) (sgn : Bool) (minbits : Nat) : String :=
  String.join ((memberList sgn minbits).map fun (name, t) =>
    let (v, f) := toIntTyR t s base
    s!" {name}={v},{b01 f.ok}{b01 f.fullMatch},{toIntTy t s base}")

def showRefs (s : List Nat) (base : Nat) : String :=
  let l := strtol s base
  let ul := strtoul s base
  s!" l={l.value},{l.endp},{b01 l.erange} ul={ul.value},{ul.endp},{b01 ul.erange} ll={l.value},{l.endp},{b01 l.erange} ull={ul.value},{ul.endp},{b01 ul.erange}"

def showParse (s : List Nat) (base : Nat) : String :=
  "ok" ++ showMembers s base true 16 ++ showMembers s base false 16 ++ " |" ++ showRefs s base

def showText (o : Outcome (List Nat)) : String := fmtOutcome (fmtUnits 8) o

def showFrom (t : IntTy) (base : Nat) (up : Bool) (v : Int) : String :=
  match fromInt t base up v with
  | .ok text => "ok " ++ fmtUnits 8 text ++ showMembers text base t.signed t.bits
  | o => showText o

/-! ### spec side: judged on the implementation's own observation -/

/-- `name=a,b,c` tokens of an observation -/
def tokMap (obs : List String) : List (String × List String) :=
  obs.filterMap fun t =>
    match t.splitOn "=" with
    | [k, v] => some (k, v.splitOn ",")
    | _ => none

def lookup (m : List (String × List String)) (k : String) : List String :=
  match m.find? (·.1 == k) with
  | some (_, v) => v
  | none => []

/-- printing: canonical text, and every sufficient to_* member returns the value with ok ∧ full_match -/
def specPrint (t : IntTy) (base : Nat) (up : Bool) (v : Int) (c : Case) (withMembers : Bool) : Bool × String :=
  let want := Digits.intText base up v
  match c.obs with
  | "ok" :: hex :: rest =>
    if parseUnits 8 hex != want then (false, s!"text is not the canonical digit string ({fmtUnits 8 want})") else
    if !withMembers then (true, "") else
    let m := tokMap rest
    let bad := (memberList t.signed t.bits).filter fun (name, _) =>
      match lookup m name with
      | [a, fl, nv] => !(a.toInt? == some v && fl == "11" && nv.toInt? == some v)
      | _ => true
    (match bad with
     | [] => (true, "")
     | (name, _) :: _ => (false, s!"parsing the text back with to_{name} does not return the value with ok and full_match"))
  | _ => (false, "printer did not return a string (" ++ obsString c ++ ")")

/-- parsing: every member returns libc's value narrowed to its type; ok ⇔ consumed > 0; full_match ⇔ consumed = size;
    the empty string is a full match without ok; the overload without a result agrees -/
def specParse (size : Nat) (c : Case) : Bool × String :=
  let m := tokMap c.obs
  let check (sgn : Bool) : Option String :=
    ((memberList sgn 16).filterMap fun (name, t) =>
      let refName := if sgn then (if name == "llong" || name == "int64" then "ll" else "l") else (if name == "ullong" || name == "uint64" then "ull" else "ul")
      match lookup m name, lookup m refName with
      | [a, fl, nv], [rv, rend, _] =>
        let rv := rv.toInt?.getD 0
        let rend := rend.toNat?.getD 0
        let narrowed : Int := if sgn then toSigned t.bits (wrapW 64 rv) else ((rv.toNat % 2 ^ t.bits : Nat) : Int)
        let (wantV, wantFl) : Int × String :=
          if size == 0 then (0, "01") else (narrowed, b01 (rend > 0) ++ b01 (rend == size))
        if a.toInt? == some wantV && fl == wantFl && nv.toInt? == some narrowed then none
        else some s!"to_{name} differs from the narrowed libc result / flag meaning"
      | _, _ => some s!"missing observation for to_{name}").head?
  if c.obs.head? != some "ok" then (false, "parser did not return (" ++ obsString c ++ ")") else
  match check true, check false with
  | none, none => (true, "")
  | some w, _ => (false, w)
  | _, some w => (false, w)

/-- libc's answers against the declarative numeral prefix (validates Spec.parseSpec on this platform) -/
def refsMatchSpec (s : List Nat) (base : Nat) : Bool :=
  let n := Digits.parseSpec base s
  let l := strtol s base
  let ul := strtoul s base
  l.value == Digits.clampSigned 64 n && l.endp == n.consumed && ul.value == Digits.clampUnsigned 64 n && ul.endp == n.consumed

/-! ### digests -/

def fnvBytes (f : Fnv) (xs : List Nat) : Fnv := (xs.foldl (fun f b => f.byte b) f).byte 0xFF

def mix64 (x : UInt64) : UInt64 :=
  let x := x * 0x9E3779B97F4A7C15
  let x := x ^^^ (x >>> 30)
  let x := x * 0xBF58476D1CE4E5B9
  let x := x ^^^ (x >>> 27)
  let x := x * 0x94D049BB133111EB
  x ^^^ (x >>> 31)

def rndValue (seed i : UInt64) : UInt64 :=
  let x := mix64 (seed + i)
  let x := if i &&& 1 == 1 then x >>> (mix64 (seed + i + 0x51ED27) &&& 63) else x
  if i &&& 3 == 3 then 0 - x else x

def castTo (t : IntTy) (x : Nat) : Int := if t.signed then toSigned t.bits x else ((x % 2 ^ t.bits : Nat) : Int)

/-- the to_* member of exactly the type's width used by the digest items -/
def backTy (t : IntTy) : IntTy :=
  match t with
  | .s16 => .s16 | .s32 => .s32 | .s64 | .sll => .sll | .u16 => .u16 | .u32 => .u32 | .u64 | .ull => .ull | x => x

/-- digest of one printed value; also reports whether the model's item satisfies the spec -/
def digestPrint (f : Fnv) (t : IntTy) (v : Int) (base : Nat) (up doFrom doFmt doSs : Bool) : Fnv × Bool := Id.run do
  let mut f := f
  let mut good := true
  let want := Digits.intText base up v
  if doFrom then
    match fromInt t base up v with
    | .ok text =>
      f := fnvBytes f text
      let (back, fl) := toIntTyR (backTy t) text base
      f := f.u64 (wrapW 64 back)
      f := f.byte ((if fl.ok then 1 else 0) + (if fl.fullMatch then 2 else 0))
      if text != want || back != v || !fl.ok || !fl.fullMatch then good := false
    | _ => good := false; f := f.byte 0
  if doFmt then
    match formatInt t (baseCls base up) v with
    | .ok text => f := fnvBytes f text; if text != want then good := false
    | _ => good := false; f := f.byte 0
  if doSs then
    match streamInt t v with
    | .ok text => f := fnvBytes f text; if text != want then good := false
    | _ => good := false; f := f.byte 0
  return (f, good)

def groupText (alpha : Array Nat) (i : Nat) (len : Nat) : List Nat := Id.run do
  let mut i := i
  let mut g : List Nat := []
  for _ in [0:len] do
    g := alpha[i % alpha.size]! :: g
    i := i / alpha.size
  return g

def magnitudeClass (v : Int) (t : IntTy) : String :=
  if v == 0 then "zero" else if t.signed && v == -(2 ^ (t.bits - 1) : Int) then "min" else if v < 0 then "neg" else "pos"

def handle (c : Case) : Verdict :=
  let obs := obsString c
  match c.op with
  | "num.from" =>
      let t := tyOf (c.get "ty"); let base := c.nat "base"; let up := c.nat "up" != 0; let v := c.int "v"
      let m := showFrom t base up v
      let (sp, why) := specPrint t base up v c true
      { corr := m == obs, spec := sp, why, model := m, branch := s!"from.{c.get "ty"}.{magnitudeClass v t}", nontrivial := v != 0 }
  | "num.fmt" =>
      let t := tyOf (c.get "ty"); let dc := clsOf (c.get "cls"); let v := c.int "v"
      let mo := formatInt t dc v
      let m := showText mo
      let (radix, up) := clsRadix dc
      let (sp, why) := specPrint t radix up v c false
      -- an undefined-behaviour report is compared by its kind, not by its full text
      let corr := match mo with
        | .ub w => obs.startsWith ("abort ubsan:" ++ w)
        | _ => m == obs
      { corr, spec := sp, why, model := m, branch := s!"fmt.{c.get "ty"}.{c.get "cls"}.{magnitudeClass v t}", nontrivial := v != 0 }
  | "num.ss" =>
      let t := tyOf (c.get "ty"); let v := c.int "v"
      let mo := streamInt t v
      let m := showText mo
      let (sp, why) := specPrint t 10 false v c false
      let corr := match mo with
        | .ub w => obs.startsWith ("abort ubsan:" ++ w)
        | _ => m == obs
      { corr, spec := sp, why, model := m, branch := s!"ss.{c.get "ty"}.{magnitudeClass v t}", nontrivial := v != 0 }
  | "num.parse" =>
      let base := c.nat "base"; let s := parseUnits 8 (c.get "in")
      let m := showParse s base
      let (sp, why) := specParse s.length c
      let l := strtol s base
      { corr := m == obs && refsMatchSpec s base, spec := sp, why, model := m,
        branch := s!"parse.base{base}." ++ (if s.isEmpty then "empty" else if l.endp == 0 then "noconv" else if l.erange then "erange" else if l.endp == s.length then "full" else "prefix"),
        nontrivial := !s.isEmpty }
  | "num.bool" =>
      -- to_bool: "true" / "false" compared without regard to ASCII letter case, anything else is to_int() != 0 (base 0)
      let s := parseUnits 8 (c.get "in")
      let lower := s.map fun b => if 65 ≤ b && b ≤ 90 then b + 32 else b
      let (v, vr, ok, full) : Bool × Bool × Bool × Bool :=
        if lower == [116, 114, 117, 101] then (true, true, true, true)
        else if lower == [102, 97, 108, 115, 101] then (false, false, true, true)
        else
          let (x, f) := toIntTyR .s32 s 0
          (toIntTy .s32 s 0 != 0, x != 0, f.ok, f.fullMatch)
      let m := s!"ok v={b01 v} r={b01 vr},{b01 ok}{b01 full} fb={fmtUnits 8 (if v then [116, 114, 117, 101] else [102, 97, 108, 115, 101])}"
      { corr := m == obs, spec := m == obs, why := if m == obs then "" else "to_bool / from_bool differ from 'true'/'false' (any case) or to_int() != 0: " ++ m,
        model := m, branch := "bool." ++ (if lower == [116, 114, 117, 101] || lower == [102, 97, 108, 115, 101] then "word" else if ok then "number" else "other"),
        nontrivial := !s.isEmpty }
  | "blk.num.i16" =>
      let route := c.get "route"; let sgn := c.nat "sgn" != 0; let base := c.nat "base"; let up := c.nat "up" != 0
      let lo := c.nat "lo"; let n := c.nat "n"
      let t : IntTy := if sgn then .s16 else .u16
      Id.run do
        let mut f : Fnv := {}
        let mut specOk := true
        for i in [lo:lo+n] do
          let v : Int := if sgn then (i : Int) - 32768 else i
          let (f', good) := digestPrint f t v base up (route == "from") (route == "fmt") (route == "ss")
          f := f'
          if !good then specOk := false
        let m := "digest " ++ f.hex
        return { corr := m == obs, spec := specOk || m != obs, why := "block: model item is not the canonical text / does not parse back",
                 model := m, branch := s!"blk.i16.{route}.{if sgn then "s16" else "u16"}", items := n }
  | "blk.num.rnd" =>
      let t := tyOf (c.get "ty"); let base := c.nat "base"; let up := c.nat "up" != 0
      let seed := UInt64.ofNat (c.nat "seed"); let n := c.nat "n"
      let doFmt := (base == 10 || base == 16 || base == 8 || base == 2) && !(up && base != 16)
      let doSs := base == 10 && !up
      Id.run do
        let mut f : Fnv := {}
        let mut specOk := true
        for i in [0:n] do
          let v := castTo t (rndValue seed (UInt64.ofNat i)).toNat
          let (f', good) := digestPrint f t v base up true doFmt doSs
          f := f'
          if !good then specOk := false
        let m := "digest " ++ f.hex
        return { corr := m == obs, spec := specOk || m != obs, why := "block: model item is not the canonical text / does not parse back",
                 model := m, branch := s!"blk.rnd.{c.get "ty"}", items := n }
  | "blk.num.parse" =>
      let base := c.nat "base"; let alpha := (parseUnits 8 (c.get "alpha")).toArray; let len := c.nat "len"
      let lo := c.nat "lo"; let n := c.nat "n"
      Id.run do
        let mut f : Fnv := {}
        let mut specOk := true
        for i in [lo:lo+n] do
          let s := groupText alpha i len
          let line := showParse s base
          f := f.str line
          if !(specParse s.length (parseLine ("parse => " ++ line))).1 || !refsMatchSpec s base then specOk := false
        let m := "digest " ++ f.hex
        return { corr := m == obs, spec := specOk || m != obs, why := "block: model item violates the parsing spec",
                 model := m, branch := s!"blk.parse.base{base}.len{len}", items := n }
  | _ => { corr := false, spec := true, why := "unknown op", model := "?" }

end Driver.Num
