import Driver.Proto

/-!
  Handler of the "conc" family (C20): one case = N threads executing seeded programs on shared
  immutable objects and on their own objects, then the same programs run one after the other.

  Observation:  `race=<ThreadSanitizer report class | none> same=<0|1> ops=<n> seq=<digest> conc=<digest> [first=t<i>:op<k>:<name> round=<r>]`
  (or `race=<class> same=- at=<file:line>` when the race detector stopped the case, or the runner's
  `abort …` / `hang`).

  Judge (the property itself): no race report and every thread obtained the results it obtains when
  run alone.  Model answer: by `StVerif.Props.C20.schedule_independent` the observation sequence of
  every thread under any schedule equals its observation sequence when run alone, i.e. the digest of
  the concurrent run *is* the digest of the sequential run; the values of the individual operations
  are the subject of C06–C14 and are not recomputed here (the harness computes both digests).
-/
namespace Driver.Conc
open Driver

def field (c : Case) (k : String) : String :=
  match c.obs.find? (fun t => t.startsWith (k ++ "=")) with
  | some t => (t.drop (k.length + 1)).toString
  | none => ""

def handle (c : Case) : Verdict :=
  let n := c.nat "n"
  let len := c.nat "len"
  let branch := s!"{c.get "mix"}.n{n}.y{c.get "y"}"
  let nontrivial := n ≥ 2 && len > 0
  match c.obs with
  | "abort" :: _ | "hang" :: _ =>
    { corr := false, spec := false, nontrivial, branch, model := "race=none same=1",
      why := "the case did not complete: " ++ obsString c }
  | _ =>
    let race := field c "race"
    let same := field c "same"
    let seq := field c "seq"
    let conc := field c "conc"
    let ops := field c "ops"
    let model := s!"race=none same=1 ops={n * len} seq={seq} conc={seq}"
    if race == "" then
      { corr := false, spec := false, nontrivial, branch, model, why := "malformed observation" }
    else if race != "none" then
      { corr := false, spec := false, nontrivial, branch, model := "race=none same=1",
        why := s!"ThreadSanitizer report: {race}" }
    else
      let agree := same == "1" && seq != "" && conc == seq && ops == toString (n * len)
      { corr := agree, spec := same == "1", nontrivial, branch, model,
        why := if same == "1" then (if agree then "" else "digests / operation count inconsistent")
               else "a thread's results differ from the results it obtains when run alone" }

end Driver.Conc
