import Driver.Proto
import StVerif.Model.Float
import StVerif.Spec.FloatText

namespace Driver.Flt
open StVerif StVerif.Float StVerif.Num Driver
open StVerif.Spec

def hexNat (s : String) : Nat := s.toList.foldl (fun acc c => acc * 16 + hexDigitVal c) 0

def classOf (s : String) : FloatClass :=
  match s with
  | "f" => .fixed | "e" => .exp | "E" => .expUpper | _ => .dflt

def notationOf (s : String) : FloatText.Notation :=
  match s with
  | "f" => .fixed | "e" => .exp | "E" => .expUpper | _ => .dflt

def alignOf (s : String) : Align :=
  match s with
  | "l" => .left | "r" => .right | _ => .dflt

def isNaN64 (b : Nat) : Bool := (b >>> 52) % 2048 == 2047 && b % 2 ^ 52 != 0
def isNaN32 (b : Nat) : Bool := (b >>> 23) % 256 == 255 && b % 2 ^ 23 != 0

/-- exact float → double conversion on bit patterns, by the platform's own conversion (NaN payloads are
    not compared: Lean canonicalises them) -/
def promoteOk (b32 b64 : Nat) : Bool :=
  if isNaN32 b32 then isNaN64 b64 && (b64 >>> 63) == (b32 >>> 31)
  else (Float32.ofBits (UInt32.ofNat b32)).toFloat.toBits.toNat == b64

/-- model outcome against the observation: values and exception kinds literally, assertion failures by
    their message (the file name in the observation is not part of the model) -/
def corrOutcome (render : Outcome (List Nat)) (recWant : Option (List Nat)) (c : Case) : Bool × String :=
  let obs := obsString c
  match render with
  | .ok out =>
    let m := (match recWant with | some f => "rec=" ++ fmtUnits 8 f | none => "rec=none") ++ " out=" ++ fmtUnits 8 out
    (m == obs, m)
  | .assertFail msg =>
    let m := "abort assert:" ++ sanitize msg
    (obs.startsWith "abort assert:" && (obs.splitOn (sanitize msg)).length > 1, m)
  | o => let m := fmtOutcome (fmtUnits 8) o; (m == obs, m)

def lenClass (n : Nat) : String := if n < 64 then "lt64" else "ge64"

def handleCase (c : Case) : Verdict :=
  let obs := obsString c
  match c.op with
  | "flt.fmt" =>
      let isf := c.get "ty" == "f"
      let bits := hexNat (c.get "bits")
      let dbits := if isf then hexNat (c.get "dbits") else bits
      let reff := parseUnits 8 (c.get "reff"); let rend := parseUnits 8 (c.get "rend")
      let hasPrec := c.get "prec" != "none"
      let sp : FSpec := { minimumLength := c.int "wid", precision := if hasPrec then c.int "prec" else -1, alignment := alignOf (c.get "al"),
                          floatClass := classOf (c.get "cls"), pad := c.nat "pad", alwaysSigned := c.nat "sign" != 0 }
      let render : Render := fun _ _ => rend
      let mo := if isf then formatFloat render (fun _ => dbits) sp bits else formatDouble render sp bits
      let fmtM := assembleFormat sp
      let (corr, m) := corrOutcome mo (match fmtM with | .ok f => some f | _ => none) c
      -- spec: the conversion is the corresponding one, and the output is libc's rendering placed in the field
      let precSpec : Option Nat := if sp.precision ≥ 0 then some sp.precision.toNat else none
      let wantFmt := FloatText.printfFormat sp.alwaysSigned precSpec (notationOf (c.get "cls"))
      let wantOut := FloatText.padTo sp.minimumLength.toNat (sp.alignment == .left) (if sp.pad == 0 then 32 else sp.pad) rend
      -- the property speaks about the text produced; the recorded format belongs to the correspondence only
      let sp1 := c.obs.contains ("out=" ++ fmtUnits 8 wantOut) && wantFmt == reff && (!isf || promoteOk bits dbits)
      { corr := corr && fmtM == .ok reff, spec := sp1, model := m,
        why := if sp1 then "" else s!"output is not libc's rendering of {String.ofList (wantFmt.map Char.ofNat)} padded to the field",
        branch := s!"fmt.{c.get "route"}.{c.get "ty"}.{c.get "cls"}.{lenClass rend.length}", nontrivial := true }
  | "flt.from" | "flt.ss" =>
      let ty := c.get "ty"; let isf := ty == "f"
      let bits := hexNat (c.get "bits")
      let dbits := if isf then hexNat (c.get "dbits") else bits
      let reff := parseUnits 8 (c.get "reff"); let rend := parseUnits 8 (c.get "rend")
      let letter : Nat := if c.op == "flt.ss" || c.get "c" == "dflt" then 103 else c.nat "c" % 256
      let render : Render := fun _ _ => rend
      let mo := if c.op == "flt.ss" then (if isf then streamFloat render (fun _ => dbits) bits else streamDouble render bits)
                else (if isf then fromFloat render (fun _ => dbits) bits letter else fromDouble render bits letter)
      let valid := [101, 102, 103, 69, 70, 71].contains letter
      let (corr, m) := corrOutcome mo (if valid then some [37, letter] else none) c
      let sp0 := if valid then c.obs.contains ("out=" ++ fmtUnits 8 rend) else obs == "throw bad_format"
      let sp1 := sp0 && (!valid || reff == [37, letter]) && (!isf || promoteOk bits dbits)
      { corr, spec := sp1, model := m,
        why := if sp1 then "" else "text is not libc's rendering of the requested conversion",
        branch := s!"{c.op}.{ty}." ++ (if valid then lenClass rend.length else "badletter"), nontrivial := true }
  | "flt.parse" =>
      let s := parseUnits 8 (c.get "in")
      -- reference results reported by the harness (strtod / strtof on the same bytes)
      let refOf (k : String) : Nat × Nat :=
        match (c.obs.find? (·.startsWith (k ++ "="))) with
        | some t => (match ((t.drop (k.length + 1)).toString.splitOn ",") with
                     | [b, e] => (hexNat b, e.toNat?.getD 0)
                     | _ => (0, 0))
        | none => (0, 0)
      let rd := refOf "rd"; let rf := refOf "rf"
      let (dv, dfl) := toFloatingR (fun _ => rd) s
      let (fv, ffl) := toFloatingR (fun _ => rf) s
      let b01 (b : Bool) : String := if b then "1" else "0"
      let m := s!"ok d={fmtUnit 64 dv},{b01 dfl.ok}{b01 dfl.fullMatch},{fmtUnit 64 (toFloating (fun _ => rd) s)} " ++
               s!"f={fmtUnit 32 fv},{b01 ffl.ok}{b01 ffl.fullMatch},{fmtUnit 32 (toFloating (fun _ => rf) s)} " ++
               s!"| rd={fmtUnit 64 rd.1},{rd.2} rf={fmtUnit 32 rf.1},{rf.2}"
      -- spec: value = libc's, ok ⇔ consumed > 0, full_match ⇔ consumed = size, empty ↦ full ∧ ¬ok (value 0)
      let want (r : Nat × Nat) (w : Nat) : String :=
        if s.isEmpty then s!"{fmtUnit w 0},01,{fmtUnit w r.1}" else s!"{fmtUnit w r.1},{b01 (r.2 > 0)}{b01 (r.2 == s.length)},{fmtUnit w r.1}"
      let sp1 := c.obs.contains ("d=" ++ want rd 64) && c.obs.contains ("f=" ++ want rf 32) && rd.2 ≤ s.length && rf.2 ≤ s.length
      { corr := m == obs, spec := sp1, model := m, why := if sp1 then "" else "to_double/to_float differ from strtod/strtof or the flag meaning",
        branch := "parse." ++ (if s.isEmpty then "empty" else if rd.2 == 0 then "noconv" else if rd.2 == s.length then "full" else "prefix"),
        nontrivial := !s.isEmpty }
  | _ => { corr := false, spec := true, why := "unknown op", model := "?" }

/-- An input line whose reference fields do not belong to its value/spec (only a hand-edited or shrunk replay
    line can be: the generator computes them from the value) is not a case of the property; it is reported as a
    correspondence mismatch, never as a violation. -/
def handle (c : Case) : Verdict :=
  let obs := obsString c
  if obs.startsWith "!ref-mismatch" || obs.startsWith "!promotion-mismatch" then
    { corr := false, spec := true, model := "-", why := "inconsistent input line (reference fields do not match the value)", branch := "invalid-input" }
  else handleCase c

end Driver.Flt
