import Driver.Proto
import StVerif.Model.StrPool
import StVerif.Spec.Value
import StVerif.Model.Slice
import StVerif.Model.Split
import StVerif.Model.Compare
import StVerif.Model.Codec
import StVerif.Model.Num

namespace Driver.Str
open StVerif StVerif.Pool StVerif.StrPool Driver
open StVerif.Spec

def NOBJ : Nat := 9
def L : Nat := 16

def modeOf (s : String) : Mode :=
  if s == "c" then .checkValidity else if s == "s" then .substituteInvalid else .assumeValid

def faultName : Fault → String
  | .badFree => "badFree" | .doubleFree => "doubleFree" | .useAfterFree => "useAfterFree" | .oob => "oob" | .deadObject => "deadObject"

/-! ### parsed operation text -/

structure RawOp where
  c : Char
  f : List String      -- comma separated fields after the op letter (before ':')
  tail : String        -- after ':'
  deriving Inhabited

def parseRaw (s : String) : RawOp :=
  let c := s.front
  let body := (s.drop 1).toString
  match body.splitOn ":" with
  | [a] => { c, f := a.splitOn ",", tail := "" }
  | a :: rest => { c, f := a.splitOn ",", tail := String.intercalate ":" rest }
  | [] => { c, f := [], tail := "" }

def RawOp.num (r : RawOp) (i : Nat) : Nat := ((r.f.getD i "").toNat?).getD 999
def RawOp.int (r : RawOp) (i : Nat) : Int := ((r.f.getD i "").toInt?).getD 0
def RawOp.str (r : RawOp) (i : Nat) : String := r.f.getD i ""

def slotX : List String := ["trimset", "bfs", "als", "plus", "plusc", "cplus", "ssout", "bf", "af", "bl", "al", "repl", "replci", "replc", "fmtwith"]
def slotY : List String := ["repl", "replci", "replc"]
def vSlotX : List String := ["splits", "splitz", "tokset"]
def qSlotX : List String := ["find", "findi", "findlast", "contains", "starts", "ends", "cmp", "cmpi", "cmpc", "eq", "lessi", "findat", "cmpn"]

def vDests (r : RawOp) : List Nat := ((r.tail.splitOn ",").take 3).filterMap fun s => if s.isEmpty then none else s.toNat?

/-- the harness's `precheck`, evaluated on the model's liveness -/
def precheck (p : Pool) (r : RawOp) : Bool :=
  let alive (o : Nat) (n : Nat := 8) : Bool := o < n && (p.objs o).isSome
  let dead (o : Nat) (n : Nat := 8) : Bool := o < n && (p.objs o).isNone
  let o := r.num 0
  let s := r.num 1
  match r.c with
  | 'N' | 'D' => dead o
  | 'C' | 'M' => dead o && alive s
  | 'X' => alive o 9
  | 'c' | 'P' | 'p' => alive o && alive s
  | 'm' => alive o && alive s && o != s
  | 'R' | 'a' | 'e' | 'S' | 'T' | 'E' | 'w' | 'Y' => alive o
  | 'U' => o == 8 && (p.objs 8).isNone
  | 'b' | 'B' | 'h' | 'H' => alive o && (p.objs 8).isSome
  | 'G' | 'g' => dead o && (p.objs 8).isSome
  | 'F' => dead o && alive s && alive (r.num 2) && r.num 2 != s
  | 'K' =>
    let n := r.str 2
    (if o == 8 then (p.objs 8).isNone else dead o) && alive s &&
      (!slotX.contains n || alive (r.num 3)) && (!slotY.contains n || alive (r.num 4))
  | 'V' =>
    let n := r.str 1
    let ds := vDests r
    alive o && (!vSlotX.contains n || alive (r.num 2)) && ds.all (fun d => dead d) && ds.eraseDups.length == ds.length
  | 'Q' => alive o && (!qSlotX.contains (r.str 1) || alive (r.num 2))
  | _ => false

/-! ### observed snapshots -/

structure ObsObj where
  id : Nat
  size : Nat
  units : List Nat
  term : Nat
  whereS : String
  ptr : String
  deriving Inhabited, BEq

def parseSnapshot (s : String) : Option (List ObsObj) :=
  if s == "-" then some [] else
  (s.splitOn ",").mapM fun part =>
    match part.splitOn ":" with
    | [oid, sz, us, t, wh, pf] =>
      some { id := (oid.drop 1).toString.toNat?.getD 99, size := sz.toNat?.getD 0, units := parseUnits 8 us,
             term := (parseUnits 8 t).headD 1, whereS := wh, ptr := pf }
    | _ => none

/-- a step token `s<i>=[!exc|]snapshot` -/
structure ObsStep where
  exc : String          -- "" = completed
  snapS : String
  snap : Option (List ObsObj)

def parseStep (tok : String) : ObsStep :=
  let body := String.intercalate "=" ((tok.splitOn "=").drop 1)
  if body.startsWith "!" then
    match body.splitOn "|" with
    | [e, s] => { exc := (e.drop 1).toString, snapS := s, snap := parseSnapshot s }
    | _ => { exc := "?", snapS := body, snap := none }
  else { exc := "", snapS := body, snap := parseSnapshot body }

def excOfName (s : String) : Option Exc :=
  if s == "unicode_error" then some .unicodeError else if s == "codec_error" then some .codecError
  else if s == "bad_format" then some .badFormat else if s == "out_of_range" then some .outOfRange
  else if s == "invalid_argument" then some .invalidArgument else if s == "bad_alloc" then some .badAlloc else none

/-! ### model side -/

def valueOf (p : Pool) (o : Nat) : List Nat :=
  match observe o p with
  | .ok ob _ => ob.units
  | _ => []

def upToNul (xs : List Nat) : List Nat := xs.takeWhile (· != 0)

/-! ### values of derived results, from the models of C06–C09 / C14 (ties the histories to the value models) -/

def okBytes (o : Outcome Slice.Res) : Option (List Nat) := match o with | .ok r => some r.bytes | _ => none
def okList {α : Type} (o : Outcome α) : Option α := match o with | .ok r => some r | _ => none

/-- what the const operation `name` must return for source `v` and arguments `x`, `y` (values of slots or numbers),
    whenever one of the value models covers it; `none` = not covered here (value taken from the observation) -/
def expectedK (p : Pool) (name : String) (v : List Nat) (xn yn : Int) : Option (List Nat) :=
  let slot (i : Int) : List Nat := valueOf p i.toNat
  let cm (f : Int) : Search.CaseMode := if f != 0 then .insensitive else .sensitive
  if name == "substr" then okBytes (Slice.substr v xn yn.toNat)
  else if name == "whole" then some v
  else if name == "left" then okBytes (Slice.left v xn.toNat)
  else if name == "right" then okBytes (Slice.right v xn.toNat)
  else if name == "trim" then okBytes (Slice.trim v Slice.whitespace)
  else if name == "triml" then okBytes (Slice.trimLeft v Slice.whitespace)
  else if name == "trimr" then okBytes (Slice.trimRight v Slice.whitespace)
  else if name == "trimset" then okBytes (Slice.trim v (Slice.cBytes (slot xn)))
  else if name == "upper" then some (Compare.toUpper v)
  else if name == "lower" then some (Compare.toLower v)
  else if name == "repl" then okList (Split.replace .sensitive v (slot xn) (slot yn))
  else if name == "replci" then okList (Split.replace .insensitive v (slot xn) (slot yn))
  else if name == "bf" then okBytes (Slice.beforeFirst (cm yn) v (.str (slot xn)))
  else if name == "af" then okBytes (Slice.afterFirst (cm yn) v (.str (slot xn)))
  else if name == "bl" then okBytes (Slice.beforeLast (cm yn) v (.str (slot xn)))
  else if name == "al" then okBytes (Slice.afterLast (cm yn) v (.str (slot xn)))
  else if name == "bfc" then okBytes (Slice.beforeFirst .sensitive v (.char xn.toNat))
  else if name == "afc" then okBytes (Slice.afterFirst .sensitive v (.char xn.toNat))
  else if name == "blc" then okBytes (Slice.beforeLast .sensitive v (.char xn.toNat))
  else if name == "alc" then okBytes (Slice.afterLast .sensitive v (.char xn.toNat))
  else if name == "plus" then some (v ++ slot xn)
  else if name == "copyvia" then some v
  else if name == "fromlatin1" then okList (Utf.stringFrom .latin1 .checkValidity (some v))
  else if name == "fromutf8" then some (Utf.cleanupUtf8 v)
  else if name == "plusc" then okList ((Utf.stringFrom .utf8 .checkValidity (some (upToNul (slot xn)))).map (v ++ ·))
  else if name == "cplus" then okList ((Utf.stringFrom .utf8 .checkValidity (some (upToNul (slot xn)))).map (· ++ v))
  else if name == "plusch" then (Utf.writeUtf8 xn.toNat).map (v ++ ·)
  else if name == "chplus" then (Utf.writeUtf8 xn.toNat).map (· ++ v)
  -- char16_t widens as it is, char through unsigned char, wchar_t through unsigned int
  else if name == "plusch16" then (Utf.writeUtf8 (xn.toNat % 65536)).map (v ++ ·)
  else if name == "ch16plus" then (Utf.writeUtf8 (xn.toNat % 65536)).map (· ++ v)
  else if name == "pluschw" then (Utf.writeUtf8 (xn % 4294967296).toNat).map (v ++ ·)
  else if name == "chwplus" then (Utf.writeUtf8 (xn % 4294967296).toNat).map (· ++ v)
  else if name == "pluschc" then (Utf.writeUtf8 (xn % 256).toNat).map (v ++ ·)
  else if name == "chcplus" then (Utf.writeUtf8 (xn % 256).toNat).map (· ++ v)
  else if name == "fill" then some (List.replicate xn.toNat (yn.toNat % 256))
  else if name == "fromint" then okList (Num.fromInt .s64 10 false xn)
  else if name == "via16" then okList ((Utf.stringTo .utf16 true v).bind fun u => Utf.stringFrom .utf16 .checkValidity (some u))
  else if name == "via32" || name == "viaw" then okList ((Utf.stringTo .utf32 true v).bind fun u => Utf.stringFrom .utf32 .checkValidity (some u))
  else if name == "viastd" then okList (Utf.stringFrom .utf8 .checkValidity (some v))
  else if name == "fromutf8c" then okList (Utf.stringFrom .utf8 .checkValidity (some v))
  else if name == "toutf8" then some v
  else if name == "tolatin1" then okList (Utf.stringTo .latin1 true v)
  else if name == "tolatin1x" then okList (Utf.stringTo .latin1 false v)
  else if name == "hexdec" then okList (Codec.hexDecodeAlloc v)
  else if name == "b64dec" then okList (Codec.b64DecodeAlloc v)
  else if name == "hexenc" then some (Codec.hexEncode v)
  else if name == "b64enc" then some (Codec.b64Encode v)
  else none

def expectedV (p : Pool) (name : String) (v : List Nat) (xn yn : Int) : Option (List (List Nat)) :=
  let maxS : Nat := if yn < 0 then SIZE_MAX else yn.toNat
  if name == "splitc" then okList (Split.splitChar .sensitive v xn.toNat maxS)
  else if name == "splits" then okList (Split.splitStr .sensitive v (valueOf p xn.toNat) maxS)
  else if name == "tok" then okList (Split.tokenize v Slice.whitespace)
  else none

/-- translate an operation into the model's vocabulary; values of derived objects and exceptions of
    value computations are taken from the observation (`cur`) -/
def toSOp (p : Pool) (r : RawOp) (cur : ObsStep) : Option SOp :=
  let o := r.num 0
  let s := r.num 1
  let observed (d : Nat) : List Nat := match cur.snap with
    | some objs => match objs.find? (·.id == d) with | some ob => ob.units | none => []
    | none => []
  match r.c with
  | 'N' => some (.ctorText o (parseUnits 8 r.tail) .assumeValid)
  | 'D' => some (.ctorDefault o)
  | 'C' => some (.ctorCopy o s)
  | 'M' => some (.ctorMove o s)
  | 'X' => some (.dtor o)
  | 'c' => some (.assignCopy o s)
  | 'm' => some (.assignMove o s)
  | 'R' => some (.clear o)
  | 'P' => some (.appendStr o s)
  | 'p' => some (.appendText o (upToNul (valueOf p s)) .checkValidity)
  | 'a' => some (.appendChar o s)
  | 'e' => some (.appendChar o s)
  | 'S' => some (.setText o (parseUnits 8 r.tail) (modeOf (r.str 1)))
  | 'w' =>
    -- o.set(o.c_str() + k, n, mode): the bytes are copied into a temporary buffer first, so aliasing is harmless
    let v := valueOf p o
    let k := min (r.num 1) v.length
    let n := min (r.num 2) (v.length - k)
    some (.setText o ((v.drop k).take n) (modeOf (r.str 3)))
  | 'Y' => some (.setText o (upToNul (valueOf p o)) .checkValidity)
  | 'T' | 'E' =>
    let w := r.num 2
    let enc : Utf.Enc := if w == 16 then .utf16 else .utf32
    let conv := Utf.stringFrom enc (modeOf (r.str 1)) (some (parseUnits w r.tail))
    some (if r.c == 'T' then .setConv o conv else .assignConv o conv)
  | 'U' => some (.bufCtor (parseUnits 8 r.tail))
  | 'b' => some (.setBufMove o (modeOf (r.str 1)))
  | 'B' => some (.setBufCopy o (modeOf (r.str 1)))
  | 'h' => some (.setBufMove o .checkValidity)
  | 'H' => some (.setBufCopy o .checkValidity)
  | 'G' => some (.ctorBufMove o (modeOf (r.str 1)))
  | 'g' => some (.ctorBufCopy o (modeOf (r.str 1)))
  | 'K' =>
    if cur.exc == "" then
      -- the value comes from the value model when one covers the operation, else from the observation
      let v := (expectedK p (r.str 2) (valueOf p s) (r.int 3) (r.int 4)).getD (observed o)
      some (.derive [(o, v)])
    else
      -- an exception other than an injected bad_alloc where the value model says the operation returns a value:
      -- the model keeps its own answer, so the step shows as a disagreement
      match (if cur.exc == "bad_alloc" then none else expectedK p (r.str 2) (valueOf p s) (r.int 3) (r.int 4)) with
      | some v => some (.derive [(o, v)])
      | none => (excOfName cur.exc).map .deriveThrow
  | 'V' =>
    if cur.exc == "" then
      let ds := vDests r
      match expectedV p (r.str 1) (valueOf p o) (r.int 2) (r.int 3) with
      | some pieces => some (.derive (ds.zipIdx.map fun (d, i) => (d, pieces.getD i [])))
      | none => some (.derive (ds.map fun d => (d, observed d)))
    else
      match (if cur.exc == "bad_alloc" then none else expectedV p (r.str 1) (valueOf p o) (r.int 2) (r.int 3)) with
      | some pieces => some (.derive ((vDests r).zipIdx.map fun (d, i) => (d, pieces.getD i [])))
      | none => (excOfName cur.exc).map .deriveThrow
  | 'Q' => if cur.exc == "" then some .query else (excOfName cur.exc).map .deriveThrow
  | _ => none

/-- `F<d>,<s>,<x>`: `d = ST::format(<text of s>, std::move(<string x>), 42)`, an argument passed as an rvalue.  The
    formatter refers to its arguments (repaired code: `make_formatter_ref` captures by reference; the pinned code moved the
    rvalue into a closure before parsing, so a `bad_format` / `out_of_range` left `x` empty - the C18 defect this operation
    found), so `x` keeps its value whether the call returns or throws: one `derive` step, or nothing when it throws.
    (`toSOps` / `runSeq` allow one harness operation to be several steps of the model.) -/
def toSOps (p : Pool) (r : RawOp) (cur : ObsStep) : Option (List SOp) :=
  if r.c == 'F' then
    let o := r.num 0
    let observed (d : Nat) : List Nat := match cur.snap with
      | some objs => match objs.find? (·.id == d) with | some ob => ob.units | none => []
      | none => []
    if cur.exc == "" then some [.derive [(o, observed o)]]
    else (excOfName cur.exc).map fun e => [.deriveThrow e]
  else (toSOp p r cur).map fun x => [x]

def runSeq : List SOp → Pool → Pool.Res Unit
  | [], p => .ok () p
  | x :: rest, p =>
    match x.run p with
    | .ok _ p' => runSeq rest p'
    | other => other

/-- model snapshot in the harness's format; the pointer flag is `=` (same storage as in the previous
    snapshot), `n` (object new in this snapshot) or `?` (storage changed while alive: the allocator may
    hand the same address out again, so either flag is accepted) -/
def snapshot (p : Pool) (prev : Nat → Option Ptr) : String × (Nat → Option Ptr) := Id.run do
  let mut parts : List String := []
  let mut blocks : List Nat := []
  let mut cur : List (Nat × Ptr) := []
  for o in [0:NOBJ] do
    match p.objs o with
    | none => pure ()
    | some b =>
      cur := (o, b.chars) :: cur
      let flag := match prev o with
        | none => "n"
        | some q => if q == b.chars then "=" else "?"
      match observe o p with
      | .ok ob _ =>
        let whereS ← match b.chars with
          | .loc o' => pure (if o' == o then "L" else if (p.objs o').isSome then s!"A{o'}" else s!"Z{o'}")
          | .heap k =>
            match blocks.idxOf? k with
            | some i => pure s!"H{i}"
            | none => do
              let i := blocks.length
              blocks := blocks ++ [k]
              pure s!"H{i}"
        parts := parts ++ [s!"o{o}:{ob.size}:{fmtUnits 8 ob.units}:{fmtUnit 8 ob.terminator}:{whereS}:{flag}"]
      | .fault f _ => parts := parts ++ [s!"o{o}:FAULT:{faultName f}"]
      | .throw _ _ => parts := parts ++ [s!"o{o}:THROW"]
  let m := cur
  return (if parts.isEmpty then "-" else String.intercalate "," parts, fun o => (m.find? (·.1 == o)).map (·.2))

/-- equality up to the wildcard `?` in the model string -/
def matchesWild (model obs : String) : Bool :=
  let a := model.toList
  let b := obs.toList
  a.length == b.length && (a.zip b).all fun (x, y) => x == y || (x == '?' && (y == '=' || y == 'n'))

def leaked (p : Pool) : Bool := (List.range p.next).any fun k => (p.heap k).isSome

def destroyAll (p : Pool) : Pool × Option Fault := Id.run do
  let mut p := p
  let mut flt : Option Fault := none
  for o in [0:NOBJ] do
    if (p.objs o).isSome then
      match dtor o p with
      | .ok _ p' => p := p'
      | .fault f p' => p := p'; flt := some f
      | .throw _ p' => p := p'
  return (p, flt)

/-! ### the property's own predicate on consecutive observed snapshots (C04 / C18 / C05 for strings) -/

def sameObj (a b : ObsObj) : Bool :=
  a.id == b.id && a.size == b.size && a.units == b.units && a.term == b.term &&
  (a.whereS.take 1).toString == (b.whereS.take 1).toString && b.ptr == "="

/-- structural validity of one snapshot: NUL after the last byte, short contents in the object, long
    contents in a heap block of its own -/
def judgeShape (obs : List ObsObj) : Option String :=
  let heapLabels := obs.filterMap fun ob => if ob.whereS.startsWith "H" then some ob.whereS else none
  if heapLabels.eraseDups.length != heapLabels.length then some "two objects share a heap block" else
  obs.findSome? fun ob =>
    if ob.term != 0 then some s!"o{ob.id}: no NUL after the last byte"
    else if ob.units.length != ob.size then some s!"o{ob.id}: size differs from the bytes held"
    else if ob.whereS.startsWith "!" then some s!"o{ob.id}: an observer disagrees with c_str()/size() ({ob.whereS})"
    else if ob.whereS.startsWith "A" || ob.whereS.startsWith "Z" then some s!"o{ob.id}: data() points into another object"
    else if ob.size < L && ob.whereS != "L" then some s!"o{ob.id}: short contents not inside the object"
    else if ob.size ≥ L && !ob.whereS.startsWith "H" then some s!"o{ob.id}: long contents not on the heap"
    else none

/-- objects outside `targets` that were alive before must be bit-identical (bytes, size, data pointer) -/
def judgeFrame (prev cur : List ObsObj) (targets : List Nat) : Option String :=
  prev.findSome? fun a =>
    if targets.contains a.id then none else
    match cur.find? (·.id == a.id) with
    | none => some s!"o{a.id} disappeared although the operation does not name it as its target"
    | some b => if sameObj a b then none else some s!"o{a.id} changed (bytes, size or data pointer) although the operation does not target it"

def judgeNoNew (prev cur : List ObsObj) (allowed : List Nat) : Option String :=
  cur.findSome? fun b =>
    if (prev.any (·.id == b.id)) || allowed.contains b.id then none else some s!"o{b.id} appeared unexpectedly"

def targetsOfRaw (r : RawOp) : List Nat :=
  let o := r.num 0
  let s := r.num 1
  match r.c with
  | 'M' | 'm' => [o, s]
  | 'b' | 'h' | 'G' => [o, 8]
  | 'U' => [8]
  | 'K' => [o]
  | 'F' => [o]
  | 'V' => vDests r
  | 'Q' => []
  | _ => [o]

/-- value of each object as the property describes it (Spec.Value): what the target must hold afterwards -/
def expectValue (vals : Nat → Option Value.V) (r : RawOp) : List (Nat × Value.V) :=
  let o := r.num 0
  let s := r.num 1
  let get (x : Nat) : Value.V := (vals x).getD .unspecified
  match r.c with
  | 'N' => [(o, .known (parseUnits 8 r.tail))]
  | 'D' | 'R' => [(o, .known [])]
  | 'C' | 'c' => [(o, get s)]
  | 'M' => [(o, get s), (s, .unspecified)]
  | 'm' => [(o, get s), (s, .unspecified)]
  | 'P' => [(o, Value.append (get o) (get s))]
  | 'p' => [(o, Value.append (get o) (Value.mapKnown upToNul (get s)))]
  | 'S' => if modeOf (r.str 1) == .substituteInvalid then [(o, .unspecified)] else [(o, .known (parseUnits 8 r.tail))]
  | 'w' =>
    if modeOf (r.str 3) == .substituteInvalid then [(o, .unspecified)] else
    [(o, Value.mapKnown (fun v => let k := min (r.num 1) v.length; (v.drop k).take (min (r.num 2) (v.length - k))) (get o))]
  | 'Y' => [(o, Value.mapKnown upToNul (get o))]
  | 'U' => [(8, .known (parseUnits 8 r.tail))]
  | 'b' | 'G' => let m := modeOf (r.str 1); if m == .substituteInvalid then [(o, .unspecified)] else [(o, get 8), (8, .unspecified)]
  | 'B' | 'g' => let m := modeOf (r.str 1); if m == .substituteInvalid then [(o, .unspecified)] else [(o, get 8)]
  | 'h' => [(o, get 8), (8, .unspecified)]
  | 'H' => [(o, get 8)]
  | _ => (targetsOfRaw r).map fun t => (t, .unspecified)

structure RunState where
  p : Pool
  prevPtr : Nat → Option Ptr := fun _ => none
  prevObs : List ObsObj := []
  vals : Nat → Option Value.V := fun _ => none

/-- one step: returns the model's token, the spec complaint (if any) and the new state -/
def stepOne (st : RunState) (opS : String) (cur : ObsStep) (i : Nat) : String × Option String × RunState × Bool := Id.run do
  let r := parseRaw opS
  let curObs := cur.snap.getD []
  -- spec side first (independent of the model)
  let shape := judgeShape curObs
  let mut spec : Option String := if cur.snap.isNone then some "unreadable snapshot" else shape
  let threw := cur.exc != ""
  if spec.isNone then
    if threw then
      -- C18 (and skipped steps): nothing may change, nothing may appear
      spec := (judgeFrame st.prevObs curObs []).orElse fun _ => judgeNoNew st.prevObs curObs []
      if spec.isNone && !(["skip", "unicode_error", "codec_error", "bad_format", "out_of_range"].contains cur.exc) then
        spec := some s!"unexpected exception kind {cur.exc}"
    else
      let tg := targetsOfRaw r
      spec := (judgeFrame st.prevObs curObs tg).orElse fun _ => judgeNoNew st.prevObs curObs tg
      if spec.isNone && r.c == 'X' && curObs.any (·.id == r.num 0) then spec := some "destroyed object still reported alive"
  -- values the property prescribes
  let mut vals := st.vals
  if !threw then
    for (t, v) in expectValue st.vals r do
      vals := fun x => if x == t then (if r.c == 'X' then none else some v) else vals x
    if r.c == 'X' then
      let o := r.num 0
      vals := fun x => if x == o then none else vals x
    if spec.isNone then
      spec := curObs.findSome? fun ob => match vals ob.id with
        | some (.known us) => if us == ob.units then none else some s!"o{ob.id} does not hold the value last given to it"
        | _ => none
  let specOut := spec.map fun w => s!"step {i} ({opS}): {w}"
  -- model side
  if !precheck st.p r then
    let (snapS, ptrs) := snapshot st.p st.prevPtr
    return (s!"!skip|{snapS}", specOut, { p := st.p, prevPtr := ptrs, prevObs := curObs, vals := vals }, false)
  match toSOps st.p r cur with
  | none => return ("UNPARSABLE", specOut, { st with prevObs := curObs, vals := vals }, true)
  | some sops =>
    match runSeq sops st.p with
    | .ok _ p' =>
      let (snapS, ptrs) := snapshot p' st.prevPtr
      return (snapS, specOut, { p := p', prevPtr := ptrs, prevObs := curObs, vals := vals }, false)
    | .throw e p' =>
      let (snapS, ptrs) := snapshot p' st.prevPtr
      return (s!"!{excName e}|{snapS}", specOut, { p := p', prevPtr := ptrs, prevObs := curObs, vals := vals }, false)
    | .fault f p' =>
      return (s!"FAULT:{faultName f}", specOut, { p := p', prevObs := curObs, vals := vals }, true)

def handleHist (c : Case) : Verdict := Id.run do
  let opStrs := ((c.get "ops").splitOn ";").filter (· ≠ "")
  let obsSteps := (c.obs.filter (·.startsWith "s")).map parseStep
  let mut st : RunState := { p := Pool.init L }
  let mut corr := true
  let mut model := ""
  let mut specWhy : Option String := none
  let mut i := 0
  let mut nthrow := 0
  for opS in opStrs do
    i := i + 1
    match obsSteps[i - 1]? with
    | none =>
      if specWhy.isNone then specWhy := some s!"step {i} ({opS}): missing — the run stopped: {(obsString c).take 100}"
      corr := false
      break
    | some cur =>
      if cur.exc != "" && cur.exc != "skip" then nthrow := nthrow + 1
      let (tok, spec, st', dead) := stepOne st opS cur i
      st := st'
      if specWhy.isNone then specWhy := spec
      let obsTok := if cur.exc == "" then cur.snapS else s!"!{cur.exc}|{cur.snapS}"
      if !matchesWild tok obsTok then
        if corr then model := s!"s{i}={tok}"
        corr := false
      if dead then break
  let (pEnd, flt) := destroyAll st.p
  let endS := if flt.isSome then s!"end=FAULT:{faultName flt.get!}" else if leaked pEnd then "end=leak" else "end=clean"
  let obsEnd := c.obs.getLast?.getD ""
  if endS != obsEnd then
    if corr then model := endS
    corr := false
  if specWhy.isNone && obsEnd != "end=clean" then specWhy := some s!"storage leaked or released twice by the end of the history ({obsEnd})"
  return { corr := corr, spec := specWhy.isNone, why := specWhy.getD "", model := (model.take 4000).toString,
           branch := s!"shist.len{opStrs.length / 8 * 8}.throws{min nthrow 3}", nontrivial := opStrs.length > 3 }

/-! ### allocation faults (C19, string level) -/

/-- operations whose allocation sequence the model reproduces exactly (buffers only, no exception objects,
    no standard-library containers): for these the state after the k-th allocation failed is compared with the model -/
def faultModelled (r : RawOp) : Bool :=
  match r.c with
  | 'N' | 'D' | 'C' | 'M' | 'X' | 'c' | 'm' | 'R' | 'P' | 'U' | 'h' | 'H' => true
  | 'S' | 'b' | 'B' | 'G' | 'g' => true      -- compared only when the clean run does not throw (see below)
  | 'a' | 'e' => true
  | 'p' | 'T' | 'E' => true                  -- the result buffer of a conversion / concatenation is a local that is destroyed by unwinding (`fresh`)
  | _ => false

/-- a `k<i>=<exc>|<snapshot>|<end>` token -/
structure FaultObs where
  exc : String
  fired : Bool
  snapS : String
  snap : Option (List ObsObj)
  endS : String

def parseFaultTok (tok : String) : FaultObs :=
  let body := String.intercalate "=" ((tok.splitOn "=").drop 1)
  match body.splitOn "|" with
  | [e, s, en] =>
    let fired := !(e.splitOn ",").contains "notfired"
    { exc := (e.splitOn ",").headD "", fired, snapS := s, snap := parseSnapshot s, endS := en }
  | _ => { exc := "?", fired := true, snapS := body, snap := none, endS := "?" }

/-- C19 on one observed fault position: `bad_alloc` reached the caller; nothing but the target changed; the target holds its
    previous value or is empty (a constructor's target does not exist); every object is well-formed; destroying everything
    afterwards released every block exactly once -/
def judgeFault (pre : List ObsObj) (r : RawOp) (fo : FaultObs) : Option String :=
  match fo.snap with
  | none => some "unreadable snapshot"
  | some cur =>
    if !fo.fired then none else
    if fo.exc != "bad_alloc" then some s!"the failed allocation did not reach the caller as bad_alloc (observed: {fo.exc})" else
    (judgeShape cur).orElse fun _ =>
    let tg := targetsOfRaw r
    (judgeFrame pre cur tg).orElse fun _ =>
    (judgeNoNew pre cur []).orElse fun _ =>
    (tg.findSome? fun t =>
      match pre.find? (·.id == t), cur.find? (·.id == t) with
      | some a, some b => if b.units == a.units || b.size == 0 then none else some s!"o{t} holds neither its previous value nor an empty value after bad_alloc"
      | some _, none => some s!"o{t} no longer exists after bad_alloc"
      | none, _ => none).orElse fun _ =>
    if fo.endS != "clean" then some s!"after bad_alloc, destroying every object: {fo.endS}" else none

def handleFault (c : Case) : Verdict := Id.run do
  let opStrs := ((c.get "ops").splitOn ";").filter (· ≠ "")
  let obsSteps := (c.obs.filter (·.startsWith "s")).map parseStep
  let opS := c.get "op"
  let r := parseRaw opS
  -- prefix (model follows the observed values of derived objects)
  let mut st : RunState := { p := Pool.init L }
  let mut corr := true
  let mut model := ""
  let mut specWhy : Option String := none
  let mut i := 0
  for pS in opStrs do
    i := i + 1
    match obsSteps[i - 1]? with
    | none => corr := false; if specWhy.isNone then specWhy := some s!"prefix step {i} missing: {(obsString c).take 120}"
    | some cur =>
      let (tok, spec, st', _) := stepOne st pS cur i
      st := st'
      if specWhy.isNone then specWhy := spec
      let obsTok := if cur.exc == "" then cur.snapS else s!"!{cur.exc}|{cur.snapS}"
      if !matchesWild tok obsTok then
        if corr then model := s!"s{i}={tok}"
        corr := false
  let preObs := match (c.obs.find? (·.startsWith "pre=")) with
    | some t => (parseSnapshot (String.intercalate "=" ((t.splitOn "=").drop 1))).getD []
    | none => []
  let ktoks := c.obs.filter fun t => t.startsWith "k" && t.contains '|'
  let k0 := (ktoks.find? (·.startsWith "k0=")).map parseFaultTok
  let cleanThrows := match k0 with | some f => f.exc != "ok" | none => true
  let mut nfired := 0
  let admissible := precheck st.p r
  for tok in ktoks do
    let kS := ((tok.splitOn "=").headD "").drop 1 |>.toString
    let k := kS.toNat?.getD 0
    let fo := parseFaultTok tok
    if k == 0 then
      if specWhy.isNone && fo.endS != "clean" then specWhy := some s!"clean run of {opS}: {fo.endS}"
    else
      if fo.fired then nfired := nfired + 1
      if specWhy.isNone && admissible then
        specWhy := (judgeFault preObs r fo).map fun w => s!"{opS} with allocation {k} failing: {w}"
      -- model correspondence for the operations whose allocation sequence is modelled exactly
      if corr && admissible && faultModelled r && !cleanThrows && fo.fired then
        let curStep : ObsStep := { exc := if fo.exc == "ok" then "" else fo.exc, snapS := fo.snapS, snap := fo.snap }
        match toSOp st.p r curStep with
        | none => pure ()
        | some sop =>
          let pF := { st.p with failAt := some (st.p.allocs + k) }
          let (excM, p') := match sop.run pF with
            | .ok _ p' => ("ok", p')
            | .throw e p' => (excName e, p')
            | .fault f p' => (s!"FAULT:{faultName f}", p')
          let (snapS, _) := snapshot p' st.prevPtr
          let (pEnd, flt) := destroyAll p'
          let endS := if flt.isSome then s!"FAULT:{faultName flt.get!}" else if leaked pEnd then "leak" else "clean"
          let m := s!"{excM}|{snapS}|{endS}"
          let o := s!"{fo.exc}|{fo.snapS}|{fo.endS}"
          if !matchesWild m o then
            corr := false
            model := s!"k{k}={m}"
  return { corr := corr, spec := specWhy.isNone, why := specWhy.getD "", model := (model.take 4000).toString,
           branch := s!"sfault.{r.c}.fired{min nfired 4}", nontrivial := nfired > 0 }

def handle (c : Case) : Verdict :=
  if c.op == "sfault" then handleFault c
  else if c.op == "shist" then handleHist c
  else { corr := false, why := "no handler for " ++ c.op }

end Driver.Str
