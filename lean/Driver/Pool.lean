import Driver.Proto
import StVerif.Model.Pool
import StVerif.Spec.Store

namespace Driver.Pool
open StVerif StVerif.Pool Driver
open StVerif.Spec

def parseOp (w : Nat) (s : String) : Option Op :=
  let c := s.front
  let body := (s.drop 1).toString
  let (pre, hex) := match body.splitOn ":" with
    | [a, b] => (a, b)
    | _ => (body, "")
  let nums := (pre.splitOn ",").map (·.toNat?.getD 0)
  let us := parseUnits w hex
  match c, nums with
  | 'D', [o] => some (.ctorDefault o)
  | 'U', [o] => some (.ctorUnits o us)
  | 'C', [o, s] => some (.ctorCopy o s)
  | 'M', [o, s] => some (.ctorMove o s)
  | 'X', [o] => some (.dtor o)
  | 'R', [o] => some (.clear o)
  | 'c', [o, s] => some (.assignCopy o s)
  | 'm', [o, s] => some (.assignMove o s)
  | 'A', [o, n] => some (.allocate o n)
  | 'F', [o, n, v] => some (.allocateFill o n v)
  | 'f', [o, n, v] => some (.ctorUnits o (List.replicate n v))      -- buffer(count, fill): same storage rule as buffer(ptr, size)
  | 'W', [o, a] => some (.writeData o a us)
  | _, _ => none

def faultName : Fault → String
  | .badFree => "badFree" | .doubleFree => "doubleFree" | .useAfterFree => "useAfterFree" | .oob => "oob" | .deadObject => "deadObject"

def NOBJ : Nat := 8

/-- snapshot of every live object in the harness's format -/
def snapshot (w : Nat) (p : Pool) : String := Id.run do
  let mut parts : List String := []
  let mut blocks : List Nat := []
  for o in [0:NOBJ] do
    match p.objs o with
    | none => pure ()
    | some b =>
      match observe o p with
      | .ok ob _ =>
        let whereS ← match b.chars with
          | .loc o' => pure (if o' == o then "L" else if (p.objs o').isSome then s!"A{o'}" else s!"Z{o'}")
          | .heap k =>
            match blocks.idxOf? k with
            | some i => pure s!"H{i}"
            | none => do
              let i := blocks.length
              blocks := blocks ++ [k]
              pure s!"H{i}"
        parts := parts ++ [s!"o{o}:{ob.size}:{fmtUnits w ob.units}:{fmtUnit w ob.terminator}:{whereS}"]
      | .fault f _ => parts := parts ++ [s!"o{o}:FAULT:{faultName f}"]
      | .throw _ _ => parts := parts ++ [s!"o{o}:THROW"]
  return if parts.isEmpty then "-" else String.intercalate "," parts

def leaked (p : Pool) : Bool := (List.range p.next).any fun k => (p.heap k).isSome

def destroyAll (p : Pool) : Pool × Option Fault := Id.run do
  let mut p := p
  let mut flt : Option Fault := none
  for o in [0:NOBJ] do
    if (p.objs o).isSome then
      match dtor o p with
      | .ok _ p' => p := p'
      | .fault f p' => p := p'; flt := some f
      | .throw _ p' => p := p'
  return (p, flt)

/-! spec judge for C05 on the *observed* snapshots -/

structure ObsObj where
  id : Nat
  size : Nat
  units : List Nat
  term : Nat
  whereS : String

def parseSnapshot (w : Nat) (s : String) : Option (List ObsObj) :=
  if s == "-" then some [] else
  (s.splitOn ",").mapM fun part =>
    match part.splitOn ":" with
    | [oid, sz, us, t, wh] =>
      some { id := (oid.drop 1).toString.toNat?.getD 99, size := sz.toNat?.getD 0, units := parseUnits w us,
             term := (parseUnits w t).headD 1, whereS := wh }
    | _ => none

def valMatches (v : Store.Val) (ob : ObsObj) : Bool :=
  match v with
  | .anyValue => true
  | .known xs => xs.length == ob.size && ob.units.length == ob.size &&
      (xs.zip ob.units).all fun (x, u) => match x with | some k => k == u | none => true

/-- every live object: right size and elements, NUL after the last element, short contents inside the
    object / long contents on the heap, storage shared with nobody -/
def judgeSnapshot (L : Nat) (store : Store.Store) (obs : List ObsObj) : Option String :=
  let heapLabels := obs.filterMap fun ob => if ob.whereS.startsWith "H" then some ob.whereS else none
  if heapLabels.eraseDups.length != heapLabels.length then some "two objects share a heap block" else
  if (List.range NOBJ).any (fun o => (store.get o).isSome != obs.any (·.id == o)) then some "set of live objects differs" else
  obs.findSome? fun ob =>
    match store.get ob.id with
    | none => some s!"o{ob.id} should not be alive"
    | some v =>
      if ob.term != 0 then some s!"o{ob.id}: no NUL after the last element"
      else if ob.whereS.startsWith "A" || ob.whereS.startsWith "Z" then some s!"o{ob.id}: data() points into another object"
      else if ob.whereS.startsWith "!" then some s!"o{ob.id}: an accessor disagrees with data()/size() ({ob.whereS})"
      else if ob.size < L && ob.whereS != "L" then some s!"o{ob.id}: short contents not inside the object"
      else if ob.size ≥ L && !ob.whereS.startsWith "H" then some s!"o{ob.id}: long contents not on the heap"
      else if !valMatches v ob then some s!"o{ob.id}: size/elements differ from the last value given"
      else none

/-- one operation as the harness runs it: contents after allocate() are unspecified, both sides overwrite
    them with the marker 0xCD -/
def runOpCanon (run : Op → M Unit) (op : Op) : M Unit :=
  match op with
  | .allocate o n => do run op; writeData o 0 (List.replicate n 0xCD)
  | _ => run op

/-- executable form of the model's precondition `Pool.pre` (see `Props.C05.checkPre`) -/
def applicable (op : Op) (p : Pool) : Bool :=
  match op with
  | .ctorDefault o | .ctorUnits o _ => (p.objs o).isNone && o < NOBJ
  | .ctorCopy o s | .ctorMove o s => (p.objs o).isNone && (p.objs s).isSome && o < NOBJ
  | .dtor o | .clear o | .allocate o _ | .allocateFill o _ _ => (p.objs o).isSome
  | .assignCopy o s | .assignMove o s => (p.objs o).isSome && (p.objs s).isSome
  | .writeData o a us => match p.objs o with | some b => decide (a + us.length ≤ b.size) | none => false

structure Prefix where
  p : Pool
  store : Store.Store
  out : String := ""
  specWhy : String := ""
  dead : Bool := false
  invalid : Option Nat := none -- the first step whose precondition does not hold (shrunk / hand-written replays)
  lastObs : String := "-"      -- the implementation's own last snapshot

/-- run the operations of a history from the empty pool, printing a snapshot per step and judging the
    implementation's snapshot of every step against the specification store -/
def runPrefix (w L : Nat) (ops : List Op) (c : Case) : Prefix := Id.run do
  let mut p := Pool.init L
  let mut store : Store.Store := Store.Store.empty
  let mut out := ""
  let mut i := 0
  let mut specWhy := ""
  let mut dead := false
  let mut lastObs := "-"
  let obsSteps := c.obs.filter (·.startsWith "s")
  for op in ops do
    i := i + 1
    if dead then break
    if !applicable op p then
      return { p := p, store := store, out := s!"invalid step={i}", specWhy := "", dead := true, invalid := some i, lastObs := lastObs }
    match runOpCanon Op.run op p with
    | .ok _ p' =>
      p := p'
      store := Store.step store op
      out := out ++ s!"s{i}={snapshot w p} "
    | .fault f p' => p := p'; out := out ++ s!"s{i}=FAULT:{faultName f} "; dead := true
    | .throw e p' => p := p'; out := out ++ s!"s{i}=THROW:{excName e} "; dead := true
    -- judge the implementation's own snapshot of this step
    if specWhy == "" then
      match obsSteps[i - 1]? with
      | some tok =>
        let snap := (tok.splitOn "=").getD 1 ""
        lastObs := snap
        match parseSnapshot w snap with
        | some obs => match judgeSnapshot L store obs with
          | some why => specWhy := s!"step {i}: {why}"
          | none => pure ()
        | none => specWhy := s!"step {i}: unreadable snapshot"
      | none => specWhy := s!"step {i}: missing (the run stopped: {obsString c |>.take 80})"
  return { p := p, store := store, out := out, specWhy := specWhy, dead := dead, lastObs := lastObs }

def endToken (p : Pool) : String :=
  let (pEnd, flt) := destroyAll p
  if flt.isSome then s!"end=FAULT:{faultName flt.get!}" else if leaked pEnd then "end=leak" else "end=clean"

def widthOf (c : Case) : Nat :=
  let wS := c.get "w"
  if wS == "8" then 8 else if wS == "16" then 16 else 32

def handleHist (c : Case) : Verdict :=
  let w := widthOf c
  let L := c.nat "L" 16
  let opStrs := ((c.get "ops").splitOn ";").filter (· ≠ "")
  let ops := opStrs.filterMap (parseOp w)
  if ops.length != opStrs.length then { corr := false, why := "unparsable op" } else
  let r := runPrefix w L ops c
  -- a history that uses a dead object / constructs over a live one is not a history of the property: both sides refuse it
  if r.invalid.isSome then { corr := r.out == obsString c, spec := true, why := "not a valid history (ignored)", model := r.out, branch := "hist.invalid" } else
  let out := r.out ++ endToken r.p
  let obs := obsString c
  let specWhy :=
    if obs.startsWith "abort" || obs.startsWith "hang" then s!"the history does not run to its end on the implementation: {obs}"
    else if r.specWhy == "" && !(c.obs.getLast?.getD "" == "end=clean") then "storage leaked or released twice at the end of the history"
    else r.specWhy
  { corr := out == obsString c, spec := specWhy == "", why := specWhy, model := (out.take 20000).toString,
    branch := s!"hist.w{c.get "w"}.len{ops.length / 8 * 8}", nontrivial := ops.length > 3 }

/-! C19, buffer level: one operation with its k-th allocation failing -/

def opTarget : Op → Nat
  | .ctorDefault o | .ctorUnits o _ | .ctorCopy o _ | .ctorMove o _ | .dtor o | .clear o | .assignCopy o _ | .assignMove o _
  | .allocate o _ | .allocateFill o _ _ | .writeData o _ _ => o

def opIsCtor : Op → Bool
  | .ctorDefault _ | .ctorUnits _ _ | .ctorCopy _ _ | .ctorMove _ _ => true
  | _ => false

def opKind : Op → String
  | .ctorDefault _ => "ctorDefault" | .ctorUnits _ _ => "ctorUnits" | .ctorCopy _ _ => "ctorCopy" | .ctorMove _ _ => "ctorMove"
  | .dtor _ => "dtor" | .clear _ => "clear" | .assignCopy _ _ => "assignCopy" | .assignMove _ _ => "assignMove"
  | .allocate _ _ => "allocate" | .allocateFill _ _ _ => "allocateFill" | .writeData _ _ _ => "writeData"

/-- the model's answer for the faulted call and everything after it; `none` when the model itself hits a
    memory error (only possible for the as-found members: the implementation then shows a sanitizer abort) -/
def faultTail (w : Nat) (run : Op → M Unit) (p : Pool) (op : Op) (k : Nat) : Option String :=
  let armed := { p with failAt := some (p.allocs + k) }
  let fin (res : String) (p' : Pool) : Option String :=
    let p'' := { p' with failAt := none }
    let snap := snapshot w p''
    if (snap.splitOn "FAULT").length > 1 then none else
    let e := endToken p''
    if e.startsWith "end=FAULT" then none else
    some s!"f={res} allocs={p'.allocs - p.allocs} sf={snap} {e}"
  match runOpCanon run op armed with
  | .ok _ p' => fin "completed" p'
  | .throw .badAlloc p' => fin "bad_alloc" p'
  | .throw _ _ => some "f=other"
  | .fault _ _ => none

def sameValue (a b : ObsObj) : Bool := a.size == b.size && a.units == b.units && (a.whereS == "L") == (b.whereS == "L")

/-- C19 on the implementation's own observation: `bad_alloc` reached the caller exactly when the armed allocation
    was attempted; afterwards every object is valid, every object other than the target is unchanged, the target
    holds its previous value or is empty (a constructor's target does not exist), and destroying everything
    releases every block exactly once -/
def judgeFault (w L : Nat) (r : Prefix) (op : Op) (k : Nat) (c : Case) : Option String :=
  let tok (key : String) : Option String := (c.obs.find? (·.startsWith (key ++ "="))).map fun t => (t.drop (key.length + 1)).toString
  match tok "f", tok "allocs", tok "sf", tok "end" with
  | some f, some allocsS, some sf, some e =>
    let allocs := allocsS.toNat?.getD 0
    if f == "completed" then
      if allocs ≥ k then some s!"allocation {k} of the call was armed to fail but the call completed" else
      match parseSnapshot w sf with
      | none => some "unreadable snapshot"
      | some obs =>
        match judgeSnapshot L (Store.step r.store op) obs with
        | some why => some s!"after the completed call: {why}"
        | none => if e == "clean" then none else some "storage leaked or released twice at the end"
    else if f != "bad_alloc" then some s!"an exception other than bad_alloc reached the caller" else
    if allocs != k then some s!"bad_alloc although allocation {k} was not reached (attempted {allocs})" else
    match parseSnapshot w r.lastObs, parseSnapshot w sf with
    | some before, some after =>
      let tgt := opTarget op
      let heapLabels := after.filterMap fun ob => if ob.whereS.startsWith "H" then some ob.whereS else none
      if heapLabels.eraseDups.length != heapLabels.length then some "after bad_alloc: two objects share a heap block" else
      let bad := after.findSome? fun ob =>
        if ob.term != 0 then some s!"after bad_alloc: o{ob.id} has no NUL after the last element"
        else if ob.whereS.startsWith "A" || ob.whereS.startsWith "Z" then some s!"after bad_alloc: o{ob.id} points into another object"
        else if ob.whereS.startsWith "!" then some s!"after bad_alloc: o{ob.id} an accessor disagrees with data()/size() ({ob.whereS})"
        else if ob.size < L && ob.whereS != "L" then some s!"after bad_alloc: o{ob.id} short contents not inside the object"
        else if ob.size ≥ L && !ob.whereS.startsWith "H" then some s!"after bad_alloc: o{ob.id} long contents not on the heap"
        else if ob.units.length != ob.size then some s!"after bad_alloc: o{ob.id} unreadable"
        else none
      if bad.isSome then bad else
      let others := (List.range NOBJ).findSome? fun o =>
        if o == tgt then none else
        match before.find? (·.id == o), after.find? (·.id == o) with
        | none, none => none
        | some a, some b => if sameValue a b then none else some s!"after bad_alloc: o{o} (not the target) changed"
        | _, _ => some s!"after bad_alloc: o{o} (not the target) was created or destroyed"
      if others.isSome then others else
      let tgtWhy :=
        match before.find? (·.id == tgt), after.find? (·.id == tgt) with
        | none, none => none
        | none, some _ => some s!"after bad_alloc: the constructor's target o{tgt} exists"
        | some _, none => some s!"after bad_alloc: the target o{tgt} disappeared"
        | some a, some b =>
          if opIsCtor op then some s!"after bad_alloc: the constructor's target o{tgt} exists"
          else if sameValue a b || b.size == 0 then none
          else some s!"after bad_alloc: the target o{tgt} holds neither its previous value nor an empty value"
      if tgtWhy.isSome then tgtWhy else
      if e == "clean" then none else some "after bad_alloc: storage leaked or released twice when everything was destroyed"
    | _, _ => some "unreadable snapshot"
  | _, _, _, _ => some s!"the call did not return to the caller: {(obsString c).take 80}"

/-- the model the fault cases are compared with: the repaired members (`Op.run`, about which `Props/C19.lean` proves
    `fault_safe`).  Before the `fix:` commit of the library this was `Op.runAsFound` (the members as found in the pinned
    tree), with which the check reported the defect as "model and implementation agree, the property fails". -/
def faultModel : Op → M Unit := Op.run

def handleFault (c : Case) : Verdict :=
  let w := widthOf c
  let L := c.nat "L" 16
  let k := c.nat "k" 1
  let opStrs := ((c.get "ops").splitOn ";").filter (· ≠ "")
  let ops := opStrs.filterMap (parseOp w)
  match parseOp w (c.get "op") with
  | none => { corr := false, why := "unparsable op" }
  | some op =>
  if ops.length != opStrs.length then { corr := false, why := "unparsable op" } else
  let r := runPrefix w L ops c
  if r.invalid.isSome then { corr := r.out == obsString c, spec := true, why := "not a valid history (ignored)", model := r.out, branch := "fault.invalid" } else
  if r.dead then { corr := false, why := "model: the prefix history does not complete", model := r.out } else
  if !applicable op r.p then
    let out := s!"invalid step={ops.length + 1}"
    { corr := out == obsString c, spec := true, why := "not a valid history (ignored)", model := out, branch := "fault.invalid" } else
  let tail := faultTail w faultModel r.p op k
  let out := match tail with | some t => r.out ++ t | none => "abort asan"
  let obs := obsString c
  let corr := match tail with | some _ => out == obs | none => obs.startsWith "abort asan:"
  let specWhy :=
    if obs.startsWith "abort" || obs.startsWith "hang" then
      s!"{opKind op} with allocation {k} failing does not return to the caller / leaves an object that cannot be read or destroyed: {obs}"
    else if r.specWhy != "" then r.specWhy else (judgeFault w L r op k c).getD ""
  -- diagnostic: does the observation coincide with the model of the members as found in the pinned tree?
  let asFound := match faultTail w Op.runAsFound r.p op k with
    | some t => r.out ++ t == obs
    | none => obs.startsWith "abort asan:"
  let specWhy := if specWhy != "" && !corr && asFound then specWhy ++ " [as the unrepaired allocate/operator= (defect 16)]" else specWhy
  let fired := (obs.splitOn "f=bad_alloc").length > 1
  { corr := corr, spec := specWhy == "", why := specWhy, model := (out.take 20000).toString,
    branch := s!"fault.w{c.get "w"}.{opKind op}.k{k}.{if fired then "thrown" else "completed"}", nontrivial := true }

def handle (c : Case) : Verdict :=
  if c.op == "fault" then handleFault c else handleHist c

end Driver.Pool
