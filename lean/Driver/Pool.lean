import Driver.Proto
import StVerif.Model.Pool
import StVerif.Spec.Store

namespace Driver.Pool
open StVerif StVerif.Pool Driver
open StVerif.Spec

def parseOp (w : Nat) (s : String) : Option Op :=
  let c := s.front
  let body := (s.drop 1).toString
  let (pre, hex) := match body.splitOn ":" with
    | [a, b] => (a, b)
    | _ => (body, "")
  let nums := (pre.splitOn ",").map (·.toNat?.getD 0)
  let us := parseUnits w hex
  match c, nums with
  | 'D', [o] => some (.ctorDefault o)
  | 'U', [o] => some (.ctorUnits o us)
  | 'C', [o, s] => some (.ctorCopy o s)
  | 'M', [o, s] => some (.ctorMove o s)
  | 'X', [o] => some (.dtor o)
  | 'R', [o] => some (.clear o)
  | 'c', [o, s] => some (.assignCopy o s)
  | 'm', [o, s] => some (.assignMove o s)
  | 'A', [o, n] => some (.allocate o n)
  | 'F', [o, n, v] => some (.allocateFill o n v)
  | 'W', [o, a] => some (.writeData o a us)
  | _, _ => none

def faultName : Fault → String
  | .badFree => "badFree" | .doubleFree => "doubleFree" | .useAfterFree => "useAfterFree" | .oob => "oob" | .deadObject => "deadObject"

def NOBJ : Nat := 8

/-- snapshot of every live object in the harness's format -/
def snapshot (w : Nat) (p : Pool) : String := Id.run do
  let mut parts : List String := []
  let mut blocks : List Nat := []
  for o in [0:NOBJ] do
    match p.objs o with
    | none => pure ()
    | some b =>
      match observe o p with
      | .ok ob _ =>
        let whereS ← match b.chars with
          | .loc o' => pure (if o' == o then "L" else if (p.objs o').isSome then s!"A{o'}" else s!"Z{o'}")
          | .heap k =>
            match blocks.idxOf? k with
            | some i => pure s!"H{i}"
            | none => do
              let i := blocks.length
              blocks := blocks ++ [k]
              pure s!"H{i}"
        parts := parts ++ [s!"o{o}:{ob.size}:{fmtUnits w ob.units}:{fmtUnit w ob.terminator}:{whereS}"]
      | .fault f _ => parts := parts ++ [s!"o{o}:FAULT:{faultName f}"]
      | .throw _ _ => parts := parts ++ [s!"o{o}:THROW"]
  return if parts.isEmpty then "-" else String.intercalate "," parts

def leaked (p : Pool) : Bool := (List.range p.next).any fun k => (p.heap k).isSome

def destroyAll (p : Pool) : Pool × Option Fault := Id.run do
  let mut p := p
  let mut flt : Option Fault := none
  for o in [0:NOBJ] do
    if (p.objs o).isSome then
      match dtor o p with
      | .ok _ p' => p := p'
      | .fault f p' => p := p'; flt := some f
      | .throw _ p' => p := p'
  return (p, flt)

/-! spec judge for C05 on the *observed* snapshots -/

structure ObsObj where
  id : Nat
  size : Nat
  units : List Nat
  term : Nat
  whereS : String

def parseSnapshot (w : Nat) (s : String) : Option (List ObsObj) :=
  if s == "-" then some [] else
  (s.splitOn ",").mapM fun part =>
    match part.splitOn ":" with
    | [oid, sz, us, t, wh] =>
      some { id := (oid.drop 1).toString.toNat?.getD 99, size := sz.toNat?.getD 0, units := parseUnits w us,
             term := (parseUnits w t).headD 1, whereS := wh }
    | _ => none

def valMatches (v : Store.Val) (ob : ObsObj) : Bool :=
  match v with
  | .anyValue => true
  | .known xs => xs.length == ob.size && ob.units.length == ob.size &&
      (xs.zip ob.units).all fun (x, u) => match x with | some k => k == u | none => true

/-- every live object: right size and elements, NUL after the last element, short contents inside the
    object / long contents on the heap, storage shared with nobody -/
def judgeSnapshot (L : Nat) (store : Store.Store) (obs : List ObsObj) : Option String :=
  let heapLabels := obs.filterMap fun ob => if ob.whereS.startsWith "H" then some ob.whereS else none
  if heapLabels.eraseDups.length != heapLabels.length then some "two objects share a heap block" else
  if (List.range NOBJ).any (fun o => (store.get o).isSome != obs.any (·.id == o)) then some "set of live objects differs" else
  obs.findSome? fun ob =>
    match store.get ob.id with
    | none => some s!"o{ob.id} should not be alive"
    | some v =>
      if ob.term != 0 then some s!"o{ob.id}: no NUL after the last element"
      else if ob.whereS.startsWith "A" || ob.whereS.startsWith "Z" then some s!"o{ob.id}: data() points into another object"
      else if ob.size < L && ob.whereS != "L" then some s!"o{ob.id}: short contents not inside the object"
      else if ob.size ≥ L && !ob.whereS.startsWith "H" then some s!"o{ob.id}: long contents not on the heap"
      else if !valMatches v ob then some s!"o{ob.id}: size/elements differ from the last value given"
      else none

def handle (c : Case) : Verdict :=
  let wS := c.get "w"
  let w := if wS == "8" then 8 else if wS == "16" then 16 else 32
  let L := c.nat "L" 16
  let opStrs := ((c.get "ops").splitOn ";").filter (· ≠ "")
  let ops := opStrs.filterMap (parseOp w)
  if ops.length != opStrs.length then { corr := false, why := "unparsable op" } else
  Id.run do
    let mut p := Pool.init L
    let mut store : Store.Store := Store.Store.empty
    let mut out := ""
    let mut i := 0
    let mut specWhy := ""
    let mut dead := false
    let obsSteps := c.obs.filter (·.startsWith "s")
    for op in ops do
      i := i + 1
      if dead then break
      -- contents after allocate() are unspecified: both sides overwrite them with the marker 0xCD
      let runOp : M Unit := match op with
        | .allocate o n => do op.run; writeData o 0 (List.replicate n 0xCD)
        | _ => op.run
      match runOp p with
      | .ok _ p' =>
        p := p'
        store := Store.step store op
        out := out ++ s!"s{i}={snapshot w p} "
      | .fault f p' => p := p'; out := out ++ s!"s{i}=FAULT:{faultName f} "; dead := true
      | .throw e p' => p := p'; out := out ++ s!"s{i}=THROW:{excName e} "; dead := true
      -- judge the implementation's own snapshot of this step
      if specWhy == "" then
        match obsSteps[i - 1]? with
        | some tok =>
          match parseSnapshot w ((tok.splitOn "=").getD 1 "") with
          | some obs => match judgeSnapshot L store obs with
            | some why => specWhy := s!"step {i}: {why}"
            | none => pure ()
          | none => specWhy := s!"step {i}: unreadable snapshot"
        | none => specWhy := s!"step {i}: missing (the run stopped: {obsString c |>.take 80})"
    let (pEnd, flt) := destroyAll p
    let endS := if flt.isSome then s!"end=FAULT:{faultName flt.get!}" else if leaked pEnd then "end=leak" else "end=clean"
    out := out ++ endS
    if specWhy == "" && !(c.obs.getLast?.getD "" == "end=clean") then specWhy := "storage leaked or released twice at the end of the history"
    return { corr := out == obsString c, spec := specWhy == "", why := specWhy, model := (out.take 20000).toString,
             branch := s!"hist.w{wS}.len{ops.length / 8 * 8}", nontrivial := ops.length > 3 }

end Driver.Pool
