import Driver.Proto
import Driver.Codec
import Driver.Conv
import Driver.Pool
import Driver.Str
import Driver.Slice
import Driver.Split
import Driver.Search
import Driver.Compare
import Driver.Num
import Driver.Flt
import Driver.Fmt
import Driver.Stream
import Driver.Conc
import Driver.Sinks

open Driver

def dispatch (c : Case) : Verdict :=
  let fam := c.op
  if fam.startsWith "hex" || fam.startsWith "b64" || fam == "blk.enc" || fam == "blk.dec" then Driver.Codec.handle c
  else if fam == "conv" || fam == "blk.conv" || fam == "reval" then Driver.Conv.handle c
  else if fam == "hist" || fam == "fault" then Driver.Pool.handle c
  else if fam == "shist" || fam == "sfault" then Driver.Str.handle c
  else if fam.startsWith "sl." then Driver.Slice.handle c
  else if fam.startsWith "sp." then Driver.Split.handle c
  else if fam == "find" || fam == "findlast" || fam == "contains" || fam == "starts" || fam == "ends" || fam == "blk.search" then Driver.Search.handle c
  else if fam == "scmp" || fam == "mvcmp" || fam == "scmpnull" || fam == "bcmp" || fam == "bcmpnull" || fam == "rawcmp" || fam == "bigcmp" || fam == "casemap" || fam == "tri" || fam == "blk.scmp" || fam == "blk.bcmp" || fam == "blk.tri" then Driver.Compare.handle c
  else if fam.startsWith "num." || fam.startsWith "blk.num." then Driver.Num.handle c
  else if fam.startsWith "flt." then Driver.Flt.handle c
  else if fam == "fmt" then Driver.Fmt.handle c
  else if fam == "sshist" || fam == "ssfault" then Driver.Stream.handle c
  else if fam == "conc" then Driver.Conc.handle c
  else if fam.startsWith "sk." then Driver.Sinks.handle c
  else { corr := false, why := "no handler for op " ++ c.op }

structure Stats where
  lines : Nat := 0
  items : Nat := 0
  pass : Nat := 0
  mismatch : Nat := 0       -- model ≠ observation, spec holds on the observation
  violation : Nat := 0      -- spec fails on the observation, model ≠ observation
  specfail : Nat := 0       -- spec fails on the observation, model agrees
  known : Nat := 0
  distinct : Std.HashSet UInt64 := {}
  nontrivial : Nat := 0
  branches : Std.HashMap String Nat := {}
  samples : Array String := #[]

def jsonStr (s : String) : String :=
  "\"" ++ (s.toList.foldl (fun acc c =>
    acc ++ (if c == '"' then "\\\"" else if c == '\\' then "\\\\" else if c.toNat < 32 then " " else c.toString)) "") ++ "\""

partial def loop (active : List String) (h : IO.FS.Stream) (st : Stats) : IO Stats := do
  let line ← h.getLine
  if line.isEmpty then return st
  let line := (line.dropEndWhile (fun c => c == '\n' || c == '\r')).toString
  if line.isEmpty then loop active h st else
  let c := parseLine line
  let v := dispatch c
  let mut st := { st with lines := st.lines + 1, items := st.items + v.items }
  let hsh := hash c.input
  if !st.distinct.contains hsh then
    st := { st with distinct := st.distinct.insert hsh, nontrivial := st.nontrivial + (if v.nontrivial then v.items else 0) }
  st := { st with branches := st.branches.insert v.branch (st.branches.getD v.branch 0 + v.items) }
  if st.samples.size < 6 ∧ st.lines % 997 == 1 then st := { st with samples := st.samples.push line }
  let kind :=
    if v.corr ∧ v.spec then "PASS"
    else if v.known ≠ "" ∧ !v.spec ∧ active.contains v.known then "KNOWN"
    else if v.corr then "SPECFAIL"
    else if v.spec then "MISMATCH" else "VIOLATION"
  match kind with
  | "PASS" => st := { st with pass := st.pass + 1 }
  | "KNOWN" => st := { st with known := st.known + 1 }
  | "SPECFAIL" => st := { st with specfail := st.specfail + 1 }
  | "MISMATCH" => st := { st with mismatch := st.mismatch + 1 }
  | _ => st := { st with violation := st.violation + 1 }
  if kind ≠ "PASS" then
    IO.println s!"R {kind} known={if v.known == "" then "-" else v.known} why={sanitize (if v.why == "" then "-" else v.why)} model={sanitize v.model} :: {line}"
  loop active h st

def main (_args : List String) : IO UInt32 := do
  let stdin ← IO.getStdin
  let active := ((← IO.getEnv "ST_KNOWN").getD "").splitOn ","
  let st ← loop active stdin {}
  let br := st.branches.toList.map fun (k, n) => s!"{jsonStr k}:{n}"
  let sm := st.samples.toList.map jsonStr
  IO.println ("SUMMARY {" ++ s!"\"lines\":{st.lines},\"items\":{st.items},\"pass\":{st.pass},\"mismatch\":{st.mismatch}," ++
    s!"\"violation\":{st.violation},\"specfail\":{st.specfail},\"known\":{st.known},\"distinct\":{st.distinct.size}," ++
    s!"\"nontrivial\":{st.nontrivial},\"branches\":" ++ "{" ++ String.intercalate "," br ++ "},\"samples\":[" ++ String.intercalate "," sm ++ "]}")
  return 0
