import Driver.Proto
import StVerif.Model.Split
import StVerif.Spec.Split

/-!
  Handler of the "split" family (C09): `sp.split`, `sp.tok`, `sp.replace`.
  A vector result is observed as `ok <count> <piece> <piece> …` (pieces as hex, `-` = empty).
-/
namespace Driver.Split
open StVerif StVerif.Split StVerif.Search Driver
open StVerif.Spec

/-- the revision of the code the driver follows -/
def rev : Slice.Rev := .fixed

def showPieces (ps : List (List Nat)) : String :=
  String.intercalate " " (toString ps.length :: ps.map (fmtUnits 8))

def showV (o : Outcome (List (List Nat))) : String := fmtOutcome showPieces o
def showS (o : Outcome (List Nat)) : String := fmtOutcome (fmtUnits 8) o

def caseOf (ci : Bool) : CaseMode := if ci then .insensitive else .sensitive

def modeOf (m : String) : Mode := if m == "a" then .assumeValid else if m == "s" then .substituteInvalid else .checkValidity

def argOf (form : String) (bytes : List Nat) : Arg :=
  if form == "null" then .cstr none else if form == "cstr" then .cstr (some bytes) else .str bytes

def argBytes (form : String) (bytes : List Nat) : List Nat :=
  if form == "null" then [] else if form == "cstr" then Spec.Slice.cString bytes else bytes

/-- pieces parsed back from an observation `ok k p1 … pk` -/
def obsPieces (c : Case) : Option (List (List Nat)) :=
  match c.obs with
  | "ok" :: k :: ps => if k.toNat? == some ps.length then some (ps.map (parseUnits 8)) else none
  | _ => none

def lenClass (n : Nat) : String := if n == 0 then "0" else if n == 1 then "1" else "2+"

def handle (c : Case) : Verdict :=
  let obs := obsString c
  let s := parseUnits 8 (c.get "s")
  match c.op with
  | "sp.split" =>
    let form := c.get "form"
    let cs := caseOf (c.get "ci" == "1")
    let max := c.nat "max"
    let raw := parseUnits 8 (c.get "sep")
    let (mo, sb) : Outcome (List (List Nat)) × List Nat :=
      if form == "char" then (splitChar cs s (raw.headD 0) max, [raw.headD 0])
      else if form == "cstr" then (splitCstr cs s (some raw) max rev, Spec.Slice.cString raw)
      else (splitStr cs s raw max rev, raw)
    let m := showV mo
    let want := Spec.Split.split cs sb max s
    -- outside the re-validating overload's domain (pieces that are not UTF-8 while the splitter has
    -- a high-bit byte) the property leaves unicode_error open
    let lenient := form == "cstr" && splitterValidation sb == .checkValidity && want.any (fun p => Utf.validateUtf8 p != 0)
    let (sp, why) : Bool × String :=
      match obsPieces c with
      | some ps =>
        if ps != want then (false, s!"pieces differ from the specified split ({showPieces want})")
        else if ps.length > max + 1 then (false, "more than max+1 pieces")
        else if cs == .sensitive && Spec.Split.join sb ps != s && !sb.isEmpty then (false, "joining the pieces with the separator does not give the original")
        else (true, "")
      | none =>
        if lenient && obs == "throw unicode_error" then (true, "")
        else (false, s!"did not return the pieces ({showPieces want})")
    { corr := m == obs, spec := sp, why, model := m, nontrivial := !s.isEmpty && !sb.isEmpty,
      branch := s!"split.{form}.{if cs == .sensitive then "cs" else "ci"}.sep{lenClass sb.length}.pieces{lenClass (want.length - 1)}" ++
        (if max < want.length then ".capped" else "") ++ (if obs.startsWith "throw" then ".throw" else "") }
  | "sp.tok" =>
    let dflt := c.get "d" == "dflt"
    let d := if dflt then StVerif.Slice.whitespace else parseUnits 8 (c.get "d")
    let m := showV (tokenize s d)
    let want := Spec.Split.tokens (if dflt then Spec.Slice.whitespace else Spec.Slice.cString d) s
    let (sp, why) : Bool × String :=
      match obsPieces c with
      | some ps => if ps != want then (false, s!"tokens differ from the specified runs ({showPieces want})") else (true, "")
      | none => (false, "did not return the tokens")
    { corr := m == obs, spec := sp, why, model := m, nontrivial := !s.isEmpty,
      branch := s!"tok.{if dflt then "dflt" else "set"}.tokens{lenClass want.length}" }
  | "sp.replace" =>
    let cs := caseOf (c.get "ci" == "1")
    let md := modeOf (c.get "m")
    let ff := c.get "ff"; let tf := c.get "tf"
    let fraw := parseUnits 8 (c.get "from"); let traw := parseUnits 8 (c.get "to")
    let m := showS (replaceArgs cs md s (argOf ff fraw) (argOf tf traw) rev)
    let fb := argBytes ff fraw; let tb := argBytes tf traw
    let want := Spec.Split.replace cs fb tb s
    -- a `const char*` argument that is not UTF-8 is rejected by check_validity (C02's subject)
    let rejects := md == .checkValidity &&
      ((ff == "cstr" && Utf.validateUtf8 fb != 0) || (tf == "cstr" && Utf.validateUtf8 tb != 0))
    let k := Spec.Split.occurrences cs fb s
    let (sp, why) : Bool × String :=
      if rejects then (if obs == "throw unicode_error" then (true, "") else (false, "malformed const char* argument not rejected"))
      else match c.obs with
        | ["ok", h] =>
          let out := parseUnits 8 h
          if out != want then (false, s!"result differs from the specified replacement ({fmtUnits 8 want})")
          else if (out.length : Int) != (s.length : Int) + (k : Int) * ((tb.length : Int) - (fb.length : Int)) then (false, "length is not size + k*(|to|-|from|)")
          else (true, "")
        | _ => (false, s!"did not return a string ({fmtUnits 8 want})")
    { corr := m == obs, spec := sp, why, model := m, nontrivial := !s.isEmpty && !fb.isEmpty,
      branch := s!"replace.{ff}.{tf}.{if cs == .sensitive then "cs" else "ci"}.k{lenClass k}." ++
        (if tb.length > fb.length then "grow" else if tb.length < fb.length then "shrink" else "same") ++ (if rejects then ".reject" else "") }
  | _ => { corr := false, spec := true, why := "unknown op", model := "?" }

end Driver.Split
