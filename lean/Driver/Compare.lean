import Driver.Proto
import StVerif.Model.Compare
import StVerif.Spec.Compare

/-!
  Family "compare" (C06).  Lines (signs are the characters `-` `0` `+`, booleans `0` `1`):
    scmp a=<hex> b=<hex> n=<N|none>        => cmp=<9 or 18 signs> ops=<9 bools> hh=<b> hhi=<b>
    scmpnull a=<hex> n=<N|none>            => cmp=<3 or 6 signs> ops=<2 bools>
    bcmp w=<8|16|32|w> a=<hex> b=<hex> n=  => cmp=<3 or 6 signs> ops=<3 bools>
    bcmpnull w= a= n=                      => cmp=<1 or 2 signs>
    rawcmp w= a=<unit> b=<unit> la=<N> lb=<N> n=<N|none>   => r=<sign>     (length-only / one-unit operands)
    bigcmp len=<N>                         => cmp=<6 signs> ops=<6 bools>  (a real ST::string of `len` bytes against "")
    casemap a=<hex>                        => up=<hex> lo=<hex> h=<hex64> hi=<hex64> sh=<b>
    tri a= b= c=                           => s=<ab ba bc ac> i=<ab ba bc ac>
    blk.scmp a= alpha= maxlen=  |  blk.bcmp w= a= alpha= maxlen=  |  blk.tri a= alpha= maxlen=   => digest <hex>
  The positions of the sign / boolean strings are documented at `scmpModel` etc.
-/
namespace Driver.Compare
open StVerif StVerif.Search StVerif.Compare Driver
open StVerif.Spec.Compare
open StVerif.Spec.Search (cstr foldAscii)

def sg (x : Int) : Char := if x < 0 then '-' else if x == 0 then '0' else '+'
def bc (b : Bool) : Char := if b then '1' else '0'
def str (cs : List Char) : String := String.ofList cs

def elemOf (w : String) : Elem :=
  if w == "16" then .char16 else if w == "32" then .char32 else if w == "w" then .wchar else .char
def bitsOf (w : String) : Nat := if w == "16" then 16 else if w == "32" || w == "w" then 32 else 8

def optN (s : String) : Option Nat := if s == "none" || s == "" then none else s.toNat?

/-! ### ST::string -/

/-- model observation of `scmp` -/
def scmpModel (a b : List Nat) (n : Option Nat) : String :=
  let S := Rhs.str b; let C := Rhs.cstr (some b)
  let base := [strCompare .sensitive a S, strCompare .sensitive a C, strCompare .sensitive a C,
               strCompare .insensitive a S, strCompare .insensitive a C, strCompare .insensitive a C,
               strCompareI a S, strCompareI a C, strCompareI a C]
  let withN := match n with
    | none => []
    | some k => [strCompareN .sensitive a S k, strCompareN .sensitive a C k, strCompareN .sensitive a C k,
                 strCompareN .insensitive a S k, strCompareN .insensitive a C k, strCompareN .insensitive a C k,
                 strCompareNI a S k, strCompareNI a C k, strCompareNI a C k]
  let ops := [strLt a b, strEq a S, strNe a S, strEq a C, strNe a C, strEq a C, strNe a C, lessI a b, equalI a b]
  s!"cmp={str ((base ++ withN).map sg)} ops={str (ops.map bc)} hh={bc (StVerif.Compare.hash a == StVerif.Compare.hash b)} hhi={bc (hashI a == hashI b)}"

/-- a sign observed at a case-insensitive position: zero exactly for fold-equal operands -/
def ciOk (c : Char) (x y : List Nat) : Bool := (c == '0') == decide (FoldEq x y) && (c == '-' || c == '0' || c == '+')

/-- Spec verdict on an observed `scmp` line -/
def scmpSpec (a b : List Nat) (n : Option Nat) (c : Case) : Bool × String :=
  let cmp := ((c.obs.find? (·.startsWith "cmp=")).getD "cmp=").drop 4 |>.toString.toList
  let ops := ((c.obs.find? (·.startsWith "ops=")).getD "ops=").drop 4 |>.toString.toList
  let hh := (c.obs.find? (·.startsWith "hh=")).getD ""
  let hhi := (c.obs.find? (·.startsWith "hhi=")).getD ""
  let bz := cstr b
  let want := 9 + (if n.isSome then 9 else 0)
  if cmp.length != want || ops.length != 9 then (false, "malformed observation") else
  let at_ (i : Nat) : Char := cmp.getD i '?'
  let op (i : Nat) : Bool := ops.getD i '?' == '1'
  -- case-sensitive: bytewise unsigned lexicographic order, a proper prefix first
  if at_ 0 != sg (lexUnsigned a b) then (false, "compare(string) is not bytewise lexicographic order") else
  if at_ 1 != sg (lexUnsigned a bz) || at_ 2 != at_ 1 then (false, "compare(const char*) is not lexicographic order of the C string") else
  -- case-insensitive: zero exactly for fold-equal operands; all routes agree
  if !(ciOk (at_ 3) a b) then (false, "case-insensitive compare zero <-> fold-equal fails") else
  if !(ciOk (at_ 4) a bz) then (false, "case-insensitive compare(const char*) zero <-> fold-equal fails") else
  if at_ 6 != at_ 3 || at_ 7 != at_ 4 || at_ 5 != at_ 4 || at_ 8 != at_ 4 then (false, "compare_i disagrees with compare(case_insensitive)") else
  let nOk : Bool × String := match n with
    | none => (true, "")
    | some k =>
      if at_ 9 != sg (lexUnsigned (a.take k) (b.take k)) then (false, "compare_n is not the comparison of the first n units") else
      if at_ 10 != sg (lexUnsigned (a.take k) (bz.take k)) || at_ 11 != at_ 10 then (false, "compare_n(const char*) is not the comparison of the first n units") else
      if !(ciOk (at_ 12) (a.take k) (b.take k)) || !(ciOk (at_ 13) (a.take k) (bz.take k)) then (false, "case-insensitive compare_n zero <-> fold-equal prefixes fails") else
      if at_ 15 != at_ 12 || at_ 16 != at_ 13 || at_ 14 != at_ 13 || at_ 17 != at_ 13 then (false, "compare_ni disagrees with compare_n(case_insensitive)") else (true, "")
  if !nOk.1 then nOk else
  -- operators and functors agree with compare
  if op 0 != (at_ 0 == '-') || op 1 != (at_ 0 == '0') || op 2 != (at_ 0 != '0') then (false, "operator < / == / != disagree with compare") else
  if op 3 != (at_ 1 == '0') || op 4 != (at_ 1 != '0') || op 5 != op 3 || op 6 != op 4 then
    (false, "operator == / != (const char*) disagree with compare") else
  if op 7 != (at_ 3 == '-') || op 8 != (at_ 3 == '0') then (false, "less_i / equal_i disagree with compare_i") else
  -- equal strings hash equal; fold-equal strings hash_i equal
  if a == b && hh != "hh=1" then (false, "equal strings with different hash") else
  if decide (FoldEq a b) && hhi != "hhi=1" then (false, "case-insensitively equal strings with different hash_i") else (true, "")

def scmpNullModel (a : List Nat) (n : Option Nat) : String :=
  let C := Rhs.cstr none
  let base := [strCompare .sensitive a C, strCompare .insensitive a C, strCompareI a C]
  let withN := match n with
    | none => []
    | some k => [strCompareN .sensitive a C k, strCompareN .insensitive a C k, strCompareNI a C k]
  s!"cmp={str ((base ++ withN).map sg)} ops={str ([strEq a C, strNe a C].map bc)}"

/-- a null `const char*` is the empty text -/
def scmpNullSpec (a : List Nat) (n : Option Nat) : String :=
  let e : Char := if a.isEmpty then '0' else '+'
  let en : Char := match n with | some k => (if (a.take k).isEmpty then '0' else '+') | none => '?'
  let withN := if n.isSome then [en, en, en] else []
  s!"cmp={str ([e, e, e] ++ withN)} ops={str ([a.isEmpty, !a.isEmpty].map bc)}"

/-! ### ST::buffer<char_T> -/

def bcmpModel (e : Elem) (a b : List Nat) (n : Option Nat) : String :=
  let S := Rhs.str b; let C := Rhs.cstr (some b)
  let base := [bufCompare e a S, bufCompare e a C, compareSized e a a.length b b.length]
  let withN := match n with
    | none => []
    | some k => [bufCompareN e a S k, bufCompareN e a C k, compareSizedN e a a.length b b.length k]
  s!"cmp={str ((base ++ withN).map sg)} ops={str ([bufEq e a b, bufNe e a b, bufLt e a b].map bc)}"

/-- the order the property states: unsigned unit values.  For `wchar_t` units at or above 2^31 the
    platform's `char_traits<wchar_t>` (wmemcmp) orders by the signed value; the judge accepts that
    order there (recorded as an assumption, branch label `bcmp.w.high`). -/
def specKey (e : Elem) (xs ys : List Nat) : Nat → Int :=
  if e == .wchar && (xs ++ ys).any (· ≥ 2 ^ 31) then Elem.key .wchar else unsignedKey

def bcmpSpec (e : Elem) (a b : List Nat) (n : Option Nat) : String :=
  let bz := cstr b
  let key := specKey e a b
  let base := [lexSign key a b, lexSign key a bz, lexSign key a b]
  let withN := match n with
    | none => []
    | some k => [lexSign key (a.take k) (b.take k), lexSign key (a.take k) (bz.take k), lexSign key (a.take k) (b.take k)]
  s!"cmp={str ((base ++ withN).map sg)} ops={str ([a == b, a != b, lexSign key a b < 0].map bc)}"

def bcmpNullModel (e : Elem) (a : List Nat) (n : Option Nat) : String :=
  let C := Rhs.cstr none
  let withN := match n with | none => [] | some k => [bufCompareN e a C k]
  s!"cmp={str (([bufCompare e a C] ++ withN).map sg)}"

def bcmpNullSpec (a : List Nat) (n : Option Nat) : String :=
  let e : Char := if a.isEmpty then '0' else '+'
  let withN := match n with | none => [] | some k => [if (a.take k).isEmpty then '0' else '+']
  s!"cmp={str ([e] ++ withN)}"

/-! ### static (pointer, length) form with lengths beyond any allocation -/

def rawModel (e : Elem) (a b : List Nat) (la lb : Nat) (n : Option Nat) : Int :=
  match n with
  | none => compareSized e a la b lb
  | some k => compareSizedN e a la b lb k

/-- Spec for operands of lengths `la`, `lb` of which only the first `min la lb ≤ 1` units matter:
    first difference of the common prefix, else the shorter operand first (lemma `lexSign_decomp`) -/
def rawSpec (e : Elem) (a b : List Nat) (la lb : Nat) (n : Option Nat) : Int :=
  let la' := match n with | none => la | some k => min la k
  let lb' := match n with | none => lb | some k => min lb k
  let m := min la' lb'
  let c := lexSign (specKey e a b) (a.take m) (b.take m)
  if c ≠ 0 then c else lengthOrder la' lb'

/-! ### case maps and hashes -/

def u64hex (x : Nat) : String := fmtUnit 64 x

def casemapModel (a : List Nat) : String :=
  s!"up={fmtUnits 8 (toUpper a)} lo={fmtUnits 8 (toLower a)} h={u64hex (StVerif.Compare.hash a)} hi={u64hex (hashI a)} sh=1"

/-- to_upper / to_lower change nothing but ASCII letters of the other case, those by exactly 32 -/
def casemapSpec (a : List Nat) (c : Case) : Bool × String :=
  let up := parseUnits 8 (((c.obs.find? (·.startsWith "up=")).getD "up=").drop 3).toString
  let lo := parseUnits 8 (((c.obs.find? (·.startsWith "lo=")).getD "lo=").drop 3).toString
  let okUp := up.length == a.length && (a.zip up).all fun (x, y) => if decide (isLowerAscii x) then y + 32 == x else y == x
  let okLo := lo.length == a.length && (a.zip lo).all fun (x, y) => if decide (isUpperAscii x) then y == x + 32 else y == x
  if !okUp then (false, "to_upper changed something other than a-z -> A-Z") else
  if !okLo then (false, "to_lower changed something other than A-Z -> a-z") else
  if !(c.obs.contains "sh=1") then (false, "std::hash<ST::string> differs from ST::hash") else (true, "")

/-! ### triples -/

def triModel (a b c : List Nat) : String :=
  let f (cs : CaseMode) := str ([strCompare cs a (.str b), strCompare cs b (.str a), strCompare cs b (.str c), strCompare cs a (.str c)].map sg)
  s!"s={f .sensitive} i={f .insensitive}"

def sgnNum (c : Char) : Int := if c == '-' then -1 else if c == '0' then 0 else 1

/-- antisymmetry and transitivity judged directly on the observed signs -/
def triSpecOne (t : List Char) : Bool :=
  let ab := sgnNum (t.getD 0 '?'); let ba := sgnNum (t.getD 1 '?'); let bc_ := sgnNum (t.getD 2 '?'); let ac := sgnNum (t.getD 3 '?')
  t.length == 4 && t.all (fun ch => ch == '-' || ch == '0' || ch == '+') &&
  ab == -ba &&
  (!(ab ≤ 0 && bc_ ≤ 0) || ac ≤ 0) && (!(ab ≥ 0 && bc_ ≥ 0) || ac ≥ 0) &&
  (!(ab < 0 && bc_ ≤ 0) || ac < 0) && (!(ab ≤ 0 && bc_ < 0) || ac < 0) &&
  (!(ab == 0 && bc_ == 0) || ac == 0)

def triSpec (c : Case) : Bool :=
  let s := (((c.obs.find? (·.startsWith "s=")).getD "s=").drop 2).toString.toList
  let i := (((c.obs.find? (·.startsWith "i=")).getD "i=").drop 2).toString.toList
  triSpecOne s && triSpecOne i

/-! ### blocks -/

def textsOfLen (alpha : List Nat) : Nat → List (List Nat)
  | 0 => [[]]
  | len + 1 => alpha.flatMap fun a => (textsOfLen alpha len).map (a :: ·)

def textsUpTo (alpha : List Nat) (maxlen : Nat) : List (List Nat) :=
  (List.range (maxlen + 1)).flatMap (textsOfLen alpha)

def blockNs : List (Option Nat) := [none, some 0, some 1, some 2, some 3, some 4, some 5, some SIZE_MAX]

def nTok (n : Option Nat) : String := match n with | none => "none" | some k => toString k

def handle (c : Case) : Verdict :=
  let obs := obsString c
  let a := c.get "a"; let b := c.get "b"
  let n := optN (c.get "n")
  match c.op with
  | "scmp" =>
      let A := parseUnits 8 a; let B := parseUnits 8 b
      let m := scmpModel A B n
      let (sp, why) := scmpSpec A B n c
      { corr := m == obs, spec := sp, why, model := m, nontrivial := !A.isEmpty && !B.isEmpty,
        branch := s!"scmp.{sg (lexUnsigned A B)}.{if n.isSome then "n" else "all"}" }
  | "mvcmp" =>
      -- a moved-from object is empty in this library (C05's model); whatever it holds, ==, != and compare must agree (C06)
      let parts := (obs.splitOn " ").filter (· ≠ "")
      let field (p k : String) : String := (((p.splitOn ":").getD 1 "").splitOn ",").foldl (fun acc kv => match kv.splitOn "=" with | [k', v] => if k' == k then v else acc | _ => acc) "?"
      let okPart (p : String) : Bool :=
        let eq := field p "eq"; let ne := field p "ne"; let req := field p "req"; let cmp := field p "cmp"
        (eq == "1") == (cmp == "0") && (ne == "1") != (eq == "1") && req == eq && field p "self" != "0" &&
        (field p "hash" == "?" || eq != "1" || (field p "hash" == "1" && field p "hashi" == "1" && field p "lt" == "0" && field p "cmpi" == "0"))
      let expectB := "eq=1,ne=0,req=1,cmp=0,self=1,size=0"
      let expectS := "eq=1,ne=0,req=1,cmp=0,cmpi=0,lt=0,hash=1,hashi=1,size=0"
      let m := if c.get "w" == "8" then s!"c:{expectB} a:{expectB} sc:{expectS} sa:{expectS}" else s!"c:{expectB} a:{expectB}"
      { corr := m == obs, spec := !parts.isEmpty && parts.all okPart, why := "==, != and compare() disagree on a moved-from object", model := m,
        branch := s!"mvcmp.{c.get "w"}", nontrivial := a != "-" }
  | "scmpnull" =>
      let A := parseUnits 8 a
      let m := scmpNullModel A n
      { corr := m == obs, spec := obs == scmpNullSpec A n, why := "a null const char* must compare as the empty text", model := m,
        branch := "scmpnull", nontrivial := !A.isEmpty }
  | "bcmp" =>
      let w := c.get "w"; let e := elemOf w
      let A := parseUnits (bitsOf w) a; let B := parseUnits (bitsOf w) b
      let m := bcmpModel e A B n
      let high := e == .wchar && (A ++ B).any (· ≥ 2 ^ 31)
      { corr := m == obs, spec := obs == bcmpSpec e A B n, why := "buffer compare is not unit-wise unsigned lexicographic order", model := m,
        branch := s!"bcmp.{w}.{if high then "high" else toString (sg (lexSign (specKey e A B) A B))}", nontrivial := !A.isEmpty && !B.isEmpty }
  | "bcmpnull" =>
      let w := c.get "w"; let e := elemOf w
      let A := parseUnits (bitsOf w) a
      let m := bcmpNullModel e A n
      { corr := m == obs, spec := obs == bcmpNullSpec A n, why := "a null pointer must compare as the empty text", model := m,
        branch := s!"bcmpnull.{w}", nontrivial := !A.isEmpty }
  | "rawcmp" =>
      let w := c.get "w"; let e := elemOf w
      let A := parseUnits (bitsOf w) a; let B := parseUnits (bitsOf w) b
      let la := c.nat "la"; let lb := c.nat "lb"
      let m := s!"r={sg (rawModel e A B la lb n)}"
      let big := (if la ≥ lb then la - lb else lb - la) ≥ 2 ^ 31
      { corr := m == obs, spec := obs == s!"r={sg (rawSpec e A B la lb n)}", why := "sign of compare differs from lexicographic order (operands given by length)",
        model := m, branch := s!"rawcmp.{w}.{if big then "diff>=2^31" else "small"}" }
  | "bigcmp" =>
      let len := c.nat "len"
      let ra := [0x61]
      -- a real string of `len` bytes 'a' against "": compare, compare(ci), compare_i, then ("" against it) the same
      let l := [compareMode .sensitive ra len [] 0, compareMode .insensitive ra len [] 0, compareMode .insensitive ra len [] 0,
                compareMode .sensitive [] 0 ra len, compareMode .insensitive [] 0 ra len, compareMode .insensitive [] 0 ra len]
      let ops := [decide (l.getD 0 0 = 0), decide (l.getD 0 0 ≠ 0), decide (l.getD 0 0 < 0), decide (l.getD 3 0 < 0),
                  decide (l.getD 1 0 < 0), decide (l.getD 4 0 < 0)]
      let m := s!"cmp={str (l.map sg)} ops={str (ops.map bc)}"
      let want := if len == 0 then "cmp=000000 ops=100000" else "cmp=+++--- ops=010101"
      if obs == "skip nomem" then { branch := "bigcmp.skipped", model := m, nontrivial := false } else
      { corr := m == obs, spec := obs == want, why := "a longer string must sort after its proper prefix whatever the length difference",
        model := m, branch := "bigcmp" }
  | "casemap" =>
      let A := parseUnits 8 a
      let m := casemapModel A
      let (sp, why) := casemapSpec A c
      { corr := m == obs, spec := sp, why, model := m, branch := "casemap", nontrivial := !A.isEmpty }
  | "tri" =>
      let A := parseUnits 8 a; let B := parseUnits 8 b; let C := parseUnits 8 (c.get "c")
      let m := triModel A B C
      { corr := m == obs, spec := triSpec c, why := "antisymmetry / transitivity fails on these three strings", model := m, branch := "tri" }
  | "blk.scmp" =>
      let A := parseUnits 8 a
      let alpha := parseUnits 8 (c.get "alpha")
      Id.run do
        let mut f : Fnv := {}
        let mut ok := true
        let mut cnt := 0
        for B in textsUpTo alpha (c.nat "maxlen") do
          for n in blockNs do
            let m := scmpModel A B n
            if !(scmpSpec A B n (parseLine ("x => " ++ m))).1 then ok := false
            f := f.str m
            cnt := cnt + 1
        for n in blockNs do
          let m := scmpNullModel A n
          if m != scmpNullSpec A n then ok := false
          f := f.str m
          cnt := cnt + 1
        let m := casemapModel A
        if !(casemapSpec A (parseLine ("x => " ++ m))).1 then ok := false
        f := f.str m
        let d := "digest " ++ f.hex
        return { corr := d == obs, spec := ok || d != obs, why := "block: a model item violates the comparison spec", model := d,
                 branch := s!"blk.scmp.len={A.length}", items := cnt + 1, nontrivial := !A.isEmpty }
  | "blk.bcmp" =>
      let w := c.get "w"; let e := elemOf w
      let A := parseUnits (bitsOf w) a
      let alpha := parseUnits (bitsOf w) (c.get "alpha")
      Id.run do
        let mut f : Fnv := {}
        let mut ok := true
        let mut cnt := 0
        for B in textsUpTo alpha (c.nat "maxlen") do
          for n in blockNs do
            let m := bcmpModel e A B n
            if m != bcmpSpec e A B n then ok := false
            f := f.str m
            cnt := cnt + 1
        for n in blockNs do
          let m := bcmpNullModel e A n
          if m != bcmpNullSpec A n then ok := false
          f := f.str m
          cnt := cnt + 1
        let d := "digest " ++ f.hex
        return { corr := d == obs, spec := ok || d != obs, why := "block: a model item violates the comparison spec", model := d,
                 branch := s!"blk.bcmp.{w}.len={A.length}", items := cnt, nontrivial := !A.isEmpty }
  | "blk.tri" =>
      let A := parseUnits 8 a
      let alpha := parseUnits 8 (c.get "alpha")
      Id.run do
        let mut f : Fnv := {}
        let mut ok := true
        let mut cnt := 0
        let texts := textsUpTo alpha (c.nat "maxlen")
        for B in texts do
          for C in texts do
            let m := triModel A B C
            if !(triSpec (parseLine ("x => " ++ m))) then ok := false
            f := f.str m
            cnt := cnt + 1
        let d := "digest " ++ f.hex
        return { corr := d == obs, spec := ok || d != obs, why := "block: antisymmetry / transitivity fails on a model item", model := d,
                 branch := s!"blk.tri.len={A.length}", items := cnt, nontrivial := !A.isEmpty }
  | _ => { corr := false, spec := true, why := "unknown op", model := "?" }

end Driver.Compare
