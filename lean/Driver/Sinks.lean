import Driver.Proto
import Driver.Fmt
import StVerif.Model.Sinks
import StVerif.Spec.Unicode

/-! Driver for the family "sinks" (C17): `sk.fmt`, `sk.ins`, `sk.ext` (see harness/sinks.cpp) -/

namespace Driver.Sinks
open StVerif StVerif.Fmt StVerif.Utf StVerif.Sinks Driver
open StVerif.Spec

/-- `ok:<hex>` / `throw:<kind>` -/
def tokOutcome (w : Nat) : Outcome (List Nat) → String
  | .ok a => "ok:" ++ fmtUnits w a
  | .throw e => "throw:" ++ excName e
  | o => (fmtOutcome (fmtUnits w) o).replace " " ":"

/-- the units of an `ok:<hex>` token -/
def tokUnits (w : Nat) (t : String) : Option (List Nat) :=
  if t.startsWith "ok:" then some (parseUnits w (t.drop 3).toString) else none

def obsField (c : Case) (k : String) : String :=
  match c.obs.find? (fun t => t.startsWith (k ++ "=")) with
  | some t => (t.drop (k.length + 1)).toString
  | none => ""

/-- the default validation of the build that produced the observation (falls back to the input's `dm`) -/
def modeOfCase (c : Case) : Mode × String :=
  let o := obsField c "dm"
  let t := if o == "" then c.get "dm" else o
  (Driver.Fmt.modeOfTok t, t)

def knownPad : String := "C17-wide-nonascii-append-char"
def knownCut : String := "C17-wide-chunk-inside-character"

/-- the input classes of the two recorded findings, evaluated on the sink events of the call -/
def nonAsciiPad (ev : List Event) : Bool :=
  ev.any fun e => match e with
    | .appendChar c n => n != 0 && c ≥ 0x80
    | _ => false
def chunkCut (ev : List Event) : Bool :=
  ev.any fun e => match e with
    | .append bs => validateUtf8 bs != 0
    | _ => false

/-- a wide sink's token.  A pad byte 0xFF widens to `wchar_t(-1)` / `char32_t(-1)`, the stream's `eof()` value:
    libstdc++'s `put` takes the returned unit for a failure and sets `badbit` (the harness prints `!state`).  That is
    a stream-level consequence inside the recorded class "non-ASCII byte through append_char". -/
def wideTok (w : Nat) (o : Outcome (List Nat)) : String :=
  match o with
  | .ok us => if w == 32 && us.any (· == 0xFFFFFFFF) then "!state" else tokOutcome w o
  | _ => tokOutcome w o

def handleFmt (c : Case) : Verdict :=
  let obs := Driver.Fmt.normObs (obsString c)
  let (m, dmS) := modeOfCase c
  let fs := c.get "fmt"
  let fmt : Option (List Nat) := if fs == "N" then none else some (parseUnits 8 fs)
  let tbl := Driver.Fmt.parseFloatTable (c.get "fr")
  let args := Driver.Fmt.parseArgs tbl (c.get "args") m      -- wide-text arguments are converted under the build's default validation
  let nontrivial := match fmt with
    | some f => f.any (fun b => b == 123)
    | none => true
  match run fmt args with
  | .ok ev =>
    let mf := stringSink (.utf8 m) ev
    let mw := wideTok 32 (wideSink .utf32 m ev); let mh := wideTok 16 (wideSink .utf16 m ev)
    let ms := "f=" ++ tokOutcome 8 mf ++ " p=" ++ tokOutcome 8 (.ok (fileSink ev)) ++ " o=" ++ tokOutcome 8 (.ok (ostreamSink ev)) ++
      " l=" ++ tokOutcome 8 (stringSink .latin1 ev) ++ " w=" ++ mw ++ " h=" ++ mh ++ " u=" ++ mw ++ " dm=" ++ dmS
    -- the property, judged on the implementation's own outputs
    let f := obsField c "f"; let p := obsField c "p"; let o := obsField c "o"; let l := obsField c "l"
    let w := obsField c "w"; let h := obsField c "h"; let u := obsField c "u"
    match tokUnits 8 p with
    | none => { corr := ms == obs, spec := false, model := ms, why := "the FILE* sink did not complete on a call the formatter accepts", branch := "fmt.accepted.sink-failed", nontrivial }
    | some pb =>
      let narrowOk := o == p
      -- ST::format returns these bytes passed through the default validation
      let formatOk := f == tokOutcome 8 (Unicode.referenceString m pb)
      let latinOk := l == tokOutcome 8 (Unicode.reference .latin1 .utf8 .assumeValid true pb)
      -- the bytes ST::format produces (when it rejects them as text: the bytes of the narrow sinks)
      let fb := (tokUnits 8 f).getD pb
      let wideOk := w == tokOutcome 32 (Unicode.reference .utf8 .utf32 m true fb) &&
                    h == tokOutcome 16 (Unicode.reference .utf8 .utf16 m true fb) &&
                    u == tokOutcome 32 (Unicode.reference .utf8 .utf32 m true fb)
      -- the wide clause speaks of calls ST::format accepts
      let accepted := f.startsWith "ok:"
      let wideOk := wideOk || !accepted
      let spec := narrowOk && formatOk && latinOk && wideOk
      -- a recorded finding is the recorded behaviour (what the unchanged model predicts) on an input of its class; any
      -- other failure of the wide clause, inside the class or not, is reported
      let known := if narrowOk && formatOk && latinOk && !wideOk && w == mw && h == mh && u == mw then
          (if nonAsciiPad ev then knownPad else if chunkCut ev then knownCut else "") else ""
      let why :=
        if !narrowOk then "FILE* and narrow ostream outputs differ"
        else if !formatOk then "ST::format's bytes are not the (validated) bytes of the narrow sinks"
        else if !latinOk then "format_latin_1 is not the UTF-8 transcoding of the narrow bytes read as Latin-1"
        else if !wideOk then "a wide stream did not receive the UTF-16/32 transcoding of ST::format's bytes"
        else ""
      let cls := if !chunkSafe ev then (if nonAsciiPad ev then "nonascii-pad" else "chunk-cut") else "chunk-safe"
      let big := if pb.length ≥ 4096 then ".big" else if pb.length ≥ 256 then ".mid" else ""
      { corr := ms == obs, spec, model := if ms.length > 600 then (ms.take 600).toString ++ "…" else ms, known, why,
        branch := s!"fmt.{if accepted then "accepted" else "not-text"}.{cls}{big}.args={args.length}", nontrivial }
  | bad =>
    -- the formatter itself rejects the call (bad_format, out_of_range, null format string, the char-padding
    -- contract): outside the property's quantifier; every sink must fail the same way (a wide sink may meet a
    -- chunk it cannot transcode first)
    let bs := fmtOutcome (fun _ => "") bad
    if obs.startsWith "abort" || obs == "hang" then
      { corr := bs == obs, spec := bs == obs, model := bs, why := "the call stops the process", branch := "fmt.rejected.abort", nontrivial := false }
    else
      let t := bs.replace " " ":"
      let narrow := ["f", "p", "o", "l"].all fun k => obsField c k == t
      let wide := ["w", "h", "u"].all fun k => obsField c k == t || obsField c k == "throw:unicode_error"
      { corr := narrow && wide, spec := narrow && wide, model := t, why := "the sinks do not reject the call alike",
        branch := s!"fmt.rejected.{t}", nontrivial := false }

def encOfT (t : String) : Enc := if t == "c" then .utf8 else if t == "h" then .utf16 else .utf32
def widthOfT (t : String) : Nat := if t == "c" then 8 else if t == "h" then 16 else 32

def handleIns (c : Case) : Verdict :=
  let obs := obsString c
  let t := c.get "t"
  let T := encOfT t; let w := widthOfT t
  let bytes := parseUnits 8 (c.get "s")
  let fillS := c.get "fill"
  let sf : StreamFmt := { width := c.nat "wd", fill := if fillS == "-" || fillS == "" then 32 else (parseUnits w fillS).headD 32, left := c.get "adj" == "l" }
  let ms := tokOutcome w (insert T sf bytes) ++ " wd=0 good=1"
  -- the contents, transcoded (an ST::string converts under assume_valid), as a basic_string insertion lays them out
  let contents : Outcome (List Nat) := if T == .utf8 then .ok bytes else Unicode.reference .utf8 T .assumeValid true bytes
  let ss := tokOutcome w (contents.map (stdInsert sf)) ++ " wd=0 good=1"
  let wf := Unicode.wellFormedByDesign .utf8 bytes
  let ulen := match contents with | .ok us => us.length | _ => 0
  { corr := ms == obs, spec := ss == obs, model := ms, why := s!"the stream did not receive the (transcoded) contents ({ss})",
    branch := s!"ins.{t}.{if sf.width == 0 then "plain" else if sf.width ≤ ulen then "setw-le" else "setw-pad"}.{if wf then "wf" else "raw"}",
    nontrivial := !bytes.isEmpty }

/-- the groups `<tok>/<result>/<state>` of successive extractions -/
def extLoop (T : Enc) (m : Mode) (w : Nat) : Nat → List Nat → List String
  | 0, _ => []
  | fuel + 1, input =>
    let r := extract T m input
    let tok := (stdExtract input).1
    let g := fmtUnits w tok ++ "/" ++ tokOutcome 8 r.1 ++ "/="
    if tok.isEmpty then [g] else g :: extLoop T m w fuel r.2

def handleExt (c : Case) : Verdict :=
  let obs := obsString c
  let t := c.get "t"
  let T : Enc := if t == "c" then .utf8 else .utf32
  let w := widthOfT t
  let (m, dmS) := modeOfCase c
  let input := parseUnits w (c.get "in")
  let ms := String.intercalate " " (extLoop T m w 12 input) ++ " dm=" ++ dmS
  -- judged on the observation: each ST::string is the observed std token under the default validation
  let groups := c.obs.filter fun g => !g.startsWith "dm="
  let specOk := !groups.isEmpty && groups.all fun g =>
    match g.splitOn "/" with
    | [tokS, res, st] =>
      let tok := parseUnits w tokS
      let want := if T == .utf8 then Unicode.referenceString m tok else Unicode.reference .utf32 .utf8 m true tok
      st == "=" && res == tokOutcome 8 want
    | _ => false
  let anyThrow := groups.any fun g => (g.splitOn "/").getD 1 "" |>.startsWith "throw"
  { corr := ms == obs, spec := specOk, model := ms, why := "an extracted ST::string is not the token std::basic_string extraction takes (under the default validation)",
    branch := s!"ext.{t}.tokens={min (groups.length - 1) 4}{if groups.length > 5 then "+" else ""}.{if anyThrow then "throw" else "ok"}",
    nontrivial := !input.isEmpty }

def handle (c : Case) : Verdict :=
  match c.op with
  | "sk.fmt" => handleFmt c
  | "sk.ins" => handleIns c
  | "sk.ext" => handleExt c
  | _ => { corr := false, why := "unknown op" }

end Driver.Sinks
