import Driver.Proto
import StVerif.Model.Stream
import StVerif.Spec.ByteLog
import StVerif.Spec.Unicode
import StVerif.Lemmas.StreamDefs

namespace Driver.Stream
open StVerif StVerif.Stream Driver
open StVerif.Spec

/-- which revision of the move operations the code under test is expected to be -/
def rev : Rev := .repaired

def NOBJ : Nat := 3

/-- identical to `lcg_bytes` in harness/stream.cpp -/
def lcgGo : Nat → Nat → List Nat → List Nat
  | 0, _, acc => acc.reverse
  | n + 1, x, acc =>
    let x := (x * 1103515245 + 12345) % 2147483648
    lcgGo n x (((x >>> 16) % 256) :: acc)

def lcgBytes (seed n : Nat) : List Nat := lcgGo n (seed % 2147483648) []

def repr (bs : List Nat) : String :=
  if bs.length ≤ 32 then fmtUnits 8 bs
  else "#" ++ (bs.foldl (fun (f : Fnv) b => f.byte b) {}).hex

def modeOfTok (s : String) : Mode :=
  if s == "a" then .assumeValid else if s == "s" then .substituteInvalid else .checkValidity

def widthOfKind (k : String) : Nat :=
  if k == "wcs" || k == "u32s" || k == "wstd" || k == "u32std" || k == "wsv" || k == "u32sv" then 32
  else if k == "u16s" || k == "u16std" || k == "u16sv" then 16 else 8

def byteOfInt (s : String) : Nat := ((s.toInt?.getD 0) % 256).toNat

def parseOp (s : String) : Option Op :=
  let c := s.front
  let body := (s.drop 1).toString
  let (pre, payload) := match body.splitOn ":" with
    | [a, b] => (a, b)
    | _ => (body, "")
  let f := pre.splitOn ","
  let o := (f.headD "").toNat?.getD 0
  let f1 := f.getD 1 ""
  let f2 := f.getD 2 ""
  let n1 := f1.toNat?.getD 0
  match c with
  | 'D' => some (.ctor o)
  | 'X' => some (.dtor o)
  | 'M' => some (.moveCtor o n1)
  | 'm' => some (.moveAssign o n1)
  | 'a' => some (.append o (parseUnits 8 payload))
  | 'z' => some (.append o (if payload == "N" then [] else parseUnits 8 payload))
  | 'g' => some (.append o (lcgBytes (f2.toNat?.getD 0) n1))
  | 'c' => some (.appendChar o (byteOfInt f2) n1)
  | 't' => some (.truncate o n1)
  | 'u' => some (.truncate o 0)
  | 'e' => some (.erase o n1)
  | 's' => some (.toString o (n1 != 0) (modeOfTok f2))
  | 'o' =>
    let kind := f1
    let w := widthOfKind kind
    if kind == "char" then some (.appendChar o (byteOfInt f2) 1)
    else if kind == "int" || kind == "long" || kind == "llong" then
      let ds := parseUnits 8 payload
      if ds.head? == some 45 then some (.appendNum o true ds.tail) else some (.appendNum o false ds)
    else if kind == "uint" || kind == "ulong" || kind == "ullong" || kind == "float" || kind == "double" then
      some (.appendNum o false (parseUnits 8 payload))
    else if w == 8 then some (.append o (if payload == "N" then [] else parseUnits 8 payload))
    else
      let enc : Utf.Enc := if w == 16 then .utf16 else .utf32
      some (.appendText o enc .checkValidity (if payload == "N" then none else some (parseUnits w payload)))
  | _ => none

def faultName : Fault → String
  | .badFree => "badFree" | .doubleFree => "doubleFree" | .useAfterFree => "useAfterFree" | .oob => "oob"
  | .stuck => "stuck" | .convAbort => "convAbort" | .deadObject => "deadObject" | .liveObject => "liveObject"

/-- snapshot of every live stream in the harness's format -/
def snapshot (p : Pool) : String := Id.run do
  let mut parts : List String := []
  let mut blocks : List Nat := []
  for o in [0:NOBJ] do
    match p.objs o with
    | none => pure ()
    | some _ =>
      match observe o p with
      | .ok ob _ =>
        let whereS ← match ob.ptr with
          | .stack o' => pure (if o' == o then "S" else if (p.objs o').isSome then s!"A{o'}" else s!"Z{o'}")
          | .heap k =>
            match blocks.idxOf? k with
            | some i => pure s!"H{i}"
            | none => do
              let i := blocks.length
              blocks := blocks ++ [k]
              pure s!"H{i}"
        parts := parts ++ [s!"o{o}:{ob.size}:{repr ob.bytes}:{whereS}"]
      | .fault f _ => parts := parts ++ [s!"o{o}:FAULT:{faultName f}"]
      | .throw _ _ => parts := parts ++ [s!"o{o}:THROW"]
  return if parts.isEmpty then "-" else String.intercalate "," parts

def leaked (p : Pool) : Bool := (List.range p.next).any fun k => (p.heap k).isSome

def resultString (r : Outcome (List Nat)) : String :=
  match r with
  | .ok bs => s!"ok:{bs.length}:{repr bs}"
  | .throw e => "throw:" ++ excName e
  | _ => "abort"

/-! spec judge for C16 on the *observed* tokens -/

def obsKey (c : Case) (k : String) : Option String :=
  c.obs.findSome? fun t => if t.startsWith (k ++ "=") then some (t.drop (k.length + 1)).toString else none

/-- what the spec expects a snapshot to show: live ids with size and bytes; the storage must be the
    stream's own (in-object or a heap block shared with nobody) -/
def judgeSnapshot (st : ByteLog.State) (snap : String) : Option String :=
  let parts := if snap == "-" then [] else snap.splitOn ","
  let parsed := parts.map fun part => part.splitOn ":"
  let heapLabels := parsed.filterMap fun f => match f with
    | [_, _, _, wh] => if wh.startsWith "H" then some wh else none
    | _ => none
  let liveIds := (List.range NOBJ).filter fun o => (st o).isSome
  if parsed.length != liveIds.length then some "set of live streams differs" else
  if heapLabels.eraseDups.length != heapLabels.length then some "two streams share a heap block" else
  parsed.findSome? fun f =>
    match f with
    | [oid, sz, bytes, wh] =>
      let o := (oid.drop 1).toString.toNat?.getD 99
      match st o with
      | none => some s!"o{o} should not be alive"
      | some bs =>
        if bytes == "!dangling" then some s!"o{o}: raw_buffer() is not a live heap block (released or foreign storage)"
        else if bytes == "!oversize" then some s!"o{o}: size() = {sz} exceeds the storage raw_buffer() points to"
        else if wh.startsWith "A" || wh.startsWith "Z" then some s!"o{o}: raw_buffer() points into another stream"
        else if sz.toNat? != some bs.length then some s!"o{o}: size() is {sz}, the bytes appended so far are {bs.length}"
        else if bytes != repr bs then some s!"o{o}: raw_buffer()[0,size()) differs from the bytes appended so far"
        else none
    | _ => some "unreadable snapshot"

def expectedToString (bs : List Nat) (utf8 : Bool) (m : Mode) : Outcome (List Nat) :=
  if utf8 then Unicode.referenceString m bs else Unicode.reference .latin1 .utf8 m true bs

/-- The spec state is a function; the driver keeps it as an array over the ids in use (a chain of
    `ByteLog.step` closures would re-evaluate its whole past on every look-up). -/
abbrev StArr := Array (Option (List Nat))
def StArr.fn (a : StArr) : ByteLog.State := fun x => a.getD x none
@[noinline] def StArr.step (a : StArr) (sop : ByteLog.Op) : StArr := (Array.range NOBJ).map (ByteLog.step a.fn sop)

def opTarget : Op → Nat
  | .ctor o | .dtor o | .moveCtor o _ | .moveAssign o _ | .append o _ | .appendChar o _ _ | .appendText o _ _ _
  | .appendNum o _ _ | .truncate o _ | .erase o _ | .toString o _ _ => o

def genTag (c : Case) : String := let g := c.get "g"; if g == "" then "?" else g

def handle (c : Case) : Verdict :=
  let opStrs := ((c.get "ops").splitOn ";").filter (· ≠ "")
  let ops := opStrs.filterMap parseOp
  if ops.length != opStrs.length then { corr := false, why := "unparsable op" } else
  let isFault := c.op == "ssfault"
  let obsAll := obsString c
  Id.run do
    let mut p := Pool.init
    let mut sa : StArr := (Array.range NOBJ).map fun _ => none
    let mut out := ""
    let mut i := 0
    let mut specWhy := ""
    let mut dead := false
    let mut hang := false
    let mut label := ""
    let mut inadmissible := false
    let completed := (obsKey c "end").isSome
    if !completed then specWhy := s!"the history did not run to its end: {obsAll.take 80}"
    for op in ops do
      i := i + 1
      if dead then break
      -- the spec's expectation for this step
      let sop := op.toSpec
      let st := sa.fn
      if !(ByteLog.ok st sop) then inadmissible := true; break
      let expectThrow := match op with
        | .appendText _ e m (some xs) => (textRendering e m xs).isNone
        | _ => false
      let expectR : Option String := match op with
        | .toString o u m => (st o).map fun bs => resultString (expectedToString bs u m)
        | _ => none
      sa := sa.step sop
      let st := sa.fn
      -- the model
      let rTok : String := match op with
        | .toString o u m => match Stream.toString o u m p with
          | .ok r _ => s!"r{i}={resultString r} "
          | _ => s!"r{i}=FAULT "
        | _ => ""
      match op.run rev p with
      | .ok _ p' =>
        p := p'
        out := out ++ rTok ++ s!"s{i}={snapshot p} "
      | .throw e p' =>
        p := p'
        out := out ++ s!"x{i}={excName e} s{i}={snapshot p} "
      | .fault f p' =>
        p := p'; dead := true
        if f == .stuck then hang := true else out := out ++ s!"s{i}=FAULT:{faultName f} "
      -- judge the implementation's own tokens of this step
      if specWhy == "" then
        let threw := obsKey c s!"x{i}"
        if expectThrow && threw != some "unicode_error" then specWhy := s!"step {i}: malformed text must be rejected with unicode_error"
        else if !expectThrow && threw.isSome then specWhy := s!"step {i}: unexpected exception {threw.getD ""}"
        else
          match expectR, obsKey c s!"r{i}" with
          | some e, some r => if e != r then specWhy := s!"step {i}: to_string() is not the validated/transcoded content ({e})"
          | some _, none => specWhy := s!"step {i}: to_string() result missing"
          | none, _ => pure ()
          if specWhy == "" then
            match obsKey c s!"s{i}" with
            | some snap => match judgeSnapshot st snap with
              | some why => specWhy := s!"step {i}: {why}"
              | none => pure ()
            | none => specWhy := s!"step {i}: missing snapshot"
    if isFault && !dead && !inadmissible then
      match parseOp (c.get "op") with
      | none => specWhy := "unparsable op"
      | some op =>
        if !(ByteLog.ok sa.fn op.toSpec) then inadmissible := true else
        let k := c.nat "k" 1
        let p0 := { p with allocs := 0, failAt := some k }
        let before := sa.fn
        let (res, p1) := match op.run rev p0 with
          | .ok _ p' => ("completed", p')
          | .throw .badAlloc p' => ("bad_alloc", p')
          | .throw e p' => (excName e, p')
          | .fault f p' => ("FAULT:" ++ faultName f, p')
        p := { p1 with failAt := none }
        out := out ++ s!"f={res} sf={snapshot p} "
        label := "." ++ res
        -- spec (C19): a completed operation has its full effect; one that threw left every stream as it was
        let afterA := sa.step op.toSpec
        let after := afterA.fn
        let obsRes := (obsKey c "f").getD ""
        let snap := (obsKey c "sf").getD "?"
        if specWhy == "" then
          if obsRes == "completed" then
            match judgeSnapshot after snap with
            | some why => specWhy := s!"fault step: {why}"
            | none => sa := afterA
          else if obsRes == "bad_alloc" || obsRes == "unicode_error" then
            match judgeSnapshot before snap with
            | none => pure ()
            | some why =>
              -- name the one partial effect that was found on the tree as first read
              let partialA := match op with
                | .appendNum o true _ => sa.step (.append o [45])
                | _ => sa
              let isPartial := match op with
                | .appendNum _ true _ => (judgeSnapshot partialA.fn snap).isNone
                | _ => false
              if isPartial then specWhy := "fault step: a failed growth left the '-' of a negative number in the stream"
              else specWhy := s!"fault step (threw {obsRes}): {why}"
          else specWhy := s!"fault step: outcome {obsRes}"
    -- destroy every live stream: nothing may be left on the heap
    match destroyAll (List.range NOBJ) p with
    | .ok _ pEnd => out := out ++ (if leaked pEnd then "end=leak" else "end=clean")
    | .fault f _ => out := out ++ s!"end=FAULT:{faultName f}"
    | .throw _ _ => out := out ++ "end=THROW"
    if hang then out := "hang"
    -- histories no C++ program may perform are not executed by the harness (only shrinking produces them)
    if inadmissible then
      return { corr := obsAll == "inadmissible", spec := true, model := "inadmissible", branch := "inadmissible", nontrivial := false }
    if specWhy == "" && (obsKey c "end") != some "clean" then specWhy := "storage leaked or released twice at the end of the history"
    return { corr := out == obsAll, spec := specWhy == "", why := specWhy, model := (out.take 4000).toString,
             branch := s!"{c.op}.{genTag c}{label}", nontrivial := ops.length > 3 }

end Driver.Stream
