/-
  Line protocol between the C++ harnesses and the model driver (DESIGN.md appendix B).
  One case per line:  `<op> k=v k=v … => <observation tokens>`.
-/
import StVerif.Base
import Std.Data.HashSet

namespace Driver
open StVerif

structure Case where
  op : String
  args : List (String × String)
  obs : List String
  input : String      -- the text before " => "
  deriving Inhabited

/-- verdict of one case (DESIGN.md §1 table): `corr` = model output equals the observation,
    `spec` = the property's own predicate holds of the observation. -/
structure Verdict where
  corr : Bool := true
  spec : Bool := true
  nontrivial : Bool := true
  branch : String := ""
  model : String := ""
  why : String := ""
  known : String := ""
  items : Nat := 1
  deriving Inhabited

def Case.get (c : Case) (k : String) : String :=
  match c.args.find? (·.1 == k) with
  | some (_, v) => v
  | none => ""

def Case.has (c : Case) (k : String) : Bool := (c.args.find? (·.1 == k)).isSome

def Case.nat (c : Case) (k : String) (dflt : Nat := 0) : Nat :=
  (c.get k).toNat?.getD dflt

def Case.int (c : Case) (k : String) (dflt : Int := 0) : Int :=
  (c.get k).toInt?.getD dflt

def hexDigitVal (c : Char) : Nat :=
  if '0' ≤ c ∧ c ≤ '9' then c.toNat - 48
  else if 'a' ≤ c ∧ c ≤ 'f' then c.toNat - 87
  else if 'A' ≤ c ∧ c ≤ 'F' then c.toNat - 55
  else 0

/-- fixed-width hex units (`w` bits each); "-" is the empty sequence -/
def parseUnits (w : Nat) (s : String) : List Nat :=
  if s == "-" || s.isEmpty then [] else
  let d := w / 4
  let rec go (cs : List Char) (k : Nat) (cur : Nat) (acc : List Nat) : List Nat :=
    match cs with
    | [] => acc.reverse
    | c :: rest =>
      let cur := cur * 16 + hexDigitVal c
      if k + 1 == d then go rest 0 0 (cur :: acc) else go rest (k + 1) cur acc
  go s.toList 0 0 []

def hexDigitChar (n : Nat) : Char := if n < 10 then Char.ofNat (48 + n) else Char.ofNat (87 + n)

def fmtUnit (w : Nat) (x : Nat) : String :=
  let d := w / 4
  String.ofList ((List.range d).reverse.map fun i => hexDigitChar ((x >>> (4 * i)) % 16))

def fmtUnits (w : Nat) (xs : List Nat) : String :=
  if xs.isEmpty then "-" else String.join (xs.map (fmtUnit w))

def parseLine (line : String) : Case :=
  let parts := line.splitOn " => "
  let input := parts.headD ""
  let obs := match parts with
    | _ :: o :: _ => (o.splitOn " ").filter (· ≠ "")
    | _ => []
  let toks := (input.splitOn " ").filter (· ≠ "")
  let op := toks.headD ""
  let args := toks.tail.filterMap fun t =>
    match t.splitOn "=" with
    | k :: v :: rest => some (k, String.intercalate "=" (v :: rest))
    | _ => none
  { op, args, obs, input }

/-! FNV-1a 64, identical to `vh::Fnv` in harness/common.hpp -/
structure Fnv where
  h : UInt64 := 0xcbf29ce484222325

namespace Fnv
@[inline] def byte (f : Fnv) (b : Nat) : Fnv := ⟨(f.h ^^^ (UInt64.ofNat (b % 256))) * 0x100000001b3⟩
def u64 (f : Fnv) (v : Nat) : Fnv := Id.run do
  let mut f := f
  for i in [0:8] do f := f.byte ((v >>> (8 * i)) % 256)
  return f
def i64 (f : Fnv) (v : Int) : Fnv := f.u64 (StVerif.wrap64 v)
def str (f : Fnv) (s : String) : Fnv := (s.toUTF8.foldl (fun f b => f.byte b.toNat) f).byte 0xFF
def hex (f : Fnv) : String := fmtUnit 64 f.h.toNat
end Fnv

def excName : Exc → String
  | .unicodeError => "unicode_error" | .codecError => "codec_error" | .badFormat => "bad_format"
  | .outOfRange => "out_of_range" | .invalidArgument => "invalid_argument" | .badAlloc => "bad_alloc"

def sanitize (s : String) : String := s.map fun c => if c == ' ' || c == '\t' then '_' else c

/-- rendering of an outcome in the vocabulary the harness uses for observations -/
def fmtOutcome (showA : α → String) : Outcome α → String
  | .ok a => "ok " ++ showA a
  | .throw e => "throw " ++ excName e
  | .assertFail w => "abort assert:" ++ sanitize w
  | .ub w => "abort ubsan:" ++ sanitize w
  | .oob => "abort asan:oob"
  | .stuck => "hang"

def obsString (c : Case) : String := String.intercalate " " c.obs

end Driver
