import Driver.Proto
import StVerif.Model.Find
import StVerif.Spec.Search

/-!
  Family "search" (C07).  Lines:
    find     cs=s|i form=<f> hay=<hex> nd=<hex> [cnt=N] start=<N|none>  => r=<int>
    findlast cs=s|i form=<f> hay=<hex> nd=<hex> [cnt=N] max=<N|none>    => r=<int>
    contains cs=s|i form=<f> hay=<hex> nd=<hex> [cnt=N]                 => b=<0|1>
    starts | ends cs=s|i form=<cstr|cstr8|str|nullc> hay=<hex> nd=<hex> => b=<0|1>
    blk.search hay=<hex> alpha=<hex> nmax=<k>                           => digest <hex>
  forms: ch (nd is one byte), cstr, cstr8, sized, sized8, str, nullc (const char* nullptr),
         nulls ((nullptr, cnt)).
-/
namespace Driver.Search
open StVerif StVerif.Search Driver
open StVerif.Spec.Search

def caseOf (s : String) : CaseMode := if s == "i" then .insensitive else .sensitive

def needleOf (form : String) (nd : List Nat) (cnt : Nat) : Needle :=
  match form with
  | "ch" => .ch (nd.headD 0)
  | "cstr" | "cstr8" => .cstr (some nd)
  | "nullc" => .cstr none
  | "sized" | "sized8" => .sized nd
  | "nulls" => .sizedNull cnt
  | _ => .str nd

/-- what the needle argument denotes (Spec side): the text searched for -/
def denote (form : String) (nd : List Nat) : List Nat :=
  match form with
  | "ch" => [nd.headD 0]
  | "cstr" | "cstr8" => cstr nd
  | "nullc" | "nulls" => []
  | _ => nd

def affixOf (form : String) (nd : List Nat) : Affix :=
  match form with
  | "cstr" | "cstr8" => .cstr (some nd)
  | "nullc" => .cstr none
  | _ => .str nd

def optNat (s : String) (dflt : Nat) : Nat := if s == "none" then dflt else s.toNat?.getD dflt

def b01 (b : Bool) : String := if b then "b=1" else "b=0"

/-- model and spec answers for one elementary call -/
def evalFind (cs : CaseMode) (form : String) (hay nd : List Nat) (cnt : Nat) (start : String) : Int × Int :=
  let n := needleOf form nd cnt
  let m := if start == "none" then findAll cs hay n else find cs hay (optNat start 0) n
  (m, findRef cs hay (optNat start 0) (denote form nd))

def evalFindLast (cs : CaseMode) (form : String) (hay nd : List Nat) (cnt : Nat) (max : String) : Int × Int :=
  let n := needleOf form nd cnt
  let m := if max == "none" then findLastAll cs hay n else findLast cs hay (optNat max SIZE_MAX) n
  (m, findLastRef cs hay (optNat max SIZE_MAX) (denote form nd))

def evalContains (cs : CaseMode) (form : String) (hay nd : List Nat) (cnt : Nat) : Bool × Bool :=
  (contains cs hay (needleOf form nd cnt), decide (findRef cs hay 0 (denote form nd) ≥ 0))

def evalStarts (cs : CaseMode) (form : String) (hay nd : List Nat) : Bool × Bool :=
  (startsWith cs hay (affixOf form nd), decide (StartsWith cs hay (denote form nd)))

def evalEnds (cs : CaseMode) (form : String) (hay nd : List Nat) : Bool × Bool :=
  (endsWith cs hay (affixOf form nd), decide (EndsWith cs hay (denote form nd)))

/-- all texts over `alpha` of length `len`, in the order the harness enumerates them
    (index digits most significant first) -/
def textsOfLen (alpha : List Nat) : Nat → List (List Nat)
  | 0 => [[]]
  | len + 1 => alpha.flatMap fun a => (textsOfLen alpha len).map (a :: ·)

def allForms : List String := ["cstr", "cstr8", "sized", "sized8", "str"]
def affixForms : List String := ["cstr", "cstr8", "str"]

def positions (hayLen : Nat) : List String :=
  "none" :: ((List.range (hayLen + 3)).map toString ++ [toString SIZE_MAX] ++
    -- positions within a needle length of SIZE_MAX and around 2^63 (the same list as harness/search.cpp `positions`)
    ["18446744073709551614", "18446744073709551613", "18446744073709551612", "9223372036854775808", "9223372036854775807", "4294967296"])

structure Acc where
  f : Fnv := {}
  ok : Bool := true
  n : Nat := 0

def Acc.int (a : Acc) (p : Int × Int) : Acc := { f := a.f.i64 p.1, ok := a.ok && p.1 == p.2, n := a.n + 1 }
def Acc.bool (a : Acc) (p : Bool × Bool) : Acc :=
  { f := a.f.byte (if p.1 then 1 else 0), ok := a.ok && p.1 == p.2, n := a.n + 1 }

def blockOne (cs : CaseMode) (hay nd : List Nat) (form : String) (cnt : Nat) (a : Acc) : Acc := Id.run do
  let mut a := a
  let pos := positions hay.length
  for p in pos do a := a.int (evalFind cs form hay nd cnt p)
  for p in pos do a := a.int (evalFindLast cs form hay nd cnt p)
  a := a.bool (evalContains cs form hay nd cnt)
  if affixForms.contains form || form == "nullc" then
    a := a.bool (evalStarts cs form hay nd)
    a := a.bool (evalEnds cs form hay nd)
  return a

def block (hay alpha : List Nat) (nmax : Nat) : Acc := Id.run do
  let mut a : Acc := {}
  for cs in [CaseMode.sensitive, CaseMode.insensitive] do
    a := blockOne cs hay [] "nullc" 0 a
    a := blockOne cs hay [] "nulls" 3 a
    for len in [0:nmax+1] do
      for nd in textsOfLen alpha len do
        if len == 1 then a := blockOne cs hay nd "ch" 0 a
        for form in allForms do a := blockOne cs hay nd form 0 a
  return a

def branchOfInt (op : String) (cs form : String) (r : Int) : String :=
  s!"{op}.{cs}.{form}.{if r < 0 then "miss" else "hit"}"

def handle (c : Case) : Verdict :=
  let obs := obsString c
  let cs := caseOf (c.get "cs")
  let form := c.get "form"
  let hay := parseUnits 8 (c.get "hay")
  let nd := parseUnits 8 (c.get "nd")
  let cnt := c.nat "cnt"
  let nontrivial := !hay.isEmpty && !nd.isEmpty
  match c.op with
  | "find" =>
      let (m, sp) := evalFind cs form hay nd cnt (c.get "start")
      let ms := s!"r={m}"
      { corr := ms == obs, spec := obs == s!"r={sp}", why := "find is not the least occurrence at or after start",
        model := ms, branch := branchOfInt "find" (c.get "cs") form m, nontrivial }
  | "findlast" =>
      let (m, sp) := evalFindLast cs form hay nd cnt (c.get "max")
      let ms := s!"r={m}"
      { corr := ms == obs, spec := obs == s!"r={sp}", why := "find_last is not the greatest occurrence lying before the limit",
        model := ms, branch := branchOfInt "findlast" (c.get "cs") form m, nontrivial }
  | "contains" =>
      let (m, sp) := evalContains cs form hay nd cnt
      { corr := b01 m == obs, spec := obs == b01 sp, why := "contains differs from 'an occurrence exists'",
        model := b01 m, branch := s!"contains.{c.get "cs"}.{form}.{m}", nontrivial }
  | "starts" =>
      let (m, sp) := evalStarts cs form hay nd
      { corr := b01 m == obs, spec := obs == b01 sp, why := "starts_with differs from 'text begins with the prefix'",
        model := b01 m, branch := s!"starts.{c.get "cs"}.{form}.{m}", nontrivial }
  | "ends" =>
      let (m, sp) := evalEnds cs form hay nd
      { corr := b01 m == obs, spec := obs == b01 sp, why := "ends_with differs from 'text ends with the suffix'",
        model := b01 m, branch := s!"ends.{c.get "cs"}.{form}.{m}", nontrivial }
  | "blk.search" =>
      let a := block hay (parseUnits 8 (c.get "alpha")) (c.nat "nmax")
      let m := "digest " ++ a.f.hex
      -- every model item is checked against the Spec; a digest equal to the model's certifies the
      -- implementation's items too
      { corr := m == obs, spec := a.ok || m != obs, why := "block: a model item violates the search spec",
        model := m, branch := s!"blk.search.len={hay.length}", items := a.n, nontrivial := !hay.isEmpty }
  | _ => { corr := false, spec := true, why := "unknown op", model := "?" }

end Driver.Search
