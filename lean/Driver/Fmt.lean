import Driver.Proto
import StVerif.Model.FmtRender
import StVerif.Spec.Render

/-! Driver for the family "fmt" (C10, C11): `fmt route= m= fmt= args= [fr=] => observation` -/

namespace Driver.Fmt
open StVerif StVerif.Fmt Driver

def hexToNat (s : String) : Nat := s.toList.foldl (fun acc c => acc * 16 + hexDigitVal c) 0

def classOfChar (c : String) : FloatClass :=
  if c == "f" then .fixed else if c == "e" then .exp else if c == "E" then .expUpper else .dflt

/-- the table `fr=<arg>.<prec|n>.<plus>.<cls>:<hex>,…` -/
structure FloatEntry where
  arg : Nat
  prec : Option Nat
  plus : Bool
  cls : FloatClass
  text : List Nat

def parseFloatTable (s : String) : List FloatEntry :=
  if s.isEmpty then [] else
  (s.splitOn ",").filterMap fun e =>
    match e.splitOn ":" with
    | [k, v] =>
      match k.splitOn "." with
      | [a, p, pl, c] => some { arg := a.toNat?.getD 0, prec := if p == "n" then none else p.toNat?, plus := pl == "1", cls := classOfChar c, text := parseUnits 8 v }
      | _ => none
    | _ => none

/-- a precision the harness did not tabulate yields a marker no real rendering contains -/
def renderOf (tbl : List FloatEntry) (i : Nat) : Bool → Option Nat → FloatClass → List Nat := fun plus prec cls =>
  match tbl.find? (fun e => e.arg == i && e.prec == prec && e.plus == plus && e.cls == cls) with
  | some e => e.text
  | none => [0, 63, 63, 63]

def parseArg (tbl : List FloatEntry) (i : Nat) (tok : String) (dm : Mode := .checkValidity) : Arg :=
  let (k, v) := match tok.splitOn ":" with
    | [a, b] => (a, b)
    | _ => (tok, "")
  let n := v.toNat?.getD 0
  let z := v.toInt?.getD 0
  match k with
  | "i8" => .sint 8 z | "i16" => .sint 16 z | "i32" => .sint 32 z | "il" => .sint 64 z | "ill" => .sint 64 z
  | "u8" => .uint 8 n | "u16" => .uint 16 n | "u32" => .uint 32 n | "ul" => .uint 64 n | "ull" => .uint 64 n
  | "c" => .char z | "wc" => .wchar z | "c8" => .char8 n | "c16" => .char16 n | "c32" => .char32 n
  | "b" => .bool (n != 0)
  | "cs" | "p8" => .str ((parseUnits 8 v).takeWhile (· != 0))     -- NUL-terminated pointers see the text before the first NUL
  | "S" | "ss" | "sv" | "s8" | "v8" => .str (parseUnits 8 v)
  | "cn" | "n16" | "n32" | "nw" | "n8" => .nullStr
  -- wide text: pointers (units before the first zero unit), std::basic_string, std::basic_string_view; wchar_t is 32-bit here
  | "p16" => .wide .utf16 dm ((parseUnits 16 v).takeWhile (· != 0))
  | "s16" | "v16" => .wide .utf16 dm (parseUnits 16 v)
  | "p32" | "pw" => .wide .utf32 dm ((parseUnits 32 v).takeWhile (· != 0))
  | "s32" | "v32" | "sw" | "vw" => .wide .utf32 dm (parseUnits 32 v)
  | "d" | "fl" => .float (renderOf tbl i)
  | _ => .nullStr

def parseArgs (tbl : List FloatEntry) (s : String) (dm : Mode := .checkValidity) : List Arg :=
  if s == "-" || s.isEmpty then [] else
  let toks := s.splitOn ";"
  (List.range toks.length).map fun i => parseArg tbl i (toks.getD i "") dm

def fmtEvent : Event → String
  | .append bs => "a" ++ fmtUnits 8 bs
  | .appendChar c n => "c" ++ fmtUnit 8 c ++ "x" ++ toString n

def fmtEvents (ev : List Event) : String :=
  if ev.isEmpty then "-" else String.intercalate "," (ev.map fmtEvent)

def modeOfTok (s : String) : Mode :=
  if s == "a" then .assumeValid else if s == "s" then .substituteInvalid else .checkValidity

/-- drop the file name from `abort assert:<file>:<message>` (the model names the message only) -/
def normObs (obs : String) : String :=
  if obs.startsWith "abort assert:" then
    match (obs.drop 13).toString.splitOn ":" with
    | _file :: rest@(_ :: _) => "abort assert:" ++ String.intercalate ":" rest
    | _ => obs
  else obs

def kindOf (obs : String) : String :=
  if obs.startsWith "ok" then "ok"
  else if obs.startsWith "throw " then (obs.drop 6).toString
  else if obs.startsWith "abort assert:" then "assert"
  else if obs.startsWith "abort " then "abort"
  else obs

def charPadObs : String := "abort assert:" ++ sanitize charPaddingMsg

/-- bytes of an observed event list `a<hex>,c<cc>x<n>,…` -/
def obsEventBytes (s : String) : List Nat :=
  if s == "-" then [] else
  (s.splitOn ",").flatMap fun t =>
    if t.startsWith "a" then parseUnits 8 (t.drop 1).toString
    else if t.startsWith "c" then
      match (t.drop 1).toString.splitOn "x" with
      | [cc, n] =>
        -- a pad request no admissible width produces (the writer was asked for gigabytes) is never materialised:
        -- one out-of-range unit stands for it, so the comparison with the specified bytes fails
        let k := n.toNat?.getD 0
        if k > 16777216 then [0xFFFFFFFF] else List.replicate k (hexToNat cc)
      | _ => []
    else []

/-- what the Spec requires the entry point to return for the rendered bytes -/
def specFinal (entry : Entry) (o : Outcome (List Nat)) : Outcome (List Nat) :=
  match o with
  | .ok bytes =>
    match entry with
    | .utf8 m => Spec.Unicode.referenceString m bytes
    | .latin1 => Spec.Unicode.reference .latin1 .utf8 .assumeValid true bytes
  | .throw e => .throw e
  | .assertFail w => .assertFail w
  | .ub w => .ub w
  | .oob => .oob
  | .stuck => .stuck

def handle (c : Case) : Verdict :=
  let obs := normObs (obsString c)
  let route := c.get "route"
  let fs := c.get "fmt"
  let fmt : Option (List Nat) := if fs == "N" then none else some (parseUnits 8 fs)
  let tbl := parseFloatTable (c.get "fr")
  let args := parseArgs tbl (c.get "args")
  let entry : Entry :=
    if route == "l1" then .latin1 else if route == "fv" then .utf8 (modeOfTok (c.get "m")) else .utf8 .checkValidity
  let ms :=
    if route == "ev" then fmtOutcome fmtEvents (run fmt args)
    else fmtOutcome (fmtUnits 8) (runFormat entry fmt args)
  -- the Spec's answer, independent of the model: rendering of the field grammar over the byte list
  let specO : Outcome (List Nat) := match fmt with
    | none => .throw .invalidArgument
    | some f => Spec.Render.render f args
  let specS := if route == "ev" then fmtOutcome (fmtUnits 8) specO else fmtOutcome (fmtUnits 8) (specFinal entry specO)
  -- the observation in the same vocabulary (an event list is judged by the bytes it amounts to)
  let obsS := if route == "ev" && obs.startsWith "ok " then "ok " ++ fmtUnits 8 (obsEventBytes (obs.drop 3).toString) else obs
  let isC11 := c.get "p" == "C11"
  -- C10 judges the kind of outcome (which exception, which assertion); C11 judges the bytes as well
  let specOk := if isC11 then obsS == specS else kindOf obsS == kindOf specS && (kindOf obsS != "assert" || obsS == specS)
  let nontrivial := match fmt with
    | some f => f.any (fun b => b == 123 || b == 125)
    | none => true
  let argKind := match args.head? with
    | some (.sint w _) => s!"i{w}" | some (.uint w _) => s!"u{w}" | some (.char _) => "char" | some (.wchar _) => "wchar"
    | some (.char8 _) => "c8" | some (.char16 _) => "c16" | some (.char32 _) => "c32" | some (.bool _) => "bool"
    | some (.str _) => "str" | some .nullStr => "null" | some (.float _) => "float" | none => "none"
    | some (.wide .utf16 _ _) => "wide16" | some (.wide _ _ _) => "wide32"
  { corr := ms == obs,
    spec := specOk,
    model := ms,
    why := if specOk then "" else s!"outcome differs from the specified rendering ({specS})",
    branch := if isC11 then s!"C11.{route}.{kindOf obs}.{argKind}.args={args.length}"
              else s!"{route}.{kindOf obs}.args={args.length}",
    nontrivial }

end Driver.Fmt
