import Driver.Proto
import StVerif.Model.FmtRender

/-! Driver for the family "fmt" (C10, C11): `fmt route= m= fmt= args= [fr=] => observation` -/

namespace Driver.Fmt
open StVerif StVerif.Fmt Driver

def hexToNat (s : String) : Nat := s.toList.foldl (fun acc c => acc * 16 + hexDigitVal c) 0

def classOfChar (c : String) : FloatClass :=
  if c == "f" then .fixed else if c == "e" then .exp else if c == "E" then .expUpper else .dflt

/-- the table `fr=<arg>.<prec|n>.<plus>.<cls>:<hex>,…` -/
structure FloatEntry where
  arg : Nat
  prec : Option Nat
  plus : Bool
  cls : FloatClass
  text : List Nat

def parseFloatTable (s : String) : List FloatEntry :=
  if s.isEmpty then [] else
  (s.splitOn ",").filterMap fun e =>
    match e.splitOn ":" with
    | [k, v] =>
      match k.splitOn "." with
      | [a, p, pl, c] => some { arg := a.toNat?.getD 0, prec := if p == "n" then none else p.toNat?, plus := pl == "1", cls := classOfChar c, text := parseUnits 8 v }
      | _ => none
    | _ => none

/-- a precision the harness did not tabulate yields a marker no real rendering contains -/
def renderOf (tbl : List FloatEntry) (i : Nat) : Bool → Option Nat → FloatClass → List Nat := fun plus prec cls =>
  match tbl.find? (fun e => e.arg == i && e.prec == prec && e.plus == plus && e.cls == cls) with
  | some e => e.text
  | none => [0, 63, 63, 63]

def parseArg (tbl : List FloatEntry) (i : Nat) (tok : String) : Arg :=
  let (k, v) := match tok.splitOn ":" with
    | [a, b] => (a, b)
    | _ => (tok, "")
  let n := v.toNat?.getD 0
  let z := v.toInt?.getD 0
  match k with
  | "i8" => .sint 8 z | "i16" => .sint 16 z | "i32" => .sint 32 z | "il" => .sint 64 z | "ill" => .sint 64 z
  | "u8" => .uint 8 n | "u16" => .uint 16 n | "u32" => .uint 32 n | "ul" => .uint 64 n | "ull" => .uint 64 n
  | "c" => .char z | "wc" => .wchar z | "c8" => .char8 n | "c16" => .char16 n | "c32" => .char32 n
  | "b" => .bool (n != 0)
  | "cs" | "S" | "ss" | "sv" => .str (parseUnits 8 v)
  | "cn" => .nullStr
  | "d" | "fl" => .float (renderOf tbl i)
  | _ => .nullStr

def parseArgs (tbl : List FloatEntry) (s : String) : List Arg :=
  if s == "-" || s.isEmpty then [] else
  let toks := s.splitOn ";"
  (List.range toks.length).map fun i => parseArg tbl i (toks.getD i "")

def fmtEvent : Event → String
  | .append bs => "a" ++ fmtUnits 8 bs
  | .appendChar c n => "c" ++ fmtUnit 8 c ++ "x" ++ toString n

def fmtEvents (ev : List Event) : String :=
  if ev.isEmpty then "-" else String.intercalate "," (ev.map fmtEvent)

def modeOfTok (s : String) : Mode :=
  if s == "a" then .assumeValid else if s == "s" then .substituteInvalid else .checkValidity

/-- drop the file name from `abort assert:<file>:<message>` (the model names the message only) -/
def normObs (obs : String) : String :=
  if obs.startsWith "abort assert:" then
    match (obs.drop 13).toString.splitOn ":" with
    | _file :: rest@(_ :: _) => "abort assert:" ++ String.intercalate ":" rest
    | _ => obs
  else obs

def kindOf (obs : String) : String :=
  if obs.startsWith "ok" then "ok"
  else if obs.startsWith "throw " then (obs.drop 6).toString
  else if obs.startsWith "abort assert:" then "assert"
  else if obs.startsWith "abort " then "abort"
  else obs

def charPadObs : String := "abort assert:" ++ sanitize charPaddingMsg
def floatBufObs : String := "abort assert:" ++ sanitize floatBufferMsg

def handle (c : Case) : Verdict :=
  let obs := normObs (obsString c)
  let route := c.get "route"
  let fs := c.get "fmt"
  let fmt : Option (List Nat) := if fs == "N" then none else some (parseUnits 8 fs)
  let tbl := parseFloatTable (c.get "fr")
  let args := parseArgs tbl (c.get "args")
  let entry : Entry :=
    if route == "l1" then .latin1 else if route == "fv" then .utf8 (modeOfTok (c.get "m")) else .utf8 .checkValidity
  let ms :=
    if route == "ev" then fmtOutcome fmtEvents (run fmt args)
    else fmtOutcome (fmtUnits 8) (runFormat entry fmt args)
  -- C10's judge on the observation: one of the permitted outcomes
  let permitted :=
    if fmt.isNone then obs == "throw invalid_argument"
    else obs.startsWith "ok " || obs == "throw bad_format" || obs == "throw out_of_range" || obs == "throw unicode_error" || obs == charPadObs
  -- the 64-byte float buffer (defect 13) belongs to C13: the model predicts it, either behaviour is accepted here
  let floatScope := ms == floatBufObs
  -- std::abs of the most negative value (defect 12) belongs to C12
  let absScope := obs.startsWith "abort ubsan:negation"
  let scope := floatScope || absScope
  let nontrivial := match fmt with
    | some f => f.any (fun b => b == 123 || b == 125)
    | none => true
  { corr := scope || ms == obs,
    spec := scope || permitted,
    model := ms,
    why := if scope || permitted then "" else "outcome outside the permitted set (output, bad_format, out_of_range, invalid_argument, unicode_error, char-padding assertion)",
    branch := if floatScope then "out-of-scope.float-buffer(C13)" else if absScope then "out-of-scope.abs-min(C12)"
              else s!"{route}.{kindOf obs}.args={args.length}",
    nontrivial }

end Driver.Fmt
