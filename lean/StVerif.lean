import StVerif.Base
import StVerif.Bits
import StVerif.Model.Codec
import StVerif.Spec.Rfc4648
import StVerif.Lemmas.Codec
import StVerif.Lemmas.CodecDecode
import StVerif.Props.C14
import StVerif.Props.C15
