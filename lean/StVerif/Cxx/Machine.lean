/-
  The little machine the generated kernels (StVerif/Generated/Kernels.lean, written by
  tools/gen_kernels.py from the clang AST of the library) run in.

  * the source range of a function is `mem : List Nat`, a pointer into it is an index;
    a read outside the list is the fault `oobRead` (never a default value);
  * `rd8 / rd16 / rd32` read one unit of an unsigned 8/16/32-bit element type;
  * `fuel` is what a translated loop reports when its fuel argument runs out.
-/
namespace StVerif.Cxx

inductive Fault where
  | oobRead (idx : Nat)
  | overflow (what : String)
  | assertFail (msg : String)
  | fuel
  deriving Repr, DecidableEq

abbrev M := Except Fault

/-- read of one unit at index `i` of the source range -/
def rd (mem : List Nat) (i : Nat) : M Nat :=
  match mem[i]? with
  | some v => .ok v
  | none => .error (.oobRead i)

/-- the byte `b` as the `char` (signed on this platform) the C++ code reads -/
def toChar (b : Nat) : Int := if b < 128 then (b : Int) else (b : Int) - 256

/-- read of entry `i` of a constant table of signed integers -/
def rdI (tbl : List Int) (i : Nat) : M Int :=
  match tbl[i]? with
  | some v => .ok v
  | none => .error (.oobRead i)

/-- the result of signed arithmetic in a `bits`-wide type: outside the type's range the C++ behaviour is undefined
    and the translation faults -/
def chkS (bits : Nat) (x : Int) : M Int :=
  if -(2 : Int) ^ (bits - 1) ≤ x ∧ x < (2 : Int) ^ (bits - 1) then .ok x else .error (.overflow "signed arithmetic")

/-- `n` units of the source starting at index `i` (a fault if the block leaves the source) -/
def rdRange (mem : List Nat) (i n : Nat) : M (List Nat) :=
  if i + n ≤ mem.length then .ok ((mem.drop i).take n) else .error (.oobRead (i + n))

/-- one call on an `ST::format_writer`: `append(data, size)` with the bytes passed, `append_char(ch, count)` -/
inductive Ev where
  | append (bs : List Nat)
  | appendChar (c n : Nat)
  deriving Repr, DecidableEq

/-- a divisor: zero is undefined behaviour in C++, a fault here -/
def chkNZ (x : Nat) : M Nat := if x = 0 then .error (.overflow "division by zero") else .ok x

/-- `*--cursor = x` into a buffer that holds `cap` units before its terminator: a fault if the text would start before the buffer -/
def pushFront (cap : Nat) (x : Nat) (l : List Nat) : M (List Nat) :=
  if l.length < cap then .ok (x :: l) else .error (.overflow "write before the start of the buffer")

abbrev rd8 := rd
abbrev rd16 := rd
abbrev rd32 := rd

@[simp] theorem rd_of_getElem? {mem : List Nat} {i v : Nat} (h : mem[i]? = some v) : rd mem i = .ok v := by
  simp [rd, h]

@[simp] theorem rd_of_none {mem : List Nat} {i : Nat} (h : mem[i]? = none) : rd mem i = .error (.oobRead i) := by
  simp [rd, h]

@[simp] theorem ok_bind {α β : Type} (a : α) (f : α → M β) : ((Except.ok a : M α) >>= f) = f a := rfl
@[simp] theorem error_bind {α β : Type} (e : Fault) (f : α → M β) : ((Except.error e : M α) >>= f) = Except.error e := rfl
@[simp] theorem throw_eq_error {α : Type} (e : Fault) : (throw e : M α) = Except.error e := rfl
@[simp] theorem pure_eq_ok {α : Type} (a : α) : (pure a : M α) = Except.ok a := rfl

instance {α : Type} [DecidableEq α] : DecidableEq (M α) := fun a b =>
  match a, b with
  | .ok x, .ok y => if h : x = y then isTrue (by rw [h]) else isFalse (fun e => h (by cases e; rfl))
  | .error x, .error y => if h : x = y then isTrue (by rw [h]) else isFalse (fun e => h (by cases e; rfl))
  | .ok _, .error _ => isFalse (fun e => by cases e)
  | .error _, .ok _ => isFalse (fun e => by cases e)

/-- the computation ran to completion (no read outside the source, no fuel exhaustion) -/
def isOk {α : Type} : M α → Bool
  | .ok _ => true
  | .error _ => false

@[simp] theorem isOk_ok {α : Type} (a : α) : isOk (Except.ok a : M α) = true := rfl
@[simp] theorem isOk_error {α : Type} (e : Fault) : isOk (Except.error e : M α) = false := rfl

theorem isOk_iff {α : Type} (x : M α) : isOk x = true ↔ ∃ a, x = .ok a := by
  cases x <;> simp [isOk]

end StVerif.Cxx
