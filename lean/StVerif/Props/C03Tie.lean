/- Tie of property C03 to the source: the theorems `translated function = model` (tools/gen_kernels.py regenerates
   StVerif/Generated/Kernels.lean from the C++ on every run).  Kept apart from Props/C03.lean so that a bridge that stops
   checking leaves the property's other theorems built and audited (DESIGN.md section 14). -/
import StVerif.Props.C03
import StVerif.Lemmas.KernelBridge
import StVerif.Lemmas.KernelLoops
import StVerif.Lemmas.KernelLoopsUtf32
import StVerif.Lemmas.KernelLoopsUtf8
import StVerif.Lemmas.KernelLoopsMisc
import StVerif.Lemmas.KernelLoopsLatin1
import StVerif.Lemmas.KernelLoopsValidate
import StVerif.Lemmas.KernelLoopsCleanup

namespace StVerif.Props.C03
open StVerif StVerif.Utf StVerif.Generated StVerif.Lemmas.Utf
open StVerif.Spec.Unicode

/-! ### tie to the source: the decoding steps as translated from the C++ on every run

`Generated.Kernels.extract_utf8 / extract_utf16` are written by tools/gen_kernels.py from the clang AST of
include/st_utf_conv_priv.h; a load is `rd mem i`, a fault outside the source.  These theorems are about those
translated functions, so they are re-checked against what the code says now. -/

/-- every decoding step started inside the source stays inside it: no load at or beyond `end`, for every source and
    every position (the machine-level half of "never reads outside the input" that the list model cannot state) -/
theorem decode_steps_read_inside (mem : List Nat) (p : Nat) (hp : p < mem.length) :
    StVerif.Cxx.isOk (Kernels.extract_utf8 mem p mem.length) = true ∧
    StVerif.Cxx.isOk (Kernels.extract_utf16 mem p mem.length) = true :=
  ⟨KernelBridge.extract_utf8_ok mem p hp, KernelBridge.extract_utf16_ok mem p hp⟩

/-- every step advances by at least one unit and never past the end, so each `while (sp < ep)` loop over it terminates
    within `size` iterations -/
theorem decode_steps_progress (mem : List Nat) (p v p' : Nat) (hp : p < mem.length) :
    (Kernels.extract_utf8 mem p mem.length = .ok (v, p') → p < p' ∧ p' ≤ mem.length) ∧
    (Kernels.extract_utf16 mem p mem.length = .ok (v, p') → p < p' ∧ p' ≤ mem.length) :=
  ⟨fun h => let ⟨a, b, _⟩ := KernelBridge.extract_utf8_sound mem p v p' hp h; ⟨a, b⟩,
   fun h => let ⟨a, b, _⟩ := KernelBridge.extract_utf16_sound mem p v p' hp h; ⟨a, b⟩⟩

/-- the whole decoding loop over the translated steps is the model's decoder (about which every theorem above is
    proved), for every source -/
theorem translated_decoders_are_model (mem : List Nat) :
    KernelBridge.stepLoop Kernels.extract_utf8 mem (mem.length + 1) 0 = .ok (decodeUtf8 mem) ∧
    KernelBridge.stepLoop Kernels.extract_utf16 mem (mem.length + 1) 0 = .ok (decodeUtf16 mem) :=
  ⟨KernelBridge.utf8_loop_eq mem, KernelBridge.utf16_loop_eq mem⟩

/-- the translated per-character sizing and writing functions are the model's: what the measuring pass counts is what
    the filling pass stores, in the code as translated now -/
theorem translated_writers_are_model (ch : Nat) :
    Kernels.utf8_measure ch = .ok (utf8Measure ch) ∧ Kernels.utf16_measure ch = .ok (utf16Measure ch) ∧
    Kernels.write_utf8 ch = .ok (match writeUtf8 ch with | some us => ((0 : Int), us) | none => ((4 : Int), [])) ∧
    Kernels.write_utf16 ch = .ok (match writeUtf16 ch with | some us => ((0 : Int), us) | none => ((4 : Int), [])) :=
  ⟨KernelBridge.utf8_measure_eq ch, KernelBridge.utf16_measure_eq ch, KernelBridge.write_utf8_eq ch, KernelBridge.write_utf16_eq ch⟩

example : KernelBridge.stepLoop Kernels.extract_utf8 [0x41, 0xE2, 0x82, 0xAC, 0xF0, 0x9F] 7 0 = .ok [0x41, 0x20AC, 0x400001, 0x400003] := by
  decide

/-! ### tie to the source, whole loops: the two passes of every conversion as translated from the C++ on every run

`Generated.Kernels.<x>_measure_from_<y>` / `<x>_convert_from_<y>` and `validate_utf8` are the loops of
include/st_utf_conv_priv.h as tools/gen_kernels.py translates them (a loop is a recursive function over a fuel
argument, a load outside the source is a fault, the output pointer is the list of units stored).  The source is `mem`,
read from index 0 to `mem.length`; any fuel above the length gives the same result. -/

open StVerif.KernelBridge in
/-- the nine translated measuring passes are the model's `measure` (no load outside the source, no wrap-around below
    2^62 units) -/
theorem translated_measure_is_model (mem : List Nat) (fuel : Nat) (hf : mem.length < fuel) (hl : 4 * mem.length < 2 ^ 64) :
    Kernels.utf8_measure_from_utf16 mem fuel 0 false mem.length = .ok (Utf.measure .utf16 .utf8 mem) ∧
    Kernels.utf8_measure_from_utf32 mem fuel 0 false mem.length = .ok (Utf.measure .utf32 .utf8 mem) ∧
    Kernels.utf16_measure_from_utf8 mem fuel 0 false mem.length = .ok (Utf.measure .utf8 .utf16 mem) ∧
    Kernels.utf16_measure_from_utf32 mem fuel 0 false mem.length = .ok (Utf.measure .utf32 .utf16 mem) ∧
    Kernels.utf32_measure_from_utf8 mem fuel 0 false mem.length = .ok (Utf.measure .utf8 .utf32 mem) ∧
    Kernels.utf32_measure_from_utf16 mem fuel 0 false mem.length = .ok (Utf.measure .utf16 .utf32 mem) ∧
    Kernels.utf8_measure_from_latin_1 mem fuel 0 false mem.length = .ok (Utf.measure .latin1 .utf8 mem) ∧
    Kernels.latin_1_measure_from_utf8 mem fuel 0 false mem.length = .ok (Utf.measure .utf8 .latin1 mem) ∧
    Kernels.latin_1_measure_from_utf16 mem fuel 0 false mem.length = .ok (Utf.measure .utf16 .latin1 mem) :=
  ⟨utf8_measure_from_utf16_eq mem fuel hf hl, utf8_measure_from_utf32_eq mem fuel hf hl,
   utf16_measure_from_utf8_eq mem fuel hf (by omega), utf16_measure_from_utf32_eq mem fuel hf (by omega),
   utf32_measure_from_utf8_eq mem fuel hf (by omega), utf32_measure_from_utf16_eq mem fuel hf (by omega),
   utf8_measure_from_latin_1_eq mem fuel hf (by omega), latin_1_measure_from_utf8_eq mem fuel hf (by omega),
   latin_1_measure_from_utf16_eq mem fuel hf (by omega)⟩

open StVerif.KernelBridge in
/-- the translated filling passes whose source is UTF-8, UTF-32 or Latin-1 are the model's `fill` over the model's
    decoder, in every mode: same units stored, same error code returned, same assertion raised -/
theorem translated_fill_is_model (mem : List Nat) (m : Mode) (subst : Bool) (fuel : Nat) (hf : mem.length < fuel) :
    Kernels.utf16_convert_from_utf8 mem fuel 0 mem.length (modeCode m) = fillResult (fill (stepCh .utf8 .utf16 m subst) (decode .utf8 mem)) ∧
    Kernels.utf32_convert_from_utf8 mem fuel 0 mem.length (modeCode m) = fillResult (fill (stepCh .utf8 .utf32 m subst) (decode .utf8 mem)) ∧
    Kernels.utf8_convert_from_utf32 mem fuel 0 mem.length (modeCode m) = fillResult (fill (stepCh .utf32 .utf8 m subst) (decode .utf32 mem)) ∧
    Kernels.utf16_convert_from_utf32 mem fuel 0 mem.length (modeCode m) = fillResult (fill (stepCh .utf32 .utf16 m subst) (decode .utf32 mem)) ∧
    Kernels.latin_1_convert_from_utf8 mem fuel 0 mem.length (modeCode m) (if subst then 1 else 0)
      = fillResult (fill (stepCh .utf8 .latin1 m subst) (decode .utf8 mem)) ∧
    Kernels.latin_1_convert_from_utf32 mem fuel 0 mem.length (modeCode m) (if subst then 1 else 0)
      = fillResult (fill (stepCh .utf32 .latin1 m subst) (decode .utf32 mem)) ∧
    Kernels.utf8_convert_from_latin_1 mem fuel 0 mem.length = .ok (fill (stepCh .latin1 .utf8 m subst) (decode .latin1 mem)).out ∧
    Kernels.utf16_convert_from_latin_1 mem fuel 0 mem.length = .ok (fill (stepCh .latin1 .utf16 m subst) (decode .latin1 mem)).out ∧
    Kernels.utf32_convert_from_latin_1 mem fuel 0 mem.length = .ok (fill (stepCh .latin1 .utf32 m subst) (decode .latin1 mem)).out :=
  ⟨utf16_convert_from_utf8_eq mem m subst fuel hf, utf32_convert_from_utf8_eq mem m subst fuel hf,
   utf8_convert_from_utf32_eq mem m subst fuel hf, utf16_convert_from_utf32_eq mem m subst fuel hf,
   latin_1_convert_from_utf8_eq mem m subst fuel hf, latin_1_convert_from_utf32_eq mem m subst fuel hf,
   utf8_convert_from_latin_1_eq mem m subst fuel hf, utf16_convert_from_latin_1_eq mem m subst fuel hf,
   utf32_convert_from_latin_1_eq mem m subst fuel hf⟩

open StVerif.KernelBridge in
/-- the same for the three filling passes whose source is UTF-16 (units below 2^16, as `char16_t` guarantees) -/
theorem translated_fill_is_model_utf16 (mem : List Nat) (hu : ∀ u ∈ mem, u < 65536) (m : Mode) (subst : Bool) (fuel : Nat)
    (hf : mem.length < fuel) :
    Kernels.utf8_convert_from_utf16 mem fuel 0 mem.length (modeCode m) = fillResult (fill (stepCh .utf16 .utf8 m subst) (decode .utf16 mem)) ∧
    Kernels.utf32_convert_from_utf16 mem fuel 0 mem.length (modeCode m) = fillResult (fill (stepCh .utf16 .utf32 m subst) (decode .utf16 mem)) ∧
    Kernels.latin_1_convert_from_utf16 mem fuel 0 mem.length (modeCode m) (if subst then 1 else 0)
      = fillResult (fill (stepCh .utf16 .latin1 m subst) (decode .utf16 mem)) :=
  ⟨utf8_convert_from_utf16_eq mem m subst hu fuel hf, utf32_convert_from_utf16_eq mem m subst hu fuel hf,
   latin_1_convert_from_utf16_eq mem m subst hu fuel hf⟩

open StVerif.KernelBridge in
/-- `validate_utf8` as translated never reads outside the source and returns the model's verdict -/
theorem translated_validator_is_model (mem : List Nat) (fuel : Nat) (hf : mem.length < fuel) :
    Kernels.validate_utf8 mem fuel 0 mem.length = .ok ((validateUtf8 mem : Nat) : Int) :=
  validate_utf8_eq mem fuel hf

open StVerif.KernelBridge in
/-- End to end, about the translated code alone (the model is only the vehicle of the proof): whatever the translated
    UTF-16 -> UTF-8 filling pass stores - in any mode, also when it stops with an error - is at most what the translated
    measuring pass counted, so the fill never writes past the buffer sized by the measure. -/
theorem translated_two_pass_safe_utf16_utf8 (mem : List Nat) (hu : ∀ u ∈ mem, u < 65536) (m : Mode) (fuel : Nat)
    (hf : mem.length < fuel) (hl : 4 * mem.length < 2 ^ 64) (code : Int) (out : List Nat)
    (h : Kernels.utf8_convert_from_utf16 mem fuel 0 mem.length (modeCode m) = .ok (code, out)) :
    ∃ n, Kernels.utf8_measure_from_utf16 mem fuel 0 false mem.length = .ok n ∧ out.length ≤ n := by
  refine ⟨_, utf8_measure_from_utf16_eq mem fuel hf hl, ?_⟩
  rw [utf8_convert_from_utf16_eq mem m true hu fuel hf] at h
  have hle := fill_le_measure .utf16 .utf8 (by decide) m true mem hu
  unfold fillResult at h
  split at h <;> first | (cases h; exact hle) | (cases h)

open StVerif.KernelBridge in
/-- the same for UTF-8 -> UTF-16 (bytes below 256) -/
theorem translated_two_pass_safe_utf8_utf16 (mem : List Nat) (hu : ∀ u ∈ mem, u < 256) (m : Mode) (fuel : Nat)
    (hf : mem.length < fuel) (hl : 4 * mem.length < 2 ^ 64) (code : Int) (out : List Nat)
    (h : Kernels.utf16_convert_from_utf8 mem fuel 0 mem.length (modeCode m) = .ok (code, out)) :
    ∃ n, Kernels.utf16_measure_from_utf8 mem fuel 0 false mem.length = .ok n ∧ out.length ≤ n := by
  refine ⟨_, utf16_measure_from_utf8_eq mem fuel hf (by omega), ?_⟩
  rw [utf16_convert_from_utf8_eq mem m true fuel hf] at h
  have hle := fill_le_measure .utf8 .utf16 (by decide) m true mem hu
  unfold fillResult at h
  split at h <;> first | (cases h; exact hle) | (cases h)

open StVerif.KernelBridge in
/-- and for UTF-32 -> UTF-8 (the direction where a unit above 10FFFF is counted as a 3-byte substitute by the measure) -/
theorem translated_two_pass_safe_utf32_utf8 (mem : List Nat) (hu : ∀ u ∈ mem, u < 2 ^ 32) (m : Mode) (fuel : Nat)
    (hf : mem.length < fuel) (hl : 4 * mem.length < 2 ^ 64) (code : Int) (out : List Nat)
    (h : Kernels.utf8_convert_from_utf32 mem fuel 0 mem.length (modeCode m) = .ok (code, out)) :
    ∃ n, Kernels.utf8_measure_from_utf32 mem fuel 0 false mem.length = .ok n ∧ out.length ≤ n := by
  refine ⟨_, utf8_measure_from_utf32_eq mem fuel hf hl, ?_⟩
  rw [utf8_convert_from_utf32_eq mem m true fuel hf] at h
  have hle := fill_le_measure .utf32 .utf8 (by decide) m true mem hu
  unfold fillResult at h
  split at h <;> first | (cases h; exact hle) | (cases h)

example : Kernels.utf8_convert_from_utf16 [0x41, 0xD83D, 0xDE00, 0xDC00] 5 0 4 2 = .ok ((2 : Int), [0x41, 0xF0, 0x9F, 0x98, 0x80]) := by
  decide

open StVerif.KernelBridge in
/-- `cleanup_utf8` (the repairer behind `substitute_invalid` for `ST::string`) as translated from the C++ on every run:
    both passes complete without a load outside the source, the sizing pass (null output) returns exactly the number of
    units the filling pass stores, and what is stored is the model's `cleanupUtf8` - for every source below 2^62 bytes -/
theorem translated_repairer_is_model (mem : List Nat) (fuel : Nat) (hf : mem.length < fuel) (hl : 3 * mem.length < 2 ^ 64) :
    Kernels.cleanup_utf8 mem fuel false 0 mem.length = .ok ((cleanupUtf8 mem).length, cleanupUtf8 mem) ∧
    Kernels.cleanup_utf8 mem fuel true 0 mem.length = .ok ((cleanupUtf8 mem).length, []) :=
  cleanup_utf8_eq mem fuel hf hl

end StVerif.Props.C03
