/-
  C05 — Buffers keep size, content, terminator and exclusive ownership over any history.
  Property theorems only; the invariant and the per-operation lemmas live in
  Lemmas/PoolInv.lean, PoolOps.lean, PoolStep.lean.

  Everything is stated for an arbitrary small-buffer limit `L > 0`, an arbitrary pool, every
  operation of `Pool.Op` and every history (induction over the history, no bound on its length,
  on the number of objects or on the sizes).
-/
import StVerif.Lemmas.PoolStep

namespace StVerif.Props.C05
open StVerif StVerif.Pool StVerif.Spec.Store

/-! ### the invariant holds initially and is kept by every operation -/

/-- the empty pool satisfies the invariant -/
theorem inv_init (L : Nat) (hL : 0 < L) : Inv (Pool.init L) where
  Lpos := hL
  obj := fun _ _ h => by cases h
  uniq := fun _ _ _ h _ => by obtain ⟨_, h, _⟩ := h; cases h
  noLeak := fun _ _ h => by cases h
  bound := fun _ _ h => by cases h

/-- **every operation keeps the invariant and completes**: under its precondition (constructor targets are dead
    ids, every other named object is alive, stores stay within `size()`) and with no allocation fault scheduled,
    the do-block of the member function ends in `.ok` — so none of the outcomes `badFree`, `doubleFree`,
    `useAfterFree`, `oob` and no exception — in a state satisfying the invariant again. -/
theorem inv_step {p : Pool} (hI : Inv p) (hF : p.failAt = none) (op : Op) (hpre : pre op p) :
    ∃ p', op.run p = .ok () p' ∧ Inv p' ∧ p'.failAt = none := by
  obtain ⟨p', h1, h2, _⟩ := run_ok hI hF op hpre
  exact ⟨p', h1, h2.inv, h2.failAt.trans hF⟩

/-- whatever the fault schedule, no operation ever ends in a `fault` (bad free, double free, use after free,
    out-of-bounds access): it completes or throws `bad_alloc` -/
theorem never_faults {p : Pool} (hI : Inv p) (op : Op) (hpre : pre op p) :
    (∃ p', op.run p = .ok () p' ∧ Inv p') ∨ (∃ p', op.run p = .throw .badAlloc p' ∧ Inv p') := by
  rcases run_spec hI op hpre with ⟨p', h1, h2, _⟩ | ⟨p', h1, _, h2, _⟩
  · exact Or.inl ⟨p', h1, h2.inv⟩
  · exact Or.inr ⟨p', h1, h2.inv⟩

/-- an operation changes nothing but its operands: every other object is the very same object (same pointer,
    same size, same in-object array) and reports the same value -/
theorem others_untouched {p p' : Pool} (hI : Inv p) (op : Op) (hpre : pre op p) (h : op.run p = .ok () p') :
    ∀ x, ¬ op.T x → p'.objs x = p.objs x ∧ view p' x = view p x := by
  rcases run_spec hI op hpre with ⟨p'', h1, h2, _⟩ | ⟨p'', h1, _⟩
  · rw [h] at h1; cases h1
    exact fun x hx => ⟨h2.objs x hx, h2.view x hx⟩
  · rw [h] at h1; cases h1

/-! ### histories -/

-- `Pool.Reach L s p` (Lemmas/PoolStep.lean): `p` is reached from the empty pool by a history of operations, each
-- executed under its precondition and completed, and `s` is the specification store the same history produces.

/-- **the invariant holds after every history** -/
theorem inv_reachable {L : Nat} (hL : 0 < L) {s : Store} {p : Pool} (h : Reach L s p) : Inv p ∧ p.failAt = none := by
  induction h with
  | init => exact ⟨inv_init L hL, rfl⟩
  | step op _ hpre hrun ih =>
    obtain ⟨p'', h1, h2, h3⟩ := inv_step ih.1 ih.2 op hpre
    rw [hrun] at h1; cases h1
    exact ⟨h2, h3⟩

/-- a history can always be continued by any operation whose precondition holds: it completes (no fault, no throw) -/
theorem progress {L : Nat} (hL : 0 < L) {s : Store} {p : Pool} (h : Reach L s p) (op : Op) (hpre : pre op p) :
    ∃ p', op.run p = .ok () p' ∧ Reach L (step s op) p' := by
  obtain ⟨hI, hF⟩ := inv_reachable hL h
  obtain ⟨p', h1, _⟩ := inv_step hI hF op hpre
  exact ⟨p', h1, Reach.step op h hpre h1⟩

/-! ### refinement of the value-per-object specification -/

/-- **one step of the machine is one step of the specification**: if each live object reports the size and exactly
    the specified elements of the last value given to it (a moved-from object: some value) before the operation,
    it does so afterwards -/
theorem refines {s : Store} {p p' : Pool} (hR : R s p) (hI : Inv p) (op : Op) (hpre : pre op p)
    (h : op.run p = .ok () p') : R (step s op) p' := by
  rcases run_spec hI op hpre with ⟨p'', h1, h2, h3⟩ | ⟨p'', h1, _⟩
  · rw [h] at h1; cases h1
    exact refines_step hR op hpre h2 h3
  · rw [h] at h1; cases h1

/-- after every history, the pool refines the specification store of that history -/
theorem refines_reachable {L : Nat} (hL : 0 < L) {s : Store} {p : Pool} (h : Reach L s p) : R s p := by
  induction h with
  | init => intro o; exact True.intro
  | step op hprev hpre hrun ih => exact refines ih (inv_reachable hL hprev).1 op hpre hrun

/-- what `R` says, spelled out through the model's own observation function: after every history each live
    object can be observed without fault, its `size()` and elements are those of the specified value (where
    specified), a NUL follows the last element, short contents are inside the object and long contents in a
    heap block; objects the specification calls dead are dead -/
theorem observed_value {L : Nat} (hL : 0 < L) {s : Store} {p : Pool} (h : Reach L s p) (o : Nat) :
    match s o with
    | none => p.objs o = none
    | some v => ∃ ob, observe o p = .ok ob p ∧ Matches v (ob.size, ob.units) ∧ ob.units.length = ob.size ∧ ob.terminator = 0 ∧
        (ob.ownStorage = true ↔ ob.size < L) ∧ (ob.block.isSome = true ↔ L ≤ ob.size) := by
  have hR := refines_reachable hL h o
  have hI := (inv_reachable hL h).1
  have hLp : p.L = L := by
    clear hR hI
    induction h with
    | init => rfl
    | step op hprev hpre hrun ih =>
      rcases run_spec (inv_reachable hL hprev).1 op hpre with ⟨p'', h1, h2, _⟩ | ⟨p'', h1, _⟩
      · rw [hrun] at h1; cases h1; rw [h2.L]; exact ih
      · rw [hrun] at h1; cases h1
  cases hs : s o with
  | none =>
    rw [hs] at hR
    cases hv : view p o with
    | none => exact view_eq_none.1 hv
    | some w => rw [hv] at hR; exact hR.elim
  | some v =>
    rw [hs] at hR
    cases hb : p.objs o with
    | none => rw [view_eq_none.2 hb] at hR; exact hR.elim
    | some b =>
      obtain ⟨ob, h1, h2, h3, h4, h5, h6, h7⟩ := observe_spec hI hb
      rw [h2] at hR
      exact ⟨ob, h1, hR, h4, h5, by rw [h6, h3, hLp], by rw [h7, h3, hLp]⟩

/-! ### exclusive ownership: nothing shared, nothing leaked -/

/-- two distinct live long objects never use the same heap block, and a short object uses no heap block -/
theorem exclusive {p : Pool} (hI : Inv p) {o₁ o₂ : Nat} {b₁ b₂ : Buf} (h₁ : p.objs o₁ = some b₁) (h₂ : p.objs o₂ = some b₂)
    (hne : o₁ ≠ o₂) : b₁.chars ≠ b₂.chars := by
  intro e
  by_cases hs₁ : b₁.size < p.L
  · have c₁ := (hI.short_chars h₁ hs₁).1
    by_cases hs₂ : b₂.size < p.L
    · have c₂ := (hI.short_chars h₂ hs₂).1
      rw [c₁, c₂] at e; cases e; exact hne rfl
    · obtain ⟨k, _, c₂, _⟩ := hI.owner_block h₂ (by omega)
      rw [c₁, c₂] at e; cases e
  · obtain ⟨k₁, _, c₁, _, _, _, own₁⟩ := hI.owner_block h₁ (by omega)
    by_cases hs₂ : b₂.size < p.L
    · have c₂ := (hI.short_chars h₂ hs₂).1
      rw [c₁, c₂] at e; cases e
    · obtain ⟨k₂, _, c₂, _, _, _, own₂⟩ := hI.owner_block h₂ (by omega)
      rw [c₁, c₂] at e; cases e
      exact hne (hI.uniq o₁ o₂ k₁ own₁ own₂)

/-- **no leak, no double free**: destroying every live object of a state satisfying the invariant, in any order
    (`os` lists each live object exactly once), never faults and leaves no object and an empty heap -/
theorem no_leak {p : Pool} (hI : Inv p) (os : List Nat) (hnd : os.Nodup) (hall : ∀ o, (p.objs o).isSome = true ↔ o ∈ os) :
    ∃ p', destroyAll os p = .ok () p' ∧ (∀ o, p'.objs o = none) ∧ (∀ k, p'.heap k = none) := by
  obtain ⟨p', h1, h2, h3, _⟩ := destroyAll_spec hI os hnd hall
  exact ⟨p', h1, h2, h3⟩

/-- after every history only finitely many objects are alive … -/
theorem reachable_finite {L : Nat} {s : Store} {p : Pool} (hL : 0 < L) (h : Reach L s p) :
    ∃ os : List Nat, os.Nodup ∧ ∀ o, (p.objs o).isSome = true ↔ o ∈ os := by
  have hsup : ∃ cs : List Nat, ∀ o, (p.objs o).isSome = true → o ∈ cs := by
    induction h with
    | init => exact ⟨[], fun o ho => by simp [Pool.init] at ho⟩
    | step op hprev hpre hrun ih =>
      obtain ⟨cs, hcs⟩ := ih
      refine ⟨op.ids ++ cs, fun o ho => ?_⟩
      by_cases hT : op.T o
      · exact List.mem_append_left _ (op.T_ids o hT)
      · rw [(others_untouched (inv_reachable hL hprev).1 op hpre hrun o hT).1] at ho
        exact List.mem_append_right _ (hcs o ho)
  obtain ⟨cs, hcs⟩ := hsup
  obtain ⟨os, hnd, hos⟩ := exact_live_list p cs
  exact ⟨os, hnd, fun o => ⟨fun ho => (hos o).2 ⟨hcs o ho, ho⟩, fun ho => ((hos o).1 ho).2⟩⟩

/-- … and destroying them all, in any order, leaves an empty heap without any fault -/
theorem no_leak_reachable {L : Nat} {s : Store} {p : Pool} (hL : 0 < L) (h : Reach L s p) (os : List Nat) (hnd : os.Nodup)
    (hall : ∀ o, (p.objs o).isSome = true ↔ o ∈ os) :
    ∃ p', destroyAll os p = .ok () p' ∧ (∀ o, p'.objs o = none) ∧ (∀ k, p'.heap k = none) :=
  no_leak (inv_reachable hL h).1 os hnd hall

/-! ### moved-from objects -/

/-- **a moved-from object is a valid, exclusively-owning object**: after the move constructor or move assignment
    (self-move-assignment `o = src` included) the source is alive, satisfies the per-object invariant inside a
    state satisfying the global invariant, and can be read; hence (by `inv_step`) it can be assigned to, cleared,
    re-allocated and destroyed like any other object. -/
theorem moved_from_valid {p p' : Pool} (hI : Inv p) (o src : Nat) (op : Op) (hop : op = .ctorMove o src ∨ op = .assignMove o src)
    (hpre : pre op p) (h : op.run p = .ok () p') :
    Inv p' ∧ ∃ b, p'.objs src = some b ∧ ObjOk p'.L p'.heap src b ∧
      (∃ ob, observe src p' = .ok ob p' ∧ ob.terminator = 0 ∧ ob.units.length = ob.size) ∧
      pre (.dtor src) p' ∧ pre (.clear src) p' ∧ pre (.assignCopy src o) p' ∧ pre (.assignMove src o) p' ∧
      pre (.allocate src 0) p' := by
  rcases run_spec hI op hpre with ⟨p'', h1, h2, h3⟩ | ⟨p'', h1, _⟩
  · rw [h] at h1; cases h1
    have hsrc : ∃ w, view p' src = some w := by
      rcases hop with rfl | rfl
      · exact ⟨_, h3.2⟩
      · obtain ⟨⟨b, hb⟩, _⟩ := hpre
        obtain ⟨w, hw⟩ := view_some_of_objs hb
        exact ⟨w, h3.2.trans hw⟩
    have ho : ∃ w, view p' o = some w := by
      rcases hop with rfl | rfl
      · obtain ⟨_, c, hc⟩ := hpre
        obtain ⟨w, hw⟩ := view_some_of_objs hc
        exact ⟨w, h3.1.trans hw⟩
      · obtain ⟨_, c, hc⟩ := hpre
        obtain ⟨w, hw⟩ := view_some_of_objs hc
        exact ⟨w, h3.1.trans hw⟩
    obtain ⟨w, hw⟩ := hsrc
    obtain ⟨_, b, hb, _⟩ := h2.inv.view_length (n := w.1) (us := w.2) hw
    obtain ⟨w', hw'⟩ := ho
    obtain ⟨_, b', hb', _⟩ := h2.inv.view_length (n := w'.1) (us := w'.2) hw'
    obtain ⟨ob, e1, _, _, e4, e5, _⟩ := observe_spec h2.inv hb
    exact ⟨h2.inv, b, hb, h2.inv.obj src b hb, ⟨ob, e1, e5, e4⟩, ⟨b, hb⟩, ⟨b, hb⟩, ⟨⟨b, hb⟩, b', hb'⟩, ⟨⟨b, hb⟩, b', hb'⟩, ⟨b, hb⟩⟩
  · rw [h] at h1; cases h1

/-! ### non-vacuity: concrete histories crossing the limit in both directions -/

/-- executable check of `pre` -/
def checkPre : Op → Pool → Bool
  | .ctorDefault o, p | .ctorUnits o _, p => (p.objs o).isNone
  | .ctorCopy o s, p | .ctorMove o s, p => (p.objs o).isNone && (p.objs s).isSome
  | .dtor o, p | .clear o, p | .allocate o _, p | .allocateFill o _ _, p => (p.objs o).isSome
  | .assignCopy o s, p | .assignMove o s, p => (p.objs o).isSome && (p.objs s).isSome
  | .writeData o a us, p => match p.objs o with | some b => decide (a + us.length ≤ b.size) | none => false

theorem checkPre_sound (op : Op) (p : Pool) (h : checkPre op p = true) : pre op p := by
  cases op <;> simp only [checkPre, Bool.and_eq_true, Option.isNone_iff_eq_none, Option.isSome_iff_exists] at h <;>
    simp only [pre]
  all_goals first | exact h | skip
  case writeData o a us =>
    cases hb : p.objs o with
    | none => rw [hb] at h; cases h
    | some b => rw [hb] at h; exact ⟨b, rfl, by simpa using h⟩

/-- run a history, checking every precondition; `none` if a precondition fails or an operation does not complete -/
def runChecked : List Op → Pool → Option Pool
  | [], p => some p
  | op :: ops, p => if checkPre op p then (match op.run p with | .ok _ p' => runChecked ops p' | _ => none) else none

theorem runChecked_reach {L : Nat} (ops : List Op) {s : Store} {p p' : Pool} (h : Reach L s p)
    (hr : runChecked ops p = some p') : Reach L (ops.foldl step s) p' := by
  induction ops generalizing s p with
  | nil => simp only [runChecked, Option.some.injEq] at hr; subst hr; exact h
  | cons op ops ih =>
    simp only [runChecked] at hr
    split at hr
    · rename_i hc
      split at hr
      · rename_i u p₁ hrun
        exact ih (Reach.step op h (checkPre_sound op p hc) hrun) hr
      · cases hr
    · cases hr

/-- what the objects `0..n` of a pool report (for the examples) -/
def report (p : Pool) (n : Nat) : List (Option (Nat × List Nat × Nat × Bool)) :=
  (List.range n).map fun o => match observe o p with
    | .ok ob _ => some (ob.size, ob.units, ob.terminator, ob.ownStorage)
    | _ => none

/-- `L = 4`: a short buffer is copied, grown across the limit by copy assignment from a long one, moved out of,
    shrunk again by `allocate`, and everything is destroyed -/
def history₁ : List Op :=
  [.ctorUnits 0 [1, 2, 3], .ctorUnits 1 [5, 6, 7, 8, 9], .ctorCopy 2 0, .assignCopy 2 1, .assignMove 0 2, .ctorMove 3 1,
   .allocateFill 0 2 7, .allocate 3 6, .writeData 3 1 [4, 4], .assignMove 3 3, .clear 2, .dtor 1]

example : (runChecked history₁ (Pool.init 4)).isSome = true := by decide +kernel

example : ((runChecked history₁ (Pool.init 4)).map fun p => report p 4) =
    some [some (2, [7, 7], 0, true), none, some (0, [], 0, true), some (6, [205, 4, 4, 205, 205, 205], 0, false)] := by decide +kernel

/-- … so the hypotheses of the theorems are satisfiable: this state is reachable, hence satisfies `Inv` and refines
    the specification store of `history₁` -/
example : ∃ p, runChecked history₁ (Pool.init 4) = some p ∧ Inv p ∧ R (history₁.foldl step Store.empty) p := by
  cases h : runChecked history₁ (Pool.init 4) with
  | none => exact absurd h (by decide +kernel)
  | some p =>
    have hr := runChecked_reach history₁ Reach.init h
    exact ⟨p, rfl, (inv_reachable (by decide) hr).1, refines_reachable (by decide) hr⟩

/-- `L = 3`, both directions in one object: long → short (copy assignment), short → long (allocate + fill),
    long → long (move assignment between long objects), then all destroyed: heap empty -/
def history₂ : List Op :=
  [.ctorUnits 0 [1, 2, 3, 4], .ctorDefault 1, .assignCopy 0 1, .allocateFill 0 5 9, .ctorUnits 2 [8, 8, 8], .assignMove 0 2,
   .assignCopy 1 0, .assignCopy 1 1]

example : ((runChecked history₂ (Pool.init 3)).map fun p => report p 3) =
    some [some (3, [8, 8, 8], 0, false), some (3, [8, 8, 8], 0, false), some (5, [9, 9, 9, 9, 9], 0, false)] := by decide +kernel

example : ((runChecked history₂ (Pool.init 3)).map fun p =>
      match destroyAll [2, 0, 1] p with
      | .ok _ p' => (List.range p'.next).all (fun k => (p'.heap k).isNone) && (List.range 3).all (fun o => (p'.objs o).isNone)
      | _ => false) = some true := by decide +kernel

/-- a precondition that fails is detected (the checker is not vacuous): using a destroyed object -/
example : runChecked [.ctorDefault 0, .dtor 0, .clear 0] (Pool.init 4) = none := by decide +kernel

end StVerif.Props.C05
