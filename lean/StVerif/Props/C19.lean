/-
  C19 (buffer level) — Allocation failure propagates cleanly and leaves every object destructible.

  The pool machine's `new` consults a fault schedule (`Pool.failAt`): "the allocation with this ordinal
  throws `bad_alloc`".  For every `ST::buffer<T>` member (`Pool.Op`), every state satisfying the C05
  invariant, and every fault position `k` ("the k-th allocation from now fails"):
  the only exception is `bad_alloc`, it is raised only when an allocation of the call was scheduled to
  fail, and afterwards the invariant still holds (no object points to released storage, every block has
  exactly one owner: nothing leaked, nothing released twice), the target holds its previous value or an
  empty value (a constructor's target was never constructed) and every other object is untouched —
  hence everything can still be read, assigned to and destroyed, and destroying everything leaves an
  empty heap without any fault.

  `ST::string`, `string_stream` and the `noexcept` members are layered on top of this by later work.
  The last section proves, on concrete witnesses, that the two members as found in the pinned tree
  (`allocateAsFound`, `assignCopyAsFound`) did *not* have this property (defect 16).
-/
import StVerif.Lemmas.PoolStep
import StVerif.Props.C05
import StVerif.Props.C16

namespace StVerif.Props.C19
open StVerif StVerif.Pool

/-- the same state with "the k-th allocation from now throws `bad_alloc`" scheduled -/
def armed (p : Pool) (k : Nat) : Pool := { p with failAt := some (p.allocs + k) }

/-- the object an operation constructs or modifies -/
def target : Op → Nat
  | .ctorDefault o | .ctorUnits o _ | .ctorCopy o _ | .ctorMove o _ | .dtor o | .clear o | .assignCopy o _ | .assignMove o _
  | .allocate o _ | .allocateFill o _ _ | .writeData o _ _ => o

theorem inv_armed {p : Pool} (hI : Inv p) (k : Nat) : Inv (armed p k) :=
  hI.congr (p' := armed p k) rfl (fun _ => rfl) (fun _ => rfl) rfl

theorem pre_armed {p : Pool} (op : Op) (h : pre op p) (k : Nat) : pre op (armed p k) := by
  cases op <;> exact h

theorem view_armed (p : Pool) (k x : Nat) : view (armed p k) x = view p x := rfl

/-- **fault safety**: if the call throws `bad_alloc` with the k-th allocation armed, then the invariant holds in the
    state left behind, the target reports its previous value, or an empty value, or (constructors) does not exist,
    and every other object is the very same object reporting the same value -/
theorem fault_safe {p p' : Pool} (hI : Inv p) (op : Op) (hpre : pre op p) (k : Nat)
    (h : op.run (armed p k) = .throw .badAlloc p') :
    Inv p' ∧
    (view p' (target op) = view p (target op) ∨ view p' (target op) = some (0, []) ∨
      (view p (target op) = none ∧ view p' (target op) = none)) ∧
    ∀ x, x ≠ target op → p'.objs x = p.objs x ∧ view p' x = view p x := by
  rcases run_spec (inv_armed hI k) op (pre_armed op hpre k) with ⟨p'', h1, _⟩ | ⟨p'', h1, _, hS, hpost⟩
  · rw [h] at h1; cases h1
  · rw [h] at h1; cases h1
    refine ⟨hS.inv, ?_, ?_⟩
    · cases op with
      | ctorUnits o us => exact Or.inr (Or.inr ⟨view_eq_none.2 hpre, hpost⟩)
      | ctorCopy o s => exact Or.inr (Or.inr ⟨view_eq_none.2 hpre.1, hpost⟩)
      | assignCopy o s => exact hpost.elim Or.inl (fun h => Or.inr (Or.inl h))
      | allocate o n => exact Or.inr (Or.inl hpost)
      | allocateFill o n v => exact Or.inr (Or.inl hpost)
      | _ => exact hpost.elim
    · intro x hx
      have hT : ¬ op.T x := by
        cases op <;> first | exact hx | exact hpost.elim
      exact ⟨hS.objs x hT, hS.view x hT⟩

/-- an exception can only be `bad_alloc` -/
theorem throw_only_bad_alloc {p p' : Pool} (hI : Inv p) (op : Op) (hpre : pre op p) (k : Nat) (e : Exc)
    (h : op.run (armed p k) = .throw e p') : e = .badAlloc := by
  rcases run_spec (inv_armed hI k) op (pre_armed op hpre k) with ⟨p'', h1, _⟩ | ⟨p'', h1, _⟩
  · rw [h] at h1; cases h1
  · rw [h] at h1; cases h1; rfl

/-- `bad_alloc` is raised only when an allocation of the call was scheduled to fail: a buffer member performs at most
    one allocation, so with any `k ≠ 1` armed (and with nothing armed) the call completes, invariant kept; and no
    call ever ends in a memory fault whatever is armed -/
theorem fault_only_when_scheduled {p : Pool} (hI : Inv p) (op : Op) (hpre : pre op p) (k : Nat) :
    (k ≠ 1 → ∃ p', op.run (armed p k) = .ok () p' ∧ Inv p') ∧
    (∀ f p', op.run (armed p k) ≠ .fault f p') := by
  rcases run_spec (inv_armed hI k) op (pre_armed op hpre k) with ⟨p'', h1, hS, _⟩ | ⟨p'', h1, hf, _⟩
  · exact ⟨fun _ => ⟨p'', h1, hS.inv⟩, fun f p' h => by rw [h] at h1; cases h1⟩
  · refine ⟨fun hk => ?_, fun f p' h => by rw [h] at h1; cases h1⟩
    simp only [armed, Option.some.injEq] at hf
    omega

/-- **destructible**: after the failed call every live object can still be destroyed, in any order, without any
    fault, and that leaves an empty heap — nothing was leaked or released twice by the failed call -/
theorem fault_safe_destructible {p p' : Pool} (hI : Inv p) (op : Op) (hpre : pre op p) (k : Nat)
    (h : op.run (armed p k) = .throw .badAlloc p') (os : List Nat) (hnd : os.Nodup)
    (hall : ∀ o, (p'.objs o).isSome = true ↔ o ∈ os) :
    ∃ q, destroyAll os p' = .ok () q ∧ (∀ o, q.objs o = none) ∧ (∀ k, q.heap k = none) := by
  obtain ⟨q, h1, h2, h3, _⟩ := destroyAll_spec (fault_safe hI op hpre k h).1 os hnd hall
  exact ⟨q, h1, h2, h3⟩

/-- after the failed call every live object can be read, and any operation whose precondition holds can be run
    (once the fault schedule is cleared it completes): the objects are still usable -/
theorem fault_safe_usable {p p' : Pool} (hI : Inv p) (op : Op) (hpre : pre op p) (k : Nat)
    (h : op.run (armed p k) = .throw .badAlloc p') :
    (∀ o b, p'.objs o = some b → ∃ ob, observe o p' = .ok ob p' ∧ ob.terminator = 0 ∧ ob.units.length = ob.size) ∧
    (∀ op', pre op' p' → ∃ q, op'.run { p' with failAt := none } = .ok () q ∧ Inv q) := by
  have hI' := (fault_safe hI op hpre k h).1
  refine ⟨fun o b hb => ?_, fun op' hpre' => ?_⟩
  · obtain ⟨ob, e1, _, _, e4, e5, _⟩ := observe_spec hI' hb
    exact ⟨ob, e1, e5, e4⟩
  · have hI'' : Inv { p' with failAt := none } := hI'.congr rfl (fun _ => rfl) (fun _ => rfl) rfl
    have hp : pre op' { p' with failAt := none } := by cases op' <;> exact hpre'
    obtain ⟨q, h1, h2, _⟩ := run_ok hI'' rfl op' hp
    exact ⟨q, h1, h2.inv⟩

/-- the same at any point of any history: if the state was reached by a history (`Pool.Reach`, C05) and the next
    operation's allocation fails, the invariant holds, every object other than the target still reports the value
    the specification store gives it, and the target reports its specified value, or is empty, or does not exist -/
theorem fault_safe_reachable {L : Nat} (hL : 0 < L) {s : Spec.Store.Store} {p p' : Pool} (hr : Reach L s p) (op : Op)
    (hpre : pre op p) (k : Nat) (h : op.run (armed p k) = .throw .badAlloc p') :
    Inv p' ∧ (∀ x, x ≠ target op → RelO (s x) (view p' x)) ∧
      (RelO (s (target op)) (view p' (target op)) ∨ view p' (target op) = some (0, []) ∨ view p' (target op) = none) := by
  have hI := (Props.C05.inv_reachable hL hr).1
  have hR := Props.C05.refines_reachable hL hr
  obtain ⟨h1, h2, h3⟩ := fault_safe hI op hpre k h
  refine ⟨h1, fun x hx => by rw [(h3 x hx).2]; exact hR x, ?_⟩
  rcases h2 with e | e | ⟨_, e⟩
  · exact Or.inl (by rw [e]; exact hR _)
  · exact Or.inr (Or.inl e)
  · exact Or.inr (Or.inr e)

/-! ### non-vacuity and the defect of the pinned tree -/

inductive Tag where
  | ok | fault (f : Fault) | throw (e : Exc)
  deriving DecidableEq, Repr

def tag {α : Type} : Res α → Tag
  | .ok _ _ => .ok | .fault f _ => .fault f | .throw e _ => .throw e

def after {α : Type} : Res α → Pool
  | .ok _ p => p | .fault _ p => p | .throw _ p => p

def obsOf : Res Obs → Option (Nat × List Nat × Nat × Bool)
  | .ok ob _ => some (ob.size, ob.units, ob.terminator, ob.ownStorage)
  | _ => none

/-- `L = 4`: object 0 short `[1,2]`, object 1 long `[5,6,7,8,9]` -/
def start : Pool := after (ctorUnits 1 [5, 6, 7, 8, 9] (after (ctorUnits 0 [1, 2] (Pool.init 4))))

/-- the hypotheses of `fault_safe` are satisfiable: the repaired `allocate(6)` on a short buffer with its allocation
    failing throws `bad_alloc`, the buffer is then empty and readable, and both objects can be destroyed: heap empty -/
example : tag (allocate 0 6 (armed start 1)) = .throw .badAlloc := by decide +kernel
example : obsOf (observe 0 (after (allocate 0 6 (armed start 1)))) = some (0, [], 0, true) := by decide +kernel
example : obsOf (observe 1 (after (allocate 0 6 (armed start 1)))) = some (5, [5, 6, 7, 8, 9], 0, false) := by decide +kernel
example : tag (destroyAll [0, 1] (after (allocate 0 6 (armed start 1)))) = .ok := by decide +kernel
example : (after (destroyAll [0, 1] (after (allocate 0 6 (armed start 1))))).heap 0 = none := by decide +kernel
/-- long target: the repaired `allocate` on the long object 1, and the repaired copy assignment `1 = 1'` (long ← long) -/
example : tag (allocate 1 9 (armed start 1)) = .throw .badAlloc ∧
    obsOf (observe 1 (after (allocate 1 9 (armed start 1)))) = some (0, [], 0, true) ∧
    tag (destroyAll [1, 0] (after (allocate 1 9 (armed start 1)))) = .ok := by decide +kernel
example :
    let p := after (ctorCopy 2 1 start)
    tag (assignCopy 1 2 (armed p 1)) = .throw .badAlloc ∧
    obsOf (observe 1 (after (assignCopy 1 2 (armed p 1)))) = some (0, [], 0, true) ∧
    tag (destroyAll [2, 1, 0] (after (assignCopy 1 2 (armed p 1)))) = .ok := by decide +kernel
/-- with the second allocation armed the call completes (the fault never fires) -/
example : tag (allocate 0 6 (armed start 2)) = .ok := by decide +kernel

/-- **defect 16, first half** (`allocate` as found in the pinned tree, short target): after `bad_alloc` the buffer
    reports the new size while `data()` is still the in-object array — it cannot be read (`oob`) and its destructor
    runs `delete[]` on the in-object array -/
theorem asFound_allocate_badFree :
    tag (allocateAsFound 0 6 (armed start 1)) = .throw .badAlloc ∧
    tag (observe 0 (after (allocateAsFound 0 6 (armed start 1)))) = .fault .oob ∧
    tag (dtor 0 (after (allocateAsFound 0 6 (armed start 1)))) = .fault .badFree := by decide +kernel

/-- (long target) the block has already been released when `new` throws: reading is a use after free and the
    destructor releases the block a second time -/
theorem asFound_allocate_doubleFree :
    tag (allocateAsFound 1 9 (armed start 1)) = .throw .badAlloc ∧
    tag (observe 1 (after (allocateAsFound 1 9 (armed start 1)))) = .fault .useAfterFree ∧
    tag (dtor 1 (after (allocateAsFound 1 9 (armed start 1)))) = .fault .doubleFree := by decide +kernel

/-- **defect 16, second half** (copy assignment as found, long ← long): after `bad_alloc` the target has size 0 but
    `data()` points to the released block -/
theorem asFound_assignCopy_useAfterFree :
    tag (assignCopyAsFound 1 2 (armed (after (ctorCopy 2 1 start)) 1)) = .throw .badAlloc ∧
    tag (observe 1 (after (assignCopyAsFound 1 2 (armed (after (ctorCopy 2 1 start)) 1)))) = .fault .useAfterFree := by
  decide +kernel

/-- without a fault the members as found and the repaired members give the same observations (the repair changes
    nothing but the state left behind by a throwing `new`) — on this example -/
example : obsOf (observe 1 (after (allocateAsFound 1 9 start))) = obsOf (observe 1 (after (allocate 1 9 start))) := by decide +kernel

/-! ### `ST::string_stream` (family `stream`): restatements / corollaries of the C16 results

  The stream machine (Model/Stream.lean) consults the same kind of fault schedule (`failAt`) in `new char[big_size]` of
  `expand_buffer` and in the conversion buffer of the wide `operator<<` overloads; `new` precedes `delete[]`, and the
  signed-number overloads reserve room for sign and digits before their first append (repaired; the overloads as found
  are `Stream.appendNumAsFound`, witness `Props.C16.pinned_signed_number_partial_append`). -/

/-- under any fault schedule every admissible stream operation returns, or throws `unicode_error` / `bad_alloc` with
    every stream showing the bytes it showed before (the target holds its previous value); it never faults or hangs, and
    the stream invariant (exclusive ownership, no dangling pointer, nothing leaked) holds afterwards -/
theorem stream_step_fault_safe {p : Stream.Pool} (hi : Stream.Inv p) (op : Stream.Op) (hwf : op.wf)
    (hok : Spec.ByteLog.ok (Stream.abs p) op.toSpec = true) :
    ∃ p', Stream.Inv p' ∧
      ((op.run .repaired p = .ok () p' ∧ Stream.abs p' = Spec.ByteLog.step (Stream.abs p) op.toSpec) ∨
       (op.run .repaired p = .throw .unicodeError p' ∧ Stream.abs p' = Stream.abs p) ∨
       (op.run .repaired p = .throw .badAlloc p' ∧ p.failAt ≠ none ∧ Stream.abs p' = Stream.abs p)) :=
  Props.C16.step_fault_safe hi op hwf hok

/-- an `append` whose growth fails leaves every stream object, every heap block and the invariant exactly as they were -/
theorem stream_append_fault_safe {p : Stream.Pool} (hi : Stream.Inv p) {o : Nat} {s : Stream.Obj} (ho : p.objs o = some s)
    (bytes : List Nat) (p' : Stream.Pool) (h : Stream.append o bytes p = .throw .badAlloc p') :
    p'.objs = p.objs ∧ p'.heap = p.heap ∧ p'.next = p.next ∧ Stream.Inv p' ∧ Stream.abs p' = Stream.abs p :=
  Props.C16.append_fault_safe hi ho bytes p' h

/-- the same for `append_char` -/
theorem stream_append_char_fault_safe {p : Stream.Pool} (hi : Stream.Inv p) {o : Nat} {s : Stream.Obj} (ho : p.objs o = some s)
    (ch n : Nat) (p' : Stream.Pool) (h : Stream.appendChar o ch n p = .throw .badAlloc p') :
    p'.objs = p.objs ∧ p'.heap = p.heap ∧ p'.next = p.next ∧ Stream.Inv p' ∧ Stream.abs p' = Stream.abs p :=
  Props.C16.append_char_fault_safe hi ho ch n p' h

/-- after a stream operation ended in `bad_alloc`, every stream is still destructible: destroying all of them succeeds
    (no bad / double free) and leaves an empty heap -/
theorem stream_fault_then_destructible {p p' : Stream.Pool} (hi : Stream.Inv p) (op : Stream.Op) (hwf : op.wf)
    (hok : Spec.ByteLog.ok (Stream.abs p) op.toSpec = true) (h : op.run .repaired p = .throw .badAlloc p')
    (ids : List Nat) (hall : ∀ o, p'.objs o ≠ none → o ∈ ids) :
    Stream.Inv p' ∧ ∃ p'', Stream.destroyAll ids p' = .ok () p'' ∧ (∀ o, p''.objs o = none) ∧ ∀ k, p''.heap k = none := by
  have hi' : Stream.Inv p' := by
    rcases Stream.step_sound hi op hwf hok with ⟨q, h1, _⟩ | ⟨q, h1, _⟩ | ⟨q, h1, h2, _⟩
    · rw [h] at h1; cases h1
    · rw [h] at h1; cases h1
    · rw [h] at h1; cases h1; exact h2
  exact ⟨hi', Stream.destroyAll_empty hi' ids hall⟩

end StVerif.Props.C19
