/-
  C19 (buffer level) — Allocation failure propagates cleanly and leaves every object destructible.

  The pool machine's `new` consults a fault schedule (`Pool.failAt`): "the allocation with this ordinal
  throws `bad_alloc`".  For every `ST::buffer<T>` member (`Pool.Op`), every state satisfying the C05
  invariant, and every fault position `k` ("the k-th allocation from now fails"):
  the only exception is `bad_alloc`, it is raised only when an allocation of the call was scheduled to
  fail, and afterwards the invariant still holds (no object points to released storage, every block has
  exactly one owner: nothing leaked, nothing released twice), the target holds its previous value or an
  empty value (a constructor's target was never constructed) and every other object is untouched —
  hence everything can still be read, assigned to and destroyed, and destroying everything leaves an
  empty heap without any fault.

  The string level (`ST::string` operations as do-blocks over the buffer members, with their temporaries and
  unwinding: `Model/StrPool.lean`) is the second part of this file: `string_fault_safe` and its corollaries,
  from `Lemmas/StrPoolFault.lean: sop_fault_spec`.  `string_stream` has its own machine (C16/C17).
  The last section proves, on concrete witnesses, that the two members as found in the pinned tree
  (`allocateAsFound`, `assignCopyAsFound`) did *not* have this property (defect 16).
-/
import StVerif.Lemmas.PoolStep
import StVerif.Props.C05
import StVerif.Props.C16
import StVerif.Lemmas.StrPoolFault

namespace StVerif.Props.C19
open StVerif StVerif.Pool

/-- the same state with "the k-th allocation from now throws `bad_alloc`" scheduled -/
def armed (p : Pool) (k : Nat) : Pool := { p with failAt := some (p.allocs + k) }

/-- the object an operation constructs or modifies -/
def target : Op → Nat
  | .ctorDefault o | .ctorUnits o _ | .ctorCopy o _ | .ctorMove o _ | .dtor o | .clear o | .assignCopy o _ | .assignMove o _
  | .allocate o _ | .allocateFill o _ _ | .writeData o _ _ => o

theorem inv_armed {p : Pool} (hI : Inv p) (k : Nat) : Inv (armed p k) :=
  hI.congr (p' := armed p k) rfl (fun _ => rfl) (fun _ => rfl) rfl

theorem pre_armed {p : Pool} (op : Op) (h : pre op p) (k : Nat) : pre op (armed p k) := by
  cases op <;> exact h

theorem view_armed (p : Pool) (k x : Nat) : view (armed p k) x = view p x := rfl

/-- **fault safety**: if the call throws `bad_alloc` with the k-th allocation armed, then the invariant holds in the
    state left behind, the target reports its previous value, or an empty value, or (constructors) does not exist,
    and every other object is the very same object reporting the same value -/
theorem fault_safe {p p' : Pool} (hI : Inv p) (op : Op) (hpre : pre op p) (k : Nat)
    (h : op.run (armed p k) = .throw .badAlloc p') :
    Inv p' ∧
    (view p' (target op) = view p (target op) ∨ view p' (target op) = some (0, []) ∨
      (view p (target op) = none ∧ view p' (target op) = none)) ∧
    ∀ x, x ≠ target op → p'.objs x = p.objs x ∧ view p' x = view p x := by
  rcases run_spec (inv_armed hI k) op (pre_armed op hpre k) with ⟨p'', h1, _⟩ | ⟨p'', h1, _, hS, hpost⟩
  · rw [h] at h1; cases h1
  · rw [h] at h1; cases h1
    refine ⟨hS.inv, ?_, ?_⟩
    · cases op with
      | ctorUnits o us => exact Or.inr (Or.inr ⟨view_eq_none.2 hpre, hpost⟩)
      | ctorCopy o s => exact Or.inr (Or.inr ⟨view_eq_none.2 hpre.1, hpost⟩)
      | assignCopy o s => exact hpost.elim Or.inl (fun h => Or.inr (Or.inl h))
      | allocate o n => exact Or.inr (Or.inl hpost)
      | allocateFill o n v => exact Or.inr (Or.inl hpost)
      | _ => exact hpost.elim
    · intro x hx
      have hT : ¬ op.T x := by
        cases op <;> first | exact hx | exact hpost.elim
      exact ⟨hS.objs x hT, hS.view x hT⟩

/-- an exception can only be `bad_alloc` -/
theorem throw_only_bad_alloc {p p' : Pool} (hI : Inv p) (op : Op) (hpre : pre op p) (k : Nat) (e : Exc)
    (h : op.run (armed p k) = .throw e p') : e = .badAlloc := by
  rcases run_spec (inv_armed hI k) op (pre_armed op hpre k) with ⟨p'', h1, _⟩ | ⟨p'', h1, _⟩
  · rw [h] at h1; cases h1
  · rw [h] at h1; cases h1; rfl

/-- `bad_alloc` is raised only when an allocation of the call was scheduled to fail: a buffer member performs at most
    one allocation, so with any `k ≠ 1` armed (and with nothing armed) the call completes, invariant kept; and no
    call ever ends in a memory fault whatever is armed -/
theorem fault_only_when_scheduled {p : Pool} (hI : Inv p) (op : Op) (hpre : pre op p) (k : Nat) :
    (k ≠ 1 → ∃ p', op.run (armed p k) = .ok () p' ∧ Inv p') ∧
    (∀ f p', op.run (armed p k) ≠ .fault f p') := by
  rcases run_spec (inv_armed hI k) op (pre_armed op hpre k) with ⟨p'', h1, hS, _⟩ | ⟨p'', h1, hf, _⟩
  · exact ⟨fun _ => ⟨p'', h1, hS.inv⟩, fun f p' h => by rw [h] at h1; cases h1⟩
  · refine ⟨fun hk => ?_, fun f p' h => by rw [h] at h1; cases h1⟩
    simp only [armed, Option.some.injEq] at hf
    omega

/-- **destructible**: after the failed call every live object can still be destroyed, in any order, without any
    fault, and that leaves an empty heap — nothing was leaked or released twice by the failed call -/
theorem fault_safe_destructible {p p' : Pool} (hI : Inv p) (op : Op) (hpre : pre op p) (k : Nat)
    (h : op.run (armed p k) = .throw .badAlloc p') (os : List Nat) (hnd : os.Nodup)
    (hall : ∀ o, (p'.objs o).isSome = true ↔ o ∈ os) :
    ∃ q, destroyAll os p' = .ok () q ∧ (∀ o, q.objs o = none) ∧ (∀ k, q.heap k = none) := by
  obtain ⟨q, h1, h2, h3, _⟩ := destroyAll_spec (fault_safe hI op hpre k h).1 os hnd hall
  exact ⟨q, h1, h2, h3⟩

/-- after the failed call every live object can be read, and any operation whose precondition holds can be run
    (once the fault schedule is cleared it completes): the objects are still usable -/
theorem fault_safe_usable {p p' : Pool} (hI : Inv p) (op : Op) (hpre : pre op p) (k : Nat)
    (h : op.run (armed p k) = .throw .badAlloc p') :
    (∀ o b, p'.objs o = some b → ∃ ob, observe o p' = .ok ob p' ∧ ob.terminator = 0 ∧ ob.units.length = ob.size) ∧
    (∀ op', pre op' p' → ∃ q, op'.run { p' with failAt := none } = .ok () q ∧ Inv q) := by
  have hI' := (fault_safe hI op hpre k h).1
  refine ⟨fun o b hb => ?_, fun op' hpre' => ?_⟩
  · obtain ⟨ob, e1, _, _, e4, e5, _⟩ := observe_spec hI' hb
    exact ⟨ob, e1, e5, e4⟩
  · have hI'' : Inv { p' with failAt := none } := hI'.congr rfl (fun _ => rfl) (fun _ => rfl) rfl
    have hp : pre op' { p' with failAt := none } := by cases op' <;> exact hpre'
    obtain ⟨q, h1, h2, _⟩ := run_ok hI'' rfl op' hp
    exact ⟨q, h1, h2.inv⟩

/-- the same at any point of any history: if the state was reached by a history (`Pool.Reach`, C05) and the next
    operation's allocation fails, the invariant holds, every object other than the target still reports the value
    the specification store gives it, and the target reports its specified value, or is empty, or does not exist -/
theorem fault_safe_reachable {L : Nat} (hL : 0 < L) {s : Spec.Store.Store} {p p' : Pool} (hr : Reach L s p) (op : Op)
    (hpre : pre op p) (k : Nat) (h : op.run (armed p k) = .throw .badAlloc p') :
    Inv p' ∧ (∀ x, x ≠ target op → RelO (s x) (view p' x)) ∧
      (RelO (s (target op)) (view p' (target op)) ∨ view p' (target op) = some (0, []) ∨ view p' (target op) = none) := by
  have hI := (Props.C05.inv_reachable hL hr).1
  have hR := Props.C05.refines_reachable hL hr
  obtain ⟨h1, h2, h3⟩ := fault_safe hI op hpre k h
  refine ⟨h1, fun x hx => by rw [(h3 x hx).2]; exact hR x, ?_⟩
  rcases h2 with e | e | ⟨_, e⟩
  · exact Or.inl (by rw [e]; exact hR _)
  · exact Or.inr (Or.inl e)
  · exact Or.inr (Or.inr e)

/-! ### non-vacuity and the defect of the pinned tree -/

inductive Tag where
  | ok | fault (f : Fault) | throw (e : Exc)
  deriving DecidableEq, Repr

def tag {α : Type} : Res α → Tag
  | .ok _ _ => .ok | .fault f _ => .fault f | .throw e _ => .throw e

def after {α : Type} : Res α → Pool
  | .ok _ p => p | .fault _ p => p | .throw _ p => p

def obsOf : Res Obs → Option (Nat × List Nat × Nat × Bool)
  | .ok ob _ => some (ob.size, ob.units, ob.terminator, ob.ownStorage)
  | _ => none

/-- `L = 4`: object 0 short `[1,2]`, object 1 long `[5,6,7,8,9]` -/
def start : Pool := after (ctorUnits 1 [5, 6, 7, 8, 9] (after (ctorUnits 0 [1, 2] (Pool.init 4))))

/-- the hypotheses of `fault_safe` are satisfiable: the repaired `allocate(6)` on a short buffer with its allocation
    failing throws `bad_alloc`, the buffer is then empty and readable, and both objects can be destroyed: heap empty -/
example : tag (allocate 0 6 (armed start 1)) = .throw .badAlloc := by decide +kernel
example : obsOf (observe 0 (after (allocate 0 6 (armed start 1)))) = some (0, [], 0, true) := by decide +kernel
example : obsOf (observe 1 (after (allocate 0 6 (armed start 1)))) = some (5, [5, 6, 7, 8, 9], 0, false) := by decide +kernel
example : tag (destroyAll [0, 1] (after (allocate 0 6 (armed start 1)))) = .ok := by decide +kernel
example : (after (destroyAll [0, 1] (after (allocate 0 6 (armed start 1))))).heap 0 = none := by decide +kernel
/-- long target: the repaired `allocate` on the long object 1, and the repaired copy assignment `1 = 1'` (long ← long) -/
example : tag (allocate 1 9 (armed start 1)) = .throw .badAlloc ∧
    obsOf (observe 1 (after (allocate 1 9 (armed start 1)))) = some (0, [], 0, true) ∧
    tag (destroyAll [1, 0] (after (allocate 1 9 (armed start 1)))) = .ok := by decide +kernel
example :
    let p := after (ctorCopy 2 1 start)
    tag (assignCopy 1 2 (armed p 1)) = .throw .badAlloc ∧
    obsOf (observe 1 (after (assignCopy 1 2 (armed p 1)))) = some (0, [], 0, true) ∧
    tag (destroyAll [2, 1, 0] (after (assignCopy 1 2 (armed p 1)))) = .ok := by decide +kernel
/-- with the second allocation armed the call completes (the fault never fires) -/
example : tag (allocate 0 6 (armed start 2)) = .ok := by decide +kernel

/-- **defect 16, first half** (`allocate` as found in the pinned tree, short target): after `bad_alloc` the buffer
    reports the new size while `data()` is still the in-object array — it cannot be read (`oob`) and its destructor
    runs `delete[]` on the in-object array -/
theorem asFound_allocate_badFree :
    tag (allocateAsFound 0 6 (armed start 1)) = .throw .badAlloc ∧
    tag (observe 0 (after (allocateAsFound 0 6 (armed start 1)))) = .fault .oob ∧
    tag (dtor 0 (after (allocateAsFound 0 6 (armed start 1)))) = .fault .badFree := by decide +kernel

/-- (long target) the block has already been released when `new` throws: reading is a use after free and the
    destructor releases the block a second time -/
theorem asFound_allocate_doubleFree :
    tag (allocateAsFound 1 9 (armed start 1)) = .throw .badAlloc ∧
    tag (observe 1 (after (allocateAsFound 1 9 (armed start 1)))) = .fault .useAfterFree ∧
    tag (dtor 1 (after (allocateAsFound 1 9 (armed start 1)))) = .fault .doubleFree := by decide +kernel

/-- **defect 16, second half** (copy assignment as found, long ← long): after `bad_alloc` the target has size 0 but
    `data()` points to the released block -/
theorem asFound_assignCopy_useAfterFree :
    tag (assignCopyAsFound 1 2 (armed (after (ctorCopy 2 1 start)) 1)) = .throw .badAlloc ∧
    tag (observe 1 (after (assignCopyAsFound 1 2 (armed (after (ctorCopy 2 1 start)) 1)))) = .fault .useAfterFree := by
  decide +kernel

/-- without a fault the members as found and the repaired members give the same observations (the repair changes
    nothing but the state left behind by a throwing `new`) — on this example -/
example : obsOf (observe 1 (after (allocateAsFound 1 9 start))) = obsOf (observe 1 (after (allocate 1 9 start))) := by decide +kernel

/-! ### `ST::string_stream` (family `stream`): restatements / corollaries of the C16 results

  The stream machine (Model/Stream.lean) consults the same kind of fault schedule (`failAt`) in `new char[big_size]` of
  `expand_buffer` and in the conversion buffer of the wide `operator<<` overloads; `new` precedes `delete[]`, and the
  signed-number overloads reserve room for sign and digits before their first append (repaired; the overloads as found
  are `Stream.appendNumAsFound`, witness `Props.C16.pinned_signed_number_partial_append`). -/

/-- under any fault schedule every admissible stream operation returns, or throws `unicode_error` / `bad_alloc` with
    every stream showing the bytes it showed before (the target holds its previous value); it never faults or hangs, and
    the stream invariant (exclusive ownership, no dangling pointer, nothing leaked) holds afterwards -/
theorem stream_step_fault_safe {p : Stream.Pool} (hi : Stream.Inv p) (op : Stream.Op) (hwf : op.wf)
    (hok : Spec.ByteLog.ok (Stream.abs p) op.toSpec = true) :
    ∃ p', Stream.Inv p' ∧
      ((op.run .repaired p = .ok () p' ∧ Stream.abs p' = Spec.ByteLog.step (Stream.abs p) op.toSpec) ∨
       (op.run .repaired p = .throw .unicodeError p' ∧ Stream.abs p' = Stream.abs p) ∨
       (op.run .repaired p = .throw .badAlloc p' ∧ p.failAt ≠ none ∧ Stream.abs p' = Stream.abs p)) :=
  Props.C16.step_fault_safe hi op hwf hok

/-- an `append` whose growth fails leaves every stream object, every heap block and the invariant exactly as they were -/
theorem stream_append_fault_safe {p : Stream.Pool} (hi : Stream.Inv p) {o : Nat} {s : Stream.Obj} (ho : p.objs o = some s)
    (bytes : List Nat) (p' : Stream.Pool) (h : Stream.append o bytes p = .throw .badAlloc p') :
    p'.objs = p.objs ∧ p'.heap = p.heap ∧ p'.next = p.next ∧ Stream.Inv p' ∧ Stream.abs p' = Stream.abs p :=
  Props.C16.append_fault_safe hi ho bytes p' h

/-- the same for `append_char` -/
theorem stream_append_char_fault_safe {p : Stream.Pool} (hi : Stream.Inv p) {o : Nat} {s : Stream.Obj} (ho : p.objs o = some s)
    (ch n : Nat) (p' : Stream.Pool) (h : Stream.appendChar o ch n p = .throw .badAlloc p') :
    p'.objs = p.objs ∧ p'.heap = p.heap ∧ p'.next = p.next ∧ Stream.Inv p' ∧ Stream.abs p' = Stream.abs p :=
  Props.C16.append_char_fault_safe hi ho ch n p' h

/-- after a stream operation ended in `bad_alloc`, every stream is still destructible: destroying all of them succeeds
    (no bad / double free) and leaves an empty heap -/
theorem stream_fault_then_destructible {p p' : Stream.Pool} (hi : Stream.Inv p) (op : Stream.Op) (hwf : op.wf)
    (hok : Spec.ByteLog.ok (Stream.abs p) op.toSpec = true) (h : op.run .repaired p = .throw .badAlloc p')
    (ids : List Nat) (hall : ∀ o, p'.objs o ≠ none → o ∈ ids) :
    Stream.Inv p' ∧ ∃ p'', Stream.destroyAll ids p' = .ok () p'' ∧ (∀ o, p''.objs o = none) ∧ ∀ k, p''.heap k = none := by
  have hi' : Stream.Inv p' := by
    rcases Stream.step_sound hi op hwf hok with ⟨q, h1, _⟩ | ⟨q, h1, _⟩ | ⟨q, h1, h2, _⟩
    · rw [h] at h1; cases h1
    · rw [h] at h1; cases h1
    · rw [h] at h1; cases h1; exact h2
  exact ⟨hi', Stream.destroyAll_empty hi' ids hall⟩
/-! ## string level

  `SReachF L p`: `p` is reached from the empty pool by a finite history of string-level operations (`StrPool.SOp`:
  construction from text / buffers / other encodings, copy, move, assignment, `set` in every validation mode, `+=` of a
  string / C string / code point, results of const operations, destruction), each run under its precondition, where
  **any fault schedule may be installed before any operation** and operations that threw (`bad_alloc` included) are
  part of the history.  What a const operation computes is a parameter (`derive`); what it allocates for its result
  is modelled (`fresh`), what libstdc++ containers allocate inside a value computation is not. -/

open StVerif.StrPool

/-- **string-level fault safety**: in any state of any such history, under any fault schedule, an operation whose
    precondition holds ends in one of three ways (`SFOutcome`) — completed, only its targets changed; an exception other
    than `bad_alloc`, nothing changed; `bad_alloc`, only with a fault scheduled, only its targets changed and each target
    holds its previous value, is empty, or was a constructor target.  In each case the invariant of C05 holds afterwards
    (no pointer to released storage, exclusive ownership, nothing leaked) and every temporary has been destroyed. -/
theorem string_fault_safe {L : Nat} (hL : 0 < L) {p : Pool} (hr : SReachF L p) (op : SOp) (hpre : op.pre p) :
    SFOutcome (op.run p) p op.targets := by
  obtain ⟨hI, hT⟩ := sreachF_inv hL hr
  exact sop_fault_spec hI hT op hpre

/-- whatever the schedule, no string-level operation ends in a memory fault (bad free, double free, use after free,
    out-of-bounds access, member call on a destroyed temporary) -/
theorem string_fault_never_faults {L : Nat} (hL : 0 < L) {p : Pool} (hr : SReachF L p) (op : SOp) (hpre : op.pre p) :
    ∀ f q, op.run p ≠ .fault f q := by
  intro f q h
  rcases string_fault_safe hL hr op hpre with ⟨p', h1, _⟩ | ⟨e, p', h1, _⟩ | ⟨p', h1, _⟩ <;> (rw [h] at h1; cases h1)

/-- **after `bad_alloc`**: a fault was scheduled; each target holds its previous value, or is empty, or was the target of a
    constructor (for the results of a const operation: those built before the failing one exist, the others do not);
    every other object is the very same object (data pointer included) with the same value -/
theorem string_fault_target_previous_or_empty {L : Nat} (hL : 0 < L) {p p' : Pool} (hr : SReachF L p) (op : SOp)
    (hpre : op.pre p) (h : op.run p = .throw .badAlloc p') :
    p.failAt ≠ none ∧
    (∀ t ∈ op.targets, view p' t = view p t ∨ view p' t = some (0, []) ∨ p.objs t = none) ∧
    (∀ x, x ∉ op.targets → p'.objs x = p.objs x ∧ view p' x = view p x) := by
  rcases string_fault_safe hL hr op hpre with ⟨p'', h1, _⟩ | ⟨e, p'', h1, he, _⟩ | ⟨p'', h1, f1, s1, _, v1⟩
  · rw [h] at h1; cases h1
  · rw [h] at h1; cases h1; exact absurd rfl he
  · rw [h] at h1; cases h1
    exact ⟨f1, v1, fun x hx => ⟨s1.objs x hx, s1.view x hx⟩⟩

/-- an exception other than `bad_alloc` leaves every object unchanged also when a fault is scheduled (C18 under faults) -/
theorem string_fault_other_exception_unchanged {L : Nat} (hL : 0 < L) {p p' : Pool} (hr : SReachF L p) (op : SOp)
    (hpre : op.pre p) {e : Exc} (h : op.run p = .throw e p') (he : e ≠ .badAlloc) :
    ∀ x, p'.objs x = p.objs x ∧ view p' x = view p x := by
  rcases string_fault_safe hL hr op hpre with ⟨p'', h1, _⟩ | ⟨e', p'', h1, _, s1, _⟩ | ⟨p'', h1, _⟩
  · rw [h] at h1; cases h1
  · rw [h] at h1; cases h1; exact fun x => ⟨s1.objs x (fun f => f), s1.view x (fun f => f)⟩
  · rw [h] at h1; cases h1; exact absurd rfl he

/-- only finitely many objects are alive in a state of such a history -/
theorem string_reachable_finite {L : Nat} (hL : 0 < L) {p : Pool} (hr : SReachF L p) :
    ∃ os : List Nat, os.Nodup ∧ ∀ o, (p.objs o).isSome = true ↔ o ∈ os := by
  have hsup : ∃ cs : List Nat, ∀ o, (p.objs o).isSome = true → o ∈ cs := by
    induction hr with
    | init => exact ⟨[], fun o ho => by simp [Pool.init] at ho⟩
    | @ok p p' op hprev hpre hrun ih =>
      obtain ⟨cs, hcs⟩ := ih
      refine ⟨op.targets ++ cs, fun o ho => ?_⟩
      by_cases ht : o ∈ op.targets
      · exact List.mem_append_left _ ht
      · rcases string_fault_safe hL hprev op hpre with ⟨p'', h1, s1, _⟩ | ⟨e, p'', h1, _⟩ | ⟨p'', h1, _⟩ <;>
          (rw [hrun] at h1; cases h1)
        rw [s1.objs o ht] at ho
        exact List.mem_append_right _ (hcs o ho)
    | @thrown p p' op e hprev hpre hrun ih =>
      obtain ⟨cs, hcs⟩ := ih
      refine ⟨op.targets ++ cs, fun o ho => ?_⟩
      by_cases ht : o ∈ op.targets
      · exact List.mem_append_left _ ht
      · rcases string_fault_safe hL hprev op hpre with ⟨p'', h1, _⟩ | ⟨e', p'', h1, _, s1, _⟩ | ⟨p'', h1, _, s1, _⟩ <;>
          (rw [hrun] at h1; cases h1)
        · rw [s1.objs o (fun f => f)] at ho
          exact List.mem_append_right _ (hcs o ho)
        · rw [s1.objs o ht] at ho
          exact List.mem_append_right _ (hcs o ho)
    | arm f _ ih => exact ih
  obtain ⟨cs, hcs⟩ := hsup
  obtain ⟨os, hnd, hos⟩ := exact_live_list p cs
  exact ⟨os, hnd, fun o => ⟨fun ho => (hos o).2 ⟨hcs o ho, ho⟩, fun ho => ((hos o).1 ho).2⟩⟩

/-- **destructible**: the state after `bad_alloc` is again a state of such a history (so everything above applies to
    whatever is done next — reading, assigning, appending, with or without further faults), and destroying every live
    object, in any order, never faults and leaves an empty heap (C05 `no_leak`): the failed call leaked nothing and left
    nothing to be released twice -/
theorem string_fault_destructible {L : Nat} (hL : 0 < L) {p p' : Pool} (hr : SReachF L p) (op : SOp) (hpre : op.pre p)
    (h : op.run p = .throw .badAlloc p') :
    SReachF L p' ∧ Inv p' ∧
    (∃ os : List Nat, os.Nodup ∧ ∀ o, (p'.objs o).isSome = true ↔ o ∈ os) ∧
    ∀ os : List Nat, os.Nodup → (∀ o, (p'.objs o).isSome = true ↔ o ∈ os) →
      ∃ q, destroyAll os p' = .ok () q ∧ (∀ o, q.objs o = none) ∧ (∀ k, q.heap k = none) := by
  have hr' : SReachF L p' := .thrown hr hpre h
  have hI' := (sreachF_inv hL hr').1
  exact ⟨hr', hI', string_reachable_finite hL hr', fun os hnd hall => Props.C05.no_leak hI' os hnd hall⟩

/-- after `bad_alloc` every live object can be read through `data()` / `size()`: NUL-terminated, as long as it says -/
theorem string_fault_readable {L : Nat} (hL : 0 < L) {p p' : Pool} (hr : SReachF L p) (op : SOp) (hpre : op.pre p)
    (h : op.run p = .throw .badAlloc p') :
    ∀ o b, p'.objs o = some b → ∃ ob, observe o p' = .ok ob p' ∧ ob.terminator = 0 ∧ ob.units.length = ob.size := by
  intro o b hb
  obtain ⟨ob, e1, _, _, e4, e5, _⟩ := observe_spec (string_fault_destructible hL hr op hpre h).2.1 hb
  exact ⟨ob, e1, e5, e4⟩

/-- the histories of C04/C18 (no fault ever scheduled) are among these histories -/
theorem string_histories_included {L : Nat} {p : Pool} (h : SReach L p) : SReachF L p := SReach.toF h

/-- **the hypotheses are satisfiable and the fault really fires**: a 20-byte string (heap storage at limit 16) is
    constructed in the empty pool, the next allocation is scheduled to fail, and `o += o` (whose 40-byte result needs an
    allocation) ends in `bad_alloc` — with the string still holding its 20 bytes.  (By the lemmas, not by evaluation.) -/
example : ∃ p p', SReachF 16 p ∧ (SOp.appendStr 0 0).pre p ∧ (SOp.appendStr 0 0).run p = .throw .badAlloc p' ∧
    view p' 0 = some (20, List.replicate 20 0x61) := by
  have hL : 0 < 16 := by decide
  have hpre0 : (SOp.ctorText 0 (List.replicate 20 0x61) .assumeValid).pre (Pool.init 16) := ⟨by unfold userId; omega, rfl⟩
  obtain ⟨hI0, hT0, hF0⟩ := sreach_inv hL (.init : SReach 16 (Pool.init 16))
  rcases ctorText_spec hI0 hF0 (o := 0) rfl (hT0 _ isTemp_A) (hT0 _ isTemp_C) (by decide) (by decide) (List.replicate 20 0x61) .assumeValid with
    ⟨_, p1, h1, s1, a1, _, _, v1⟩ | ⟨ht, _⟩
  · have hr1 : SReachF 16 p1 := .ok .init hpre0 h1
    let p := { p1 with failAt := some (p1.allocs + 1) }
    have hr : SReachF 16 p := .arm _ hr1
    obtain ⟨hI, hT⟩ := sreachF_inv hL hr
    obtain ⟨b, hb⟩ := alive_of_view v1
    have hb' : p.objs 0 = some b := hb
    have hv : view p 0 = some (20, List.replicate 20 0x61) := by
      have : view p 0 = view p1 0 := rfl
      rw [this, v1]; simp [setVal]
    have hu : units p b = List.replicate 20 0x61 := units_of_view hb' hv
    have hLp : p.L = 16 := s1.L
    obtain ⟨p', h2, _, s2⟩ := appendStr_throws hI hb' hb' (hT _ isTemp_A) (by rw [hu, hLp]; simp) rfl
    refine ⟨p, p', hr, ⟨by unfold userId; omega, by unfold userId; omega, ⟨b, hb'⟩, ⟨b, hb'⟩⟩, h2, ?_⟩
    rw [s2.view 0 (fun f => f)]; exact hv
  · exact absurd ht.1 (by decide)

end StVerif.Props.C19
